"""C14 -- per-bin statistics and equal-occupancy bins equal direct computation."""
import ast
import os

import sympy as sp

from vcheck import cfront, symx
from vcheck.core import PyRepo, AnalysisError, call_name, dotted_name, kwarg, norm

MANIFEST = dict(
    text="Formula conformance by symbolic normal forms (not numerical testing): calc_stats, _hist_by_num and _merge_last are abstractly "
         "interpreted as a whole (every configuration of second variable / weights / equal-occupancy) with one generic bin: the bin's "
         "members are the reverse-index slice rev[rev[i]:rev[i+1]], reductions are uninterpreted functionals, result arrays are "
         "(initial value, guarded element stores), and every store carries its path condition.  The value each result key holds is then "
         "read off in four scenarios (empty bin, one member, two members, three or more): with several members it must equal the "
         "documented definitions (mean, std, std/sqrt(n), median; with weights sum(w), sum(w x)/sum(w), weighted deviation and both "
         "error estimates through the weighted-moment routine, for the binned and the second variable); with one member it must equal "
         "the general definition specialised to n = 1 for every quantity the property constrains for one member; for an empty bin it "
         "must be the documented sentinel (-9999; summed weight 0); bin edges/centres are min + i*binsize (+ binsize, + binsize/2); the "
         "result keys exist exactly under the configurations that define them; equal-occupancy binning histograms the sorted positions "
         "with bin size nperbin, maps the engine's reverse indices through the limited sort index to the original frame, takes low/high "
         "from the first/last member and merges a short last bin (counts added, low of the predecessor, high of the last).  A per-bin array "
         "built for all bins at once by a segmented reduction over the index area (ufunc.reduceat with the bins' offsets) is given numpy's "
         "documented value: the reduction over the members for a non-empty bin, the element at the offset for an empty one, the rest of the "
         "operand for the last one.  Where equal-occupancy binning does not go through the histogram engine but writes its results down directly, "
         "the function is evaluated once per case of a case split that decides all its tests (mergelast on / off, last bin short / full, one / several "
         "bins) with vectors over the bins as element terms (whole-vector arithmetic, numpy.bincount of the bin numbers int(arange(n)/nperbin), "
         "numpy.cumsum, selections by numpy.nonzero / comparisons, gathers through the sort index, element / slice / selection stores): the counts must "
         "be those of the ranks binned by nperbin, int((n-1)/nperbin)+1 of them; the reverse indices must have the engine's layout for the counts that "
         "are stored (first offset nbin+1, offset behind bin k = nbin+1+cumulated count, index area = the limited sort index), low/high must be the "
         "binned variable at the first / last rank of each bin; the last two counts are added and one bin dropped exactly in the case mergelast on, "
         "last bin short, several bins.  Vectors whose parts are read or written separately (bin edges built from slices of one another, closed by an "
         "element store, appended or concatenated; the reverse indices in the method that merges the last bin, a view of themselves shifted by slice "
         "copies, numpy.delete, in-place arithmetic on a slice) carry explicit element positions: a slice is a view of the same storage, every store "
         "overlays the positions it covers with the value its right-hand side had at that moment, and the element at a generic position (first / "
         "middle / last bin; a remaining offset, the offset behind the merged bin, a place in the index area) is read back by comparing the position "
         "with the stored regions under the known extents.  So every bin edge, the last one included, must be the definition at its own position, and the "
         "merged reverse indices must be the engine's layout for one bin fewer (one element fewer, offsets REV[k]-1, last offset the old end REV[nbin]-1, "
         "index area unchanged one place earlier).  Finally the options are followed by data dependence from histogram() to Binner.dohist() and on to the "
         "methods of Binner: a parameter fed a plain copy of an option must be fed the option of its own name, and no public option is cut off.  "
         "The bin number inside the histogram engine (the compiled routine on clang's AST, locals and file-local helpers substituted through reaching "
         "definitions; the Python fallback likewise) is read off as a floating-point expression tree over datum, minimum and bin size at every store into "
         "the array of counts: it must be the truncation of the single double-precision quotient (datum - min) / binsize, the one form for which IEEE-754 "
         "guarantees that the sorted position r handed over by equal-occupancy binning is counted in bin floor(r / nperbin) for every r and nperbin (a "
         "product with a reciprocal, a difference of quotients, single precision or a rounding conversion is reported).  "
         "Which data are binned at all: every rule above takes the limited sort index (self['wsort']) as the stable sort index restricted to the data with "
         "min <= x <= max, both limits inclusive; that premise is decided on the method that stores it by the per-path value-flow analysis of the limits "
         "that check C05 defines (checks.C05.limits: a mask in sorted order, or a slice of the sorted index between numpy.searchsorted positions whose "
         "side makes the bound inclusive), and reported here under R14.7.  "
         "A buffer that a library routine may permute in place (numpy.median / percentile / quantile with overwrite_input, ndarray.sort / partition, "
         "numpy.random.shuffle) stands from then on for REORDERED(its elements) under every name bound to it: a reduction that does not depend on the order "
         "keeps its value, an element-wise pairing with an array still in reverse-index order (the weighted moments of the second variable) no longer equals "
         "the definition and is reported under R14.1.  R14.8: one Binner is binned again and again, so Binner.dohist must, before it produces anything, remove "
         "every result key that a run does not bind on all of its paths (keys bound by the methods and the keys tested for presence are collected from the class, "
         "the always-bound keys by a structured must-analysis through the methods called, the removed keys from clear() / del / pop / loops over literal keys or "
         "over a copy of the object's keys).  R14.9: the layout of the reverse indices that every calc_stats rule presupposes (offset of each of the nbin+1 bins "
         "written, empty bins skipped by a datum get the offset of that datum, trailing bins the end of the counted data, index area in sorted order, both engines "
         "alike) is decided on the engines by the guarded-effect analysis that check C05 defines (checks.C05.engines).",
    note="Not decided: numerical equality. Trusted: numpy "
         "reductions, slice-view aliasing and copy-on-overlap of numpy slice assignment, numpy.delete / append / concatenate, sympy normaliser, the histogram "
         "engine's reverse-index layout (offsets 0..nbin, then the members bin by bin, at least one datum); in the direct "
         "form numpy.bincount / cumsum / nonzero and that the bin number int(r/nperbin) does not decrease with the rank r (bins hold consecutive ranks); "
         "IEEE-754 correctly rounded double division in C and numpy (the bin-number rule compares floating-point structure, it computes nothing).",
    technique="static analysis: abstract interpretation over a symbolic term domain (reductions as uninterpreted functionals, arrays as guarded stores), "
              "special-case consistency by term rewriting, path conditions decided per scenario",
)

ST = "esutil.stat.util."
F = {n: sp.Function(n) for n in ("MEAN", "STD", "MEDIAN", "SUM")}


# rules that keep their verdict however the code is laid out (decided by term equality over the values the result keys hold and by
# path conditions decided per scenario; nothing in this check looks at statement text, local names or statement order)
SEMANTIC = ('R14.1', 'R14.2', 'R14.3', 'R14.4', 'R14.5', 'R14.6', 'R14.7', 'R14.8', 'R14.9')


# ---------------------------------------------------------------------------------------------------------------------------------
# term vocabulary
# ---------------------------------------------------------------------------------------------------------------------------------
AT, SIZE, MEMBER, ARANGE, INT = (sp.Function(n) for n in ("AT", "SIZE", "MEMBER", "ARANGE", "INT"))
GEN = sp.Symbol("i", integer=True)                          # the generic bin
NSEL = sp.Symbol("NSEL", positive=True, integer=True)       # number of members of the generic bin
POS, MEMBERS, FIRST, LAST, AREA = sp.symbols("POS MEMBERS FIRSTMEMBER LASTMEMBER INDEXAREA")
XALL, YALL, WALL = symx.symbols("XALL", "YALL", "WALL")     # the object's arrays
X, Y, W = symx.symbols("X", "Y", "W")                       # ... restricted to the members of the generic bin
HIST, LOW, HIGH, REV, WSORT, SORTIDX = sp.symbols("HIST LOW HIGH REV WSORT SORT_INDEX")
# the option nperbin: the property quantifies over the integers 1..N (a requested NUMBER of data per bin)
NPB = sp.Symbol("nperbin", positive=True, integer=True)
_NPB0 = sp.Symbol("nperbin_minus_1", nonnegative=True, integer=True)
DMIN, DMAX, BINSIZE = symx.symbols("dmin", "dmax", "binsize")
XP = "{xpref}"                                              # stands for the (unknown) prefix string self.xpref
HPOS = sp.Symbol("h", positive=True, integer=True)
MPOS = sp.Symbol("m", positive=True, integer=True)
_CONT = symx.Opaque("continue")
APPEND, MEMBER_AT = sp.Function("APPEND"), sp.Function("MEMBER_AT")
# REORDERED(v): the elements of v in an order the analysis does not know (a buffer a library routine permuted in place)
REORDERED = sp.Function("REORDERED")
# numpy routines that may permute their first argument in place when asked to (keyword overwrite_input)
_OVERWRITING = ("median", "nanmedian", "percentile", "nanpercentile", "quantile", "nanquantile")
_SYMMETRIC = ("MEAN", "STD", "MEDIAN", "SUM", "MIN", "MAX", "VAR")     # reductions that do not depend on the order of the elements


def _src(node):
    try:
        return ast.unparse(node)
    except Exception:
        return type(node).__name__


def _drop_reorder(e):
    """a reduction that does not depend on the order of its elements has the same value on a permuted buffer; what is left of
    REORDERED afterwards is an order-dependent use (an element-wise pairing with another array, an element taken by position)"""
    if not (isinstance(e, sp.Basic) and e.has(REORDERED)):
        return e
    return e.replace(lambda t: isinstance(t, sp.Function) and type(t).__name__ in _SYMMETRIC and len(t.args) == 1 and t.args[0].func == REORDERED,
                     lambda t: t.func(t.args[0].args[0]))
# numpy ufuncs whose .reduce over a selection the term domain has a functional for
UFUNC_REDUCE = {"add": "SUM"}


def _start(sym):
    return AT(sym, GEN)


def _end(sym):
    return AT(sym, GEN + 1)


def _scen(nmemb):
    """substitution that decides path conditions for a generic bin with the given number of members (0, 1, 2, 'many')"""
    n = {0: sp.Integer(0), 1: sp.Integer(1), 2: sp.Integer(2), "many": MPOS + 2, "some": HPOS}[nmemb]
    return {_end(REV): _start(REV) + n, AT(HIST, GEN): n, NSEL: n}


def _nidx(e):
    """index arithmetic normal form: arange(n)[-1] == n - 1, int64(x) == floor(x) for the non-negative x that occur here"""
    e = sp.sympify(e)
    e = e.replace(lambda t: t.func == AT and t.args[0].func == ARANGE and len(t.args[0].args) == 1 and t.args[1].is_Integer,
                  lambda t: (t.args[0].args[0] + t.args[1]) if t.args[1] < 0 else t.args[1])
    e = e.replace(lambda t: t.func == INT and len(t.args) == 1, lambda t: sp.floor(t.args[0]))
    return e


def _eq(a, b):
    if a is None or b is None:
        return a is None and b is None
    try:
        a, b = _nidx(a), _nidx(b)
        return bool(a == b or sp.expand(a - b) == 0 or sp.simplify(a - b) == 0)
    except Exception:
        return False


def _decide(c, scen):
    """truth of a path condition under a scenario; None when it stays symbolic"""
    if c is True or c is False:
        return c
    try:
        r = _nidx(sp.sympify(c)).subs(scen)
        if r not in (sp.true, sp.false):
            r = sp.simplify(r)
    except Exception:
        return None
    if r == sp.true:
        return True
    if r == sp.false:
        return False
    return None


_TYPES_ANY_INTEGER = {"numbers.Integral", "numbers.Rational", "numbers.Real", "numbers.Complex", "numbers.Number"}   # abstract: int and numpy integers
_TYPES_PY_INT = {"int"}
_TYPES_NUMPY_INT = {"numpy.integer", "numpy.number", "numpy.generic"}


def _not_followed(*terms):
    """one of the terms contains a value the evaluator did not follow (symx writes those as symbols OPAQUE...): a comparison with it
    that fails says nothing about the code"""
    for t in terms:
        if isinstance(t, symx.Opaque):
            return True
        if isinstance(t, sp.Basic) and any(str(x).startswith("OPAQUE") for x in t.free_symbols):
            return True
    return False


def _eq3(a, b):
    """True: equal terms; False: both followed and different; None: not equal and one of them was not followed"""
    if _eq(a, b):
        return True
    return None if _not_followed(a, b) else False


def _in_domain(c):
    """truth of a test on the options alone for EVERY option value the property quantifies over (nperbin = 1, 2, 3, ...); None when
    it depends on anything else or on which value of the domain is taken.  A test that is decided this way is not a case the rules
    have to split on: `if nperbin < 1: raise ...`, `if nperbin <= 0 or nperbin != int(nperbin): ...`, `if not nperbin >= 1:` only
    turn away values outside the domain (argument validation), whatever the comparison is spelled like."""
    if c is True or c is False:
        return c
    if not isinstance(c, sp.Basic) or not c.free_symbols or not c.free_symbols <= {NPB}:
        return None
    try:
        return _decide(_nidx(c).subs(NPB, _NPB0 + 1), {})
    except Exception:
        return None


class Undecided(Exception):
    pass


def _resolve(e, scen):
    """value of a term under a scenario: conditional terms are reduced to the arm the scenario selects (only conditions are
    specialised: the member count stays symbolic in the values)"""
    if not isinstance(e, sp.Basic):
        raise Undecided("not a term: %r" % (e,))
    if isinstance(e, sp.Piecewise):
        for v, c in e.args:
            t = _decide(c, scen)
            if t is None:
                raise Undecided("condition %s" % (c,))
            if t:
                return _resolve(v, scen)
        raise Undecided("no arm of %s applies" % (e,))
    if e.args and e.has(sp.Piecewise):
        return e.func(*[_resolve(a, scen) for a in e.args])
    return e


def _implies(cur, c):
    if c == sp.true or c == cur:
        return True
    parts = lambda z: set(z.args) if isinstance(z, sp.And) else {z}
    return parts(sp.sympify(c)) <= parts(sp.sympify(cur))


# ---------------------------------------------------------------------------------------------------------------------------------
# abstract values
# ---------------------------------------------------------------------------------------------------------------------------------
class Arr:
    """an array allocated by the analysed code: initial element value and the element stores made so far, each with its path
    condition and the kind of index (all elements / the generic bin / a mask over the bins / something else)"""

    def __init__(self, init, n=None):
        self.init = init
        self.n = n
        self.stores = []
        self.raw = []             # the stores as made: (path condition, index, value)
        self.tainted = False
        self.open_last = None     # set when the initial value of the LAST bin is not the generic one (text says why)

    def copy(self):
        a = Arr(self.init, self.n)
        a.stores = list(self.stores)
        a.raw = list(self.raw)
        a.tainted = self.tainted
        a.open_last = self.open_last
        return a

    def map(self, fn):
        a = Arr(fn(self.init), self.n)
        a.stores = [(c, k, fn(v)) for c, k, v in self.stores]
        a.raw = [(c, i, fn(v) if isinstance(v, sp.Basic) and _vec_len(v) is None else symx.Opaque("vector arithmetic")) for c, i, v in self.raw]
        a.tainted = self.tainted
        a.open_last = self.open_last
        return a

    def init_survives(self, scen):
        """no store replaces the initial value in this scenario"""
        for c, k, val in self.stores:
            if k == "other":
                raise Undecided("store at an index that is not the generic bin")
            t = _decide(c, scen)
            if t is None:
                raise Undecided("store condition %s" % (c,))
            if t:
                return False
        return True

    def store(self, idx, v, cond, env):
        if isinstance(idx, slice) and idx == slice(None):
            kind = "all"
        elif isinstance(idx, symx.Mask):
            kind = "mask"
            # a mask over the bins, seen from the generic bin: the counts as a whole stand for the generic bin's count
            tmp = sp.Dummy()
            cond = sp.And(cond, idx.cond.subs(AT(HIST, GEN), tmp).subs(HIST, AT(HIST, GEN)).subs(tmp, AT(HIST, GEN)))
        elif isinstance(idx, sp.Basic) and idx == GEN:
            kind = "gen"
        else:
            kind = "other"
        self.raw.append((cond, idx, v))
        self.stores.append((cond, kind, v))

    def read(self, idx, cur):
        if isinstance(idx, sp.Basic) and idx == GEN:
            for c, k, v in reversed(self.stores):
                if k in ("gen", "all") and _implies(cur, c):
                    return v
            if not self.stores:
                return self.init
        return symx.Opaque("array element")

    def start(self):
        """element value before any per-bin store"""
        v = self.init
        for c, k, val in self.stores:
            if k == "all":
                if _decide(c, {}) is not True:
                    raise Undecided("conditional fill")
                v = val
        return v

    def value(self, scen):
        v = self.init
        for c, k, val in self.stores:
            if k == "other":
                raise Undecided("store at an index that is not the generic bin")
            t = _decide(c, scen)
            if t is None:
                raise Undecided("store condition %s" % (c,))
            if t:
                v = val
        return _resolve(v, scen)


class _Buf:
    def __init__(self, sym, n=None):
        self.sym = sym
        self.n = n if n is not None else SIZE(sym)      # number of elements of the original array
        self.cells = {}       # index counted from the end of the original array -> value
        self.other = []
        self.tainted = False


class Vec:
    """an array that exists before the analysed code runs, seen from its end: element -k of the original is AT(sym, -k); a view
    that drops trailing elements shares the buffer, a copy does not"""

    def __init__(self, sym=None, buf=None, drop=0, n=None):
        self.buf = buf if buf is not None else _Buf(sym, n)
        self.drop = drop

    @property
    def tainted(self):
        return self.buf.tainted

    def length(self):
        return self.buf.n - self.drop

    def copy(self):
        b = _Buf(self.buf.sym, self.buf.n)
        b.cells = dict(self.buf.cells)
        b.other = list(self.buf.other)
        b.tainted = self.buf.tainted
        return Vec(buf=b, drop=self.drop)

    def _tail(self, idx):
        """idx as a negative offset from the end of this view, or None"""
        if isinstance(idx, (int, sp.Integer)) and not isinstance(idx, bool):
            return int(idx) if int(idx) < 0 else None
        if isinstance(idx, sp.Basic):
            d = sp.simplify(idx - self.length())
            if d.is_Integer and d < 0:
                return int(d)
        return None

    def read(self, k):
        r = k - self.drop
        return self.buf.cells.get(r, AT(self.buf.sym, r))

    def get(self, idx):
        if isinstance(idx, slice):
            if idx.step is None and (idx.start is None or idx.start == 0):
                if idx.stop is None:
                    return self
                t = self._tail(idx.stop)
                if t is not None:
                    return Vec(buf=self.buf, drop=self.drop - t)
            return symx.Opaque("slice of %s" % self.buf.sym)
        t = self._tail(idx)
        if t is not None:
            return self.read(t)
        return symx.Opaque("element of %s" % self.buf.sym)

    def store(self, idx, v, cond, env):
        t = None if isinstance(idx, slice) else self._tail(idx)
        if t is not None and isinstance(v, sp.Basic):
            r = t - self.drop
            self.buf.cells[r] = v if cond == sp.true else sp.Piecewise((v, cond), (self.buf.cells.get(r, AT(self.buf.sym, r)), True))
        else:
            self.buf.other.append((idx, v, cond))


# ---- vectors with explicit element positions -------------------------------------------------------------------------------------
# (the bin edges of calc_stats and the reverse indices in the last-bin merge: element j of the vector is a term, slices are views that
# share the storage, element / slice stores overlay it; what element j holds is decided by comparing j with the stored regions)
ND = sp.Symbol("NDATA_IN_RANGE", positive=True, integer=True)      # number of data in the index area of the reverse indices
KH = sp.Symbol("kh", integer=True, nonnegative=True)               # a generic position
PA = sp.Symbol("pa", integer=True, nonnegative=True)
GAPV, GAPW = sp.symbols("gapv gapw", integer=True, nonnegative=True)
UNINIT = sp.Symbol("UNINITIALISED")


def _facts_sgn(e, facts):
    """+1: e >= 0 for certain, -1: e < 0 for certain, None: not decided.  facts: ordered substitutions that state what is known
    about the extents and the generic position (symbols with sign assumptions)"""
    try:
        e = _nidx(sp.sympify(e))
        for a, b in facts or ():
            e = e.subs(a, b)
        e = sp.expand(e)
    except Exception:
        return None
    if e.is_nonnegative:
        return 1
    if e.is_negative:
        return -1
    return None


def _vec_len(t):
    """number of elements of a term that stands for a whole vector element by element (it is built from one np.arange(n))"""
    if not isinstance(t, sp.Basic):
        return None
    ars = {a for a in t.atoms(sp.core.function.AppliedUndef) if a.func == ARANGE}
    if len(ars) == 1:
        a = next(iter(ars))
        if len(a.args) == 1 and not t.has(sp.Piecewise):
            return a.args[0]
    return None


class _SBuf:
    def __init__(self, base):
        self.base = base          # (position, facts) -> term: the content before any store
        self.stores = []          # (a, b, source): positions a .. b-1 were overwritten, source(offset from a, facts) -> term
        self.tainted = None


class SV:
    """a vector whose element j is a term.  A slice is a view (same storage, offset, extent); a snapshot (`upto`) sees only the
    stores made before it was taken: the value of an expression at the time it was evaluated."""

    def __init__(self, n, base=None, buf=None, off=0, upto=None):
        self.buf = buf if buf is not None else _SBuf(base)
        self.n = sp.sympify(n)
        self.off = sp.sympify(off)
        self.upto = upto

    def __repr__(self):
        return "SV(n=%s, off=%s, %d stores)" % (self.n, self.off, len(self.buf.stores))

    @property
    def tainted(self):
        return self.buf.tainted

    @tainted.setter
    def tainted(self, v):
        self.buf.tainted = self.buf.tainted or (v if isinstance(v, str) else "statements outside the term domain touch the vector")

    @staticmethod
    def const(n, v):
        return SV(n, base=lambda j, f: v)

    @staticmethod
    def from_term(t, n):
        ar = ARANGE(n)
        return SV(n, base=lambda j, f: t.subs(ar, j))

    def snap(self):
        return SV(self.n, buf=self.buf, off=self.off, upto=len(self.buf.stores) if self.upto is None else self.upto)

    def copy(self):
        s = self.snap()
        return SV(self.n, base=lambda j, f: s.at(j, f))

    def _abs(self, j):
        j = _nidx(sp.sympify(j))
        if j.is_number and j.is_negative:
            j = self.n + j
        return sp.expand(j)

    def _bounds(self, idx):
        if idx.step is not None:
            return None
        return (sp.Integer(0) if idx.start is None else self._abs(idx.start)), (self.n if idx.stop is None else self._abs(idx.stop))

    def view(self, idx):
        b = self._bounds(idx)
        if b is None:
            return symx.Opaque("strided slice of a vector")
        return SV(sp.expand(b[1] - b[0]), buf=self.buf, off=sp.expand(self.off + b[0]), upto=self.upto)

    def at(self, j, facts):
        """the term element j holds (negative numbers count from the end)"""
        if self.buf.tainted:
            raise Undecided(self.buf.tainted)
        j = sp.expand(self.off + self._abs(j))
        stores = self.buf.stores if self.upto is None else self.buf.stores[:self.upto]
        for a, b, src in reversed(stores):
            lo, hi = _facts_sgn(j - a, facts), _facts_sgn(b - 1 - j, facts)
            if lo == 1 and hi == 1:
                return src(sp.expand(j - a), facts)
            if lo == -1 or hi == -1:
                continue
            raise Undecided("whether element %s lies in the stored region %s:%s" % (j, a, b))
        return self.buf.base(j, facts)

    @staticmethod
    def source(v):
        """(source function, number of elements or None for a scalar) of a value that is stored / combined"""
        if isinstance(v, SV):
            s = v.snap()
            return (lambda d, f: s.at(d, f)), s.n
        if isinstance(v, (int, float)) and not isinstance(v, bool):
            v = sp.sympify(v)
        if isinstance(v, sp.Basic) and symx._is_expr(v):
            n = _vec_len(v)
            if n is not None:
                s = SV.from_term(v, n)
                return (lambda d, f: s.at(d, f)), n
            if not v.has(ARANGE):
                return (lambda d, f: v), None

        def unknown(d, f):
            raise Undecided("a value the analysis does not follow was stored (%r)" % (v,))
        return unknown, None

    def store(self, idx, v, cond, env):
        facts = env.bs.vfacts
        if self.upto is not None:
            self.tainted = "store into a value"
            return
        if cond != sp.true:
            c = cond
            try:
                for a, b in facts or ():
                    c = c.subs(a, b)
            except Exception:
                pass
            if _decide(c, {}) is not True:
                self.tainted = "store under the condition %s, which the analysis does not decide" % (cond,)
                return
        src, n = self.source(v)
        if isinstance(idx, slice):
            b = self._bounds(idx)
            if b is None:
                self.tainted = "store into a strided slice"
                return
            if n is not None and not _eq(sp.expand(b[1] - b[0]), n):
                self.tainted = "%s elements are stored into %s places" % (n, sp.expand(b[1] - b[0]))
                return
            self.buf.stores.append((sp.expand(self.off + b[0]), sp.expand(self.off + b[1]), src))
        elif symx._is_expr(idx):
            if isinstance(idx, sp.Basic) and idx == GEN:
                # one store per iteration of the loop over the bins: element k gets the value with the loop variable at k
                if n is not None or not isinstance(v, sp.Basic):
                    self.tainted = "a vector stored per bin"
                    return
                self.buf.stores.append((self.off, sp.expand(self.off + self.n), lambda d, f: _at_norm(v).subs(GEN, d)))
                return
            if n is not None:
                self.tainted = "a vector stored into one element"
                return
            a = sp.expand(self.off + self._abs(idx))
            self.buf.stores.append((a, a + 1, src))
        else:
            self.tainted = "store at an index the analysis does not follow (%r)" % (idx,)


def _at_norm(e):
    """element c of a term that stands for a vector element by element is the term at position c"""
    def pick(t):
        n = _vec_len(t.args[0])
        c = t.args[1]
        if c.is_number and c.is_negative:
            c = n + c
        return t.args[0].subs(ARANGE(n), c)
    return e.replace(lambda t: t.func == AT and len(t.args) == 2 and _vec_len(t.args[0]) is not None and not t.args[0].func == ARANGE, pick)


def _sv_delete(x, idx):
    """numpy.delete(x, idx) for one position: the elements in front stay, those behind move down by one"""
    s = x.snap()
    a = s._abs(idx)

    def base(j, f):
        if _facts_sgn(a - 1 - j, f) == 1:
            return s.at(j, f)
        if _facts_sgn(j - a, f) == 1:
            return s.at(j + 1, f)
        raise Undecided("whether element %s lies in front of the deleted position %s" % (j, a))
    return SV(sp.expand(s.n - 1), base=base)


def _sv_concat(pieces):
    """numpy.concatenate / append of vectors, sequences of scalars and (for append) a scalar"""
    parts, start = [], sp.Integer(0)
    for p in pieces:
        if isinstance(p, (list, tuple)):
            if not all(symx._is_expr(x) and _vec_len(sp.sympify(x)) is None for x in p):
                return None
            seq = [sp.sympify(x) for x in p]
            src, n = (lambda d, f, seq=seq: seq[int(d)] if sp.sympify(d).is_Integer and 0 <= int(d) < len(seq) else _undecided("element %s of a sequence" % d)), sp.Integer(len(seq))
        else:
            src, n = SV.source(p)
            if n is None:
                if not (isinstance(p, sp.Basic) and symx._is_expr(p)):
                    return None
                n = sp.Integer(1)
        parts.append((start, sp.expand(start + n), src))
        start = sp.expand(start + n)

    def base(j, f):
        for a, b, src in parts:
            lo, hi = _facts_sgn(j - a, f), _facts_sgn(b - 1 - j, f)
            if lo == 1 and hi == 1:
                return src(sp.expand(j - a), f)
            if lo == -1 or hi == -1:
                continue
            raise Undecided("which piece of the concatenation holds element %s" % (j,))
        raise Undecided("element %s lies behind the concatenation" % (j,))
    return SV(start, base=base)


def _undecided(msg):
    raise Undecided(msg)


class RevObj:
    """the engine's reverse indices: offsets rev[0..nbin] followed by the index area holding the members bin by bin.
    `area` is the content of the index area as a term in POS (the value the engine put there)"""

    def __init__(self, sym, nbin=None):
        self.sym = sym
        self.nbin = nbin
        self.area = POS
        self.stores = []
        self.other = []
        self.bad_sel = []
        self.sels = 0
        self.tainted = False
        self.escaped = False    # handed to a callee the analysis does not follow

    def _mentions_offsets(self, *xs):
        return any(isinstance(x, sp.Basic) and (x.has(_start(self.sym)) or x.has(_end(self.sym))) for x in xs)

    def _slice_kind(self, idx):
        lo, hi, st = idx.start, idx.stop, idx.step
        if st is not None:
            return None
        if _eq(lo, _start(self.sym)) and _eq(hi, _end(self.sym)):
            return "members"
        if self.nbin is not None:
            if _eq(lo, self.nbin + 1) and hi is None:
                return "area"
            if (lo is None or _eq(lo, 0)) and _eq(hi, self.nbin):
                return "starts"
            if _eq(lo, 1) and _eq(hi, self.nbin + 1):
                return "ends"
        return None

    def get(self, idx):
        if self.area is None:
            return symx.Opaque("reverse indices")
        if isinstance(idx, slice):
            k = self._slice_kind(idx)
            if k == "members":
                self.sels += 1
                return self.area.subs(POS, MEMBERS)
            if k == "area":
                return self.area.subs(POS, AREA)
            if k == "starts":
                return _start(self.sym)
            if k == "ends":
                return _end(self.sym)
            if self._mentions_offsets(idx.start, idx.stop):
                self.bad_sel.append("%s:%s" % (idx.start, idx.stop))
            return symx.Opaque("slice of the reverse indices")
        if isinstance(idx, sp.Basic):
            if idx == GEN:
                return _start(self.sym)
            if idx == GEN + 1:
                return _end(self.sym)
            if idx == _start(self.sym):
                return self.area.subs(POS, FIRST)
            if _eq(idx, _end(self.sym) - 1):
                return self.area.subs(POS, LAST)
            if self._mentions_offsets(idx):
                # some other place relative to the bin's offsets (one past the last member, the second member ...)
                return self.area.subs(POS, MEMBER_AT(idx))
        return symx.Opaque("element of the reverse indices")

    def store(self, idx, v, cond, env):
        k = self._slice_kind(idx) if isinstance(idx, slice) else None
        mark = {"members": MEMBERS, "area": AREA}.get(k)
        if mark is not None and isinstance(v, sp.Basic) and v.has(mark) and not v.has(POS):
            self.area = v.subs(mark, POS)
            self.stores.append((cond, k))
        elif mark is not None:
            self.area = None
            self.stores.append((cond, k))
        else:
            self.other.append((idx, v, cond))


class SelfDict(dict):
    """the Binner object as a dictionary; stores made by the analysed code are logged with their path condition"""

    def __init__(self, *a):
        dict.__init__(self, *a)
        self.log = []
        self.tainted = False

    def store(self, idx, v, cond, env):
        dict.__setitem__(self, idx, v)
        self.log.append((idx, v, cond))


class State:
    def __init__(self, member_map=None, intercept=None):
        self.member_map = member_map or {}
        self.intercept = intercept or {}
        self.loops = []          # (number of iterations, path condition, statement) of generic loops
        self.gen_active = False
        self.skipped = []
        self.do_hist = []
        self.merges = []
        self.area_rev = None     # the reverse-index object whose index area was last selected as a whole
        self.reordered = []      # (where, text) of the library calls that permuted a buffer in place
        self.scen = None         # direct form: ordered substitution that decides the tests of the analysed function (one case of a case split)
        self.snaps = {}          # direct form: symbol -> frozen vector it stands for (a vector with element stores, by content)
        self._snapkeys = {}
        self.bincounts = []      # direct form: the countings of bin numbers found
        self.vfacts = None       # not None: vectors with explicit element positions are followed (SV); what is known about their extents

    def snapshot(self, dv):
        """the symbol that stands for the present content of a vector over the bins (equal content, equal symbol)"""
        k = _dvkey(dv)
        if k not in self._snapkeys:
            sym = sp.Symbol("V%d" % (len(self._snapkeys) + 1))
            self._snapkeys[k] = sym
            self.snaps[sym] = dv.freeze()
        return self._snapkeys[k]


def _taint(v, seen=None):
    seen = seen if seen is not None else set()
    if id(v) in seen:
        return
    seen.add(id(v))
    if isinstance(v, Vec):
        v.buf.tainted = True
    elif isinstance(v, (Arr, RevObj, DV, SV)):
        v.tainted = True
    elif isinstance(v, dict):
        if isinstance(v, SelfDict):
            v.tainted = True
        for x in v.values():
            _taint(x, seen)
    elif isinstance(v, (list, tuple)):
        for x in v:
            _taint(x, seen)


class NTType:
    """a record type made by collections.namedtuple at module level: its field names in order"""

    def __init__(self, name, fields):
        self.name = name
        self.fields = tuple(fields)

    def __repr__(self):
        return "NTType(%s%r)" % (self.name, self.fields)

    def make(self, vals):
        return NTup(self, vals)


class NTup(tuple):
    """an instance of such a record: a tuple whose elements can also be read by field name"""

    def __new__(cls, typ, vals):
        t = tuple.__new__(cls, vals)
        t.typ = typ
        t.fields = typ.fields
        return t


def _has_yield(fn):
    """the function is a generator; 'from': it delegates to another one (not followed)"""
    from vcheck.core import walk_no_nested
    kinds = {type(x) for st in fn.body for x in walk_no_nested(st) if isinstance(x, (ast.Yield, ast.YieldFrom))}
    return "from" if ast.YieldFrom in kinds else bool(kinds)


def _terminates(block):
    if not block:
        return False
    last = block[-1]
    if isinstance(last, (ast.Return, ast.Raise, ast.Continue)):
        return True
    if isinstance(last, ast.If):
        return _terminates(last.body) and _terminates(last.orelse)
    return False


def _is_selection(t):
    return isinstance(t, sp.Basic) and (t == MEMBERS or (t.func == AT and len(t.args) == 2 and _is_selection(t.args[1])))


# ---------------------------------------------------------------------------------------------------------------------------------
# the evaluator: vcheck.symx's term interpreter extended with arrays as guarded stores, one generic loop iteration, guard clauses
# (early return / continue) folded into path conditions, and the reverse-index object
# ---------------------------------------------------------------------------------------------------------------------------------
class BEnv(symx.Env):
    def __init__(self, se, fi, mod, vars_, flags, depth=0):
        symx.Env.__init__(self, se, fi, mod, vars_, flags, depth=depth)
        self.cur = sp.true
        self.on_yield = None     # set while the function is run as the generator a loop of its caller iterates over

    @property
    def bs(self):
        return self.se.bs

    # ---- tests ----------------------------------------------------------------------------------------------------------------
    def _option_type_test(self, t):
        """`isinstance(E, T)` where E is an option of the property's domain (the integer nperbin, possibly coerced with int()): True
        when T admits every integer the caller can pass (Python int AND numpy integers); None otherwise (not decided here)"""
        if not (isinstance(t, ast.Call) and isinstance(t.func, ast.Name) and t.func.id == "isinstance" and "isinstance" not in self.vars
                and len(t.args) == 2 and not t.keywords):
            return None
        try:
            v = self.ev(t.args[0])
        except symx.Unsupported:
            return None
        if not (isinstance(v, sp.Basic) and _nidx(v) == NPB):
            return None
        names = set()
        for x in (t.args[1].elts if isinstance(t.args[1], ast.Tuple) else [t.args[1]]):
            d = dotted_name(x)
            if not d or d.split(".")[0] in self.vars:
                return None
            names.add(self.se.repo.resolve_name(self.mod, d))
        if names & _TYPES_ANY_INTEGER or (names & _TYPES_PY_INT and names & _TYPES_NUMPY_INT):
            return True
        return None

    def truth(self, t):
        """a test that has one truth value over the whole domain of the options is that truth value (see _in_domain)"""
        r = self._option_type_test(t)
        if r is not None:
            return r
        r = symx.Env.truth(self, t)
        if isinstance(r, sp.Basic) and r not in (sp.true, sp.false):
            d = _in_domain(r)
            if d is not None:
                return d
        return r

    # ---- statements -----------------------------------------------------------------------------------------------------------
    def exec_body(self, stmts, cond):
        rets = []
        stmts = list(stmts)
        for k, st in enumerate(stmts):
            if isinstance(st, ast.If) and k + 1 < len(stmts):
                tb, te = _terminates(st.body), _terminates(st.orelse)
                if tb != te:
                    # guard clause: one arm always leaves, so the rest of the block belongs to the other arm
                    rest = stmts[k + 1:]
                    new = ast.If(test=st.test, body=st.body + (rest if te else []), orelse=st.orelse + (rest if tb else []))
                    ast.copy_location(new, st)
                    rets += self.exec_stmt(new, cond) or []
                    return rets
            r = self.exec_stmt(st, cond)
            if r:
                rets += r
                if any(c == cond or c == sp.true for c, _ in r):
                    break
        return rets

    def exec_stmt(self, st, cond):
        self.cur = cond
        if isinstance(st, ast.Continue):
            return [(cond, _CONT)]
        try:
            if isinstance(st, ast.Expr) and isinstance(st.value, ast.Yield) and self.on_yield is not None:
                # the generator hands a value to the loop that iterates over it: the loop body runs here, under this path condition
                self.on_yield(self.ev(st.value.value) if st.value.value is not None else None, cond)
                self.cur = cond
                return []
            return symx.Env.exec_stmt(self, st, cond)
        except symx.Unsupported as e:
            self._skip(st, e)
            return []

    def _skip(self, st, e):
        """a statement outside the term domain: what it assigns is unknown, the arrays it mentions can no longer be judged"""
        self.bs.skipped.append((self.where(st), str(e)))
        for x in ast.walk(st):
            if isinstance(x, ast.Name):
                if x.id in self.vars:
                    _taint(self.vars[x.id])
                if isinstance(x.ctx, ast.Store):
                    self.vars[x.id] = symx.Opaque("not evaluated")

    def exec_for(self, st, cond):
        n = self._generic_range(st.iter)
        if n is not None:
            if self.bs.gen_active or not isinstance(st.target, ast.Name):
                raise symx.Unsupported("C14: nested loops over bins at %s" % self.where(st))
            self.bs.gen_active = True
            self.bs.loops.append((_nidx(n), cond, st))
            try:
                self.vars[st.target.id] = GEN
                rs = self.exec_body(st.body, cond)
            finally:
                self.bs.gen_active = False
            return [(c, v) for c, v in rs if v is not _CONT]
        g = self._generator_callee(st.iter)
        if g is not None:
            return self._for_over_generator(st, cond, *g)
        it = self.ev(st.iter)
        if isinstance(it, dict):
            it = list(it.keys())
        if isinstance(it, (list, tuple)) and len(it) <= 64:
            rets = []
            for v in list(it):
                self.assign(st.target, v, st)
                rets += [(c, x) for c, x in self.exec_body(st.body, cond) if x is not _CONT]
            return rets
        raise symx.Unsupported("C14: loop over `%s` at %s" % (norm(st.iter), self.where(st)))

    def _generator_callee(self, it):
        """(FuncInfo, is a method of the object) when the iterable is a call of a generator function of the package"""
        if not isinstance(it, ast.Call):
            return None
        d = dotted_name(it.func)
        if not d or self.depth >= self.se.inline_depth:
            return None
        repo = self.se.repo
        full = repo.resolve_name(self.mod, d)
        tgt, method = None, False
        if d.split(".")[0] in self.vars and not d.startswith("self."):
            return None
        if repo.has(full) and full not in self.se.opaque:
            tgt = repo.func(full)
        elif d.startswith("self.") and d.count(".") == 1 and self.fi is not None and self.fi.cls and d[5:] not in self.bs.intercept:
            cand = "%s.%s.%s" % (self.fi.module.name, self.fi.cls, d[5:])
            if repo.has(cand) and cand not in self.se.opaque:
                tgt, method = repo.func(cand), True
        if tgt is None or _has_yield(tgt.node) is not True:
            return None
        return tgt, method

    def _bind_call(self, c, tgt, method):
        """the callee's environment for a call followed with this evaluator"""
        static = any(isinstance(x, ast.Name) and x.id == "staticmethod" for x in tgt.node.decorator_list)
        params = [p for p in tgt.params if not p.startswith("*")][1 if (method and not static) else 0:]
        vals = []
        for a in c.args:
            if isinstance(a, ast.Starred):
                v = self.ev(a.value)
                if not isinstance(v, (list, tuple)):
                    raise symx.Unsupported("C14: *%s at %s" % (norm(a.value), self.where(c)))
                vals += list(v)
            else:
                vals.append(self.ev(a))
        bind = dict(zip(params, vals))
        for k in c.keywords:
            if k.arg:
                bind[k.arg] = self.ev(k.value)
        if method:
            for k2, v2 in self.vars.items():
                if k2 == "self" or k2.startswith("self."):
                    bind[k2] = v2
        env = type(self)(self.se, tgt, tgt.module, dict(bind), {}, depth=self.depth + 1)
        for p in tgt.params:
            pn = p.lstrip("*")
            if pn not in env.vars and pn in tgt.defaults:
                env.vars[pn] = env.ev(tgt.defaults[pn])
        return env

    def _for_over_generator(self, st, cond, tgt, method):
        """`for T in gen(args): BODY` is gen's body with every `yield e` replaced by `T = e; BODY`: the generator is run with this
        evaluator and each yield runs the loop body under the path condition the yield stands under (one generic bin when the
        generator loops over the bins).  A value the body rebinds is not known after the loop."""
        env = self._bind_call(st.iter, tgt, method)
        before = dict(self.vars)
        rets = []

        def on_yield(v, c):
            self.assign(st.target, v, st)
            rets.extend((cc, x) for cc, x in self.exec_body(st.body, c) if x is not _CONT)

        env.on_yield = on_yield
        env.exec_body(tgt.node.body, cond)
        if method:
            for k2, v2 in env.vars.items():
                if k2.startswith("self."):
                    self.vars[k2] = v2
        for x in [st.target] + list(st.body):
            for n in ast.walk(x):
                if isinstance(n, ast.Name) and isinstance(n.ctx, ast.Store) and n.id in self.vars and self.vars[n.id] is not before.get(n.id):
                    self.vars[n.id] = symx.Opaque("assigned in a loop over a generator")
        if st.orelse:
            rets += self.exec_body(st.orelse, cond)
        self.cur = cond
        return rets

    # ---- records (collections.namedtuple) ----------------------------------------------------------------------------------------
    def _namedtuple_type(self, e):
        """the record type a name stands for: a module-level `T = namedtuple('T', fields)` of the package"""
        d = dotted_name(e)
        if not d or d.split(".")[0] in self.vars or d.split(".")[0] in self.pins:
            return None
        repo = self.se.repo
        mod, name = self.mod, d
        if "." in d or d not in mod.consts:
            full = repo.resolve_name(self.mod, d)
            mname, _, name = full.rpartition(".")
            mod = repo.modules.get(mname)
            if mod is None or name not in mod.consts:
                return None
        cache = self.se.__dict__.setdefault("_ntcache", {})
        key = (mod.name, name)
        if key not in cache:
            cache[key] = self._parse_namedtuple(mod, mod.consts[name])
        return cache[key]

    def _parse_namedtuple(self, mod, val):
        if not isinstance(val, ast.Call):
            return None
        dn = dotted_name(val.func)
        if not dn or self.se.repo.resolve_name(mod, dn) != "collections.namedtuple":
            return None
        if any(k.arg not in ("typename", "field_names") for k in val.keywords):
            return None          # rename= / defaults= / module=: not modelled
        tn = val.args[0] if val.args else kwarg(val, "typename")
        fn = val.args[1] if len(val.args) > 1 else kwarg(val, "field_names")
        if len(val.args) > 2 or not isinstance(tn, ast.Constant) or fn is None:
            return None
        if isinstance(fn, ast.Constant) and isinstance(fn.value, str):
            fields = fn.value.replace(",", " ").split()
        elif isinstance(fn, (ast.List, ast.Tuple)) and all(isinstance(x, ast.Constant) and isinstance(x.value, str) for x in fn.elts):
            fields = [x.value for x in fn.elts]
        else:
            return None
        if not fields or len(set(fields)) != len(fields) or not all(f.isidentifier() and not f.startswith("_") for f in fields):
            return None
        return NTType(str(tn.value), fields)

    def _record_call(self, c):
        """construction of a record T(...), T._make(seq), and the methods rec._asdict() / rec._replace(...); NotImplemented when
        the call is none of these"""
        f = c.func
        typ = self._namedtuple_type(f) if isinstance(f, (ast.Name, ast.Attribute)) else None
        if typ is not None:
            vals = []
            for a in c.args:
                if isinstance(a, ast.Starred):
                    v = self.ev(a.value)
                    if not isinstance(v, (list, tuple)):
                        raise symx.Unsupported("C14: *%s at %s" % (norm(a.value), self.where(c)))
                    vals += list(v)
                else:
                    vals.append(self.ev(a))
            kws = {k.arg: self.ev(k.value) for k in c.keywords if k.arg}
            if any(k.arg is None for k in c.keywords) or len(vals) > len(typ.fields) or any(k not in typ.fields[len(vals):] for k in kws) \
                    or len(vals) + len(kws) != len(typ.fields):
                raise symx.Unsupported("C14: construction of the record %s at %s" % (typ.name, self.where(c)))
            return typ.make(vals + [kws[k] for k in typ.fields[len(vals):]])
        if isinstance(f, ast.Attribute) and f.attr in ("_make", "_asdict", "_replace"):
            if f.attr == "_make":
                typ = self._namedtuple_type(f.value) if isinstance(f.value, (ast.Name, ast.Attribute)) else None
                if typ is not None and len(c.args) == 1 and not c.keywords:
                    v = self.ev(c.args[0])
                    if isinstance(v, (list, tuple)) and len(v) == len(typ.fields):
                        return typ.make(list(v))
                    raise symx.Unsupported("C14: %s._make at %s" % (typ.name, self.where(c)))
                return NotImplemented
            rec = self.vars.get(f.value.id) if isinstance(f.value, ast.Name) else None
            if isinstance(rec, NTup):
                if f.attr == "_asdict" and not c.args and not c.keywords:
                    return dict(zip(rec.fields, rec))
                if f.attr == "_replace" and not c.args and all(k.arg in rec.fields for k in c.keywords):
                    kws = {k.arg: self.ev(k.value) for k in c.keywords}
                    return rec.typ.make([kws.get(n, v) for n, v in zip(rec.fields, rec)])
                raise symx.Unsupported("C14: %s of a record at %s" % (f.attr, self.where(c)))
        return NotImplemented

    def _generic_range(self, it):
        if isinstance(it, ast.Call) and isinstance(it.func, ast.Name) and it.func.id == "range" and not it.keywords and 1 <= len(it.args) <= 2:
            args = [self.ev(a) for a in it.args]
            if len(args) == 2 and not (symx._is_expr(args[0]) and sp.sympify(args[0]) == 0):
                return None
            n = args[-1]
            if symx._is_expr(n) and not sp.sympify(n).is_number:
                return sp.sympify(n)
        return None

    # ---- stores ---------------------------------------------------------------------------------------------------------------
    def assign(self, t, v, st):
        if isinstance(t, ast.Subscript):
            base = self.ev(t.value)
            if isinstance(base, (Arr, Vec, RevObj, SelfDict, DV, SV)):
                base.store(self.ev_index(t.slice), v, self.cur, self)
                return
            if self.bs.vfacts is not None and isinstance(base, sp.Basic) and _vec_len(base) is not None and isinstance(t.value, ast.Name) \
                    and self.ev_index(t.slice) != slice(None):
                # a store into part of a vector that was a whole-vector term so far: from here on it has explicit positions
                sv = SV.from_term(base, _vec_len(base))
                self.vars[t.value.id] = sv
                sv.store(self.ev_index(t.slice), v, self.cur, self)
                return
        symx.Env.assign(self, t, v, st)

    # ---- expressions ----------------------------------------------------------------------------------------------------------
    def _count(self, b):
        """number of elements of a value, where the domain knows it"""
        if isinstance(b, Vec):
            return b.length()
        if isinstance(b, Arr):
            return b.n
        if isinstance(b, SV):
            return b.n
        if isinstance(b, DV):
            return b.n if b.sel is None else None
        if isinstance(b, sp.Basic):
            if b == MEMBERS or b in self.bs.member_map.values() or _is_selection(b):
                return NSEL
            if isinstance(b, sp.Symbol):
                return SIZE(b)
            if b.func == ARANGE and len(b.args) == 1:
                return b.args[0]
        return None

    def ev(self, e, stmt_level=False):
        if isinstance(e, ast.Attribute) and e.attr == "size":
            n = self._count(self.ev(e.value))
            if n is not None:
                return n
        if isinstance(e, ast.Attribute) and isinstance(e.value, ast.Name) and isinstance(self.vars.get(e.value.id), NTup) and norm(e) not in self.vars:
            rec = self.vars[e.value.id]
            if e.attr in rec.fields:
                return rec[rec.fields.index(e.attr)]
            if e.attr == "_fields":
                return rec.fields
        if isinstance(e, ast.Attribute) and e.attr == "_fields" and isinstance(e.value, (ast.Name, ast.Attribute)):
            typ = self._namedtuple_type(e.value)
            if typ is not None:
                return typ.fields
        if isinstance(e, ast.Name) and e.id not in self.vars and e.id not in self.pins and e.id not in self.flags and e.id in self.mod.consts:
            typ = self._namedtuple_type(e)
            if typ is not None:
                return typ
        r = symx.Env.ev(self, e, stmt_level)
        if isinstance(r, sp.Basic) and r.func == INT and len(r.args) == 1 and r.args[0].is_integer:
            return r.args[0]         # int(k) / np.int64(k) of an integer k (the option nperbin, a size, a count) is k
        return r

    def subscript(self, base, idx, e):
        if isinstance(base, RevObj):
            r = base.get(idx)
            if isinstance(r, sp.Basic) and r.has(AREA):
                self.bs.area_rev = base
            return r
        if isinstance(base, Arr):
            return base.read(idx, self.cur)
        if isinstance(base, Vec):
            return base.get(idx)
        if isinstance(base, SV):
            if isinstance(idx, slice):
                return base.view(idx)
            if symx._is_expr(idx):
                try:
                    return base.at(idx, self.bs.vfacts)
                except Undecided as ex:
                    return symx.Opaque(str(ex))
            return symx.Opaque("elements of a vector")
        if self.bs.vfacts is not None and isinstance(idx, slice) and idx.step is None and idx != slice(None) and isinstance(base, sp.Basic) \
                and _vec_len(base) is not None:
            # part of a vector given element by element (built from np.arange(n)): the elements at the selected positions
            return SV.from_term(base, _vec_len(base)).view(idx)
        if self.bs.vfacts is not None and symx._is_expr(idx) and isinstance(base, sp.Basic) and _vec_len(base) is not None \
                and not sp.sympify(idx).has(ARANGE):
            # one element of such a vector: the term at that position
            n = _vec_len(base)
            j = _nidx(sp.sympify(idx))
            return base.subs(ARANGE(n), (n + j) if (j.is_number and j.is_negative) else j)
        if isinstance(base, sp.Basic) and isinstance(idx, sp.Basic):
            mm = self.bs.member_map
            if base in mm:
                if idx == MEMBERS:
                    return mm[base]
                if idx == FIRST:
                    return MEMBER(mm[base], 0)
                if idx == LAST:
                    return MEMBER(mm[base], -1)
            if idx.is_Integer and int(idx) in (0, -1):
                if base in mm.values():
                    return MEMBER(base, idx)
                if _is_selection(base):
                    return base.subs(MEMBERS, FIRST if idx == 0 else LAST)
        return symx.Env.subscript(self, base, idx, e)

    def _sv_binop(self, op, a, b, node):
        (fa, na), (fb, nb) = SV.source(a), SV.source(b)
        if na is not None and nb is not None and not _eq(na, nb):
            return symx.Opaque("vectors of different extent")
        for x, nx in ((a, na), (b, nb)):
            if nx is None and not (symx._is_expr(x) and not sp.sympify(x).has(ARANGE)):
                return symx.Opaque("vector arithmetic")
        return SV(na if na is not None else nb, base=lambda j, f: symx.Env.binop(self, op, fa(j, f), fb(j, f), node))

    def binop(self, op, a, b, node):
        if isinstance(a, SV) or isinstance(b, SV):
            return self._sv_binop(op, a, b, node)
        if isinstance(a, Arr) and symx._is_expr(b):
            return a.map(lambda x: symx.Env.binop(self, op, x, b, node))
        if isinstance(b, Arr) and symx._is_expr(a):
            return b.map(lambda x: symx.Env.binop(self, op, a, x, node))
        return symx.Env.binop(self, op, a, b, node)

    def _reduceat(self, c, full):
        """numpy's ufunc.reduceat(a, indices) with the bins' offsets into the reverse indices as segment starts: element i of the
        result is ufunc.reduce(a[indices[i]:indices[i+1]]) when indices[i] < indices[i+1], and the single element a[indices[i]]
        otherwise (numpy's documented rule for an empty segment: NOT the identity of the ufunc).  Recognised when `a` is a vector
        over the whole index area (optionally with elements appended behind it) and `indices` are the offsets rev[0:nbin] counted
        from the beginning of the index area; anything else is not followed."""
        notfollowed = symx.Opaque(full)
        ufunc = full.split(".")[-2]
        a = c.args[0] if c.args else kwarg(c, "array")
        ix = c.args[1] if len(c.args) > 1 else kwarg(c, "indices")
        if a is None or ix is None or len(c.args) > 2 or any(k.arg not in ("array", "indices") for k in c.keywords):
            return notfollowed
        a, ix = self.ev(a), self.ev(ix)
        rv = self.bs.area_rev
        while isinstance(a, sp.Basic) and a.func == APPEND:
            a = a.args[0]
        if not (isinstance(a, sp.Basic) and a.has(AREA) and isinstance(ix, sp.Basic) and isinstance(rv, RevObj) and rv.nbin is not None):
            return notfollowed
        if a.has(GEN) or not _eq(ix + rv.nbin + 1, _start(rv.sym)):
            return notfollowed
        mm = self.bs.member_map
        sel = a.subs(AREA, MEMBERS).replace(lambda t: t.func == AT and len(t.args) == 2 and t.args[1] == MEMBERS and t.args[0] in mm,
                                             lambda t: mm[t.args[0]])
        if sel.has(MEMBERS):
            return notfollowed
        red = F[UFUNC_REDUCE[ufunc]] if ufunc in UFUNC_REDUCE else sp.Function("REDUCE_" + ufunc.upper())
        at_offset = a.subs(AREA, MEMBER_AT(_start(rv.sym)))      # what the index area holds at the bin's offset: not a member of the bin
        rv.sels += 1
        r = Arr(sp.Piecewise((red(sel), sp.Ne(_start(rv.sym), _end(rv.sym))), (at_offset, True)), rv.nbin)
        # the index area holds every datum handed to the engine, also those behind the last bin that the histogram did not count
        r.open_last = ("%s runs its last segment to the end of its operand: the last bin also takes in whatever the index area holds behind "
                       "its members (data the histogram did not count)" % full.replace("numpy.", "np."))
        return r

    def _sv_call(self, c, nm):
        """numpy constructors of vectors with explicit positions: *_like of a vector, delete of one position, append / concatenate"""
        def isvec(v):
            return isinstance(v, SV) or (isinstance(v, sp.Basic) and _vec_len(v) is not None)
        if nm in ("empty_like", "zeros_like", "ones_like", "full_like") and c.args:
            x = self.ev(c.args[0])
            if isvec(x):
                if nm == "full_like":
                    fv = c.args[1] if len(c.args) > 1 else kwarg(c, "fill_value")
                    init = self.ev(fv) if fv is not None else None
                else:
                    init = {"zeros_like": sp.Integer(0), "ones_like": sp.Integer(1), "empty_like": UNINIT}[nm]
                if symx._is_expr(init) and not sp.sympify(init).has(ARANGE):
                    return SV.const(x.n if isinstance(x, SV) else _vec_len(x), sp.sympify(init))
            return None
        if nm == "delete" and len(c.args) == 2 and not c.keywords:
            x, i = self.ev(c.args[0]), self.ev(c.args[1])
            if isinstance(x, SV) and symx._is_expr(i) and not sp.sympify(i).has(ARANGE):
                return _sv_delete(x, i)
            return None
        if nm == "append" and len(c.args) == 2 and not c.keywords:
            x, v = self.ev(c.args[0]), self.ev(c.args[1])
            if isvec(x):
                return _sv_concat([x, v]) or symx.Opaque("numpy.append")
            return None
        if nm in ("concatenate", "hstack") and len(c.args) == 1 and not c.keywords and isinstance(c.args[0], (ast.Tuple, ast.List)):
            ps = [self.ev(e) for e in c.args[0].elts]
            if any(isvec(p) for p in ps) and all(isvec(p) or isinstance(p, (list, tuple)) for p in ps):
                return _sv_concat(ps) or symx.Opaque("numpy." + nm)
        return None

    # ---- library calls that reorder a buffer in place ---------------------------------------------------------------------------
    def _aliases(self, name):
        """the local names that may be bound to the same object as `name`: joined by plain assignments `a = b` in this function and
        holding the same term at this moment"""
        grp = {name}
        node = getattr(self.fi, "node", None)
        pairs = [(x.targets[0].id, x.value.id) for x in (ast.walk(node) if node is not None else ())
                 if isinstance(x, ast.Assign) and len(x.targets) == 1 and isinstance(x.targets[0], ast.Name) and isinstance(x.value, ast.Name)]
        changed = True
        while changed:
            changed = False
            for a, b in pairs:
                if (a in grp) != (b in grp):
                    grp |= {a, b}
                    changed = True
        cur = self.vars.get(name)
        return [n for n in grp if n == name or (n in self.vars and symx._same(self.vars[n], cur))]

    def _reordered_buffer(self, c, nm, full):
        """the expression whose storage the library call `c` may permute in place (numpy's documented behaviour), or None:
        numpy.median / percentile / quantile (and the nan* forms) with overwrite_input not literally False, ndarray.sort / partition,
        numpy.random.shuffle"""
        f = c.func
        if full.startswith("numpy.") and nm in _OVERWRITING and c.args:
            ow = kwarg(c, "overwrite_input")
            if ow is not None and not (isinstance(ow, ast.Constant) and not ow.value):
                return c.args[0]
        if full.startswith("numpy.") and nm == "shuffle" and len(c.args) == 1:
            return c.args[0]
        if isinstance(f, ast.Attribute) and nm in ("sort", "partition") and not full.startswith("numpy.") and isinstance(f.value, (ast.Name, ast.Attribute)):
            try:
                v = self.ev(f.value)
            except symx.Unsupported:
                return None
            if isinstance(v, sp.Basic) and not isinstance(v, symx.Opaque):
                return f.value
        return None

    def _mark_reordered(self, buf, c):
        """after the call the buffer holds its elements in another order: every name bound to it stands for a permutation of what it
        stood for (a temporary, e.g. the copy made by a fancy-index expression, is not seen again)"""
        key = buf.id if isinstance(buf, ast.Name) else norm(buf) if isinstance(buf, ast.Attribute) else None
        if key is None or key not in self.vars:
            return
        for n in (self._aliases(key) if isinstance(buf, ast.Name) else [key]):
            v = self.vars.get(n)
            if isinstance(v, sp.Basic) and not isinstance(v, symx.Opaque) and v.func != REORDERED:
                self.vars[n] = REORDERED(v)
                self.bs.reordered.append((self.where(c), "%s reorders %s in place" % (_src(c), n)))

    def call(self, c, stmt_level=False):
        nm = call_name(c)
        d = dotted_name(c.func)
        full = self.se.repo.resolve_name(self.mod, d) if d else ""
        buf = self._reordered_buffer(c, nm, full)
        if buf is not None and isinstance(c.func, ast.Attribute) and nm in ("sort", "partition") and not full.startswith("numpy."):
            self._mark_reordered(buf, c)             # ndarray.sort() / .partition(): in place, no value
            return None
        r = self._call(c, stmt_level)
        if buf is not None:
            self._mark_reordered(buf, c)
        return r

    def _call(self, c, stmt_level=False):
        f = c.func
        nm = call_name(c)
        d = dotted_name(f)
        repo = self.se.repo
        full = repo.resolve_name(self.mod, d) if d else ""
        r = self._record_call(c)
        if r is not NotImplemented:
            return r
        if full.startswith("numpy.") and nm in ("zeros", "ones", "empty", "full") and c.args:
            n = self.ev(c.args[0])
            rows = None
            if isinstance(n, (tuple, list)) and len(n) == 1:
                n = n[0]                     # shape (n,)
            elif isinstance(n, (tuple, list)) and len(n) == 2 and isinstance(n[0], (int, sp.Integer)) and not isinstance(n[0], bool) \
                    and 1 <= int(n[0]) <= 64:
                # shape (k, n) with a literal k: k rows over the bins, each with its own storage (unpacked or taken by row number)
                rows, n = int(n[0]), n[1]
            if symx._is_expr(n) and not sp.sympify(n).is_number:
                if nm == "full":
                    fv = c.args[1] if len(c.args) > 1 else kwarg(c, "fill_value")
                    init = self.ev(fv) if fv is not None else None
                else:
                    init = {"zeros": sp.Integer(0), "ones": sp.Integer(1), "empty": sp.Symbol("UNINITIALISED")}[nm]
                if symx._is_expr(init):
                    if rows is not None:
                        return tuple(Arr(sp.sympify(init), sp.sympify(n)) for _ in range(rows))
                    return Arr(sp.sympify(init), sp.sympify(n))
        if isinstance(f, ast.Name) and f.id == "len" and "len" not in self.vars and len(c.args) == 1 and not c.keywords:
            n = self._count(self.ev(c.args[0]))
            if n is not None:
                return n
        if self.bs.vfacts is not None and full.startswith("numpy."):
            r = self._sv_call(c, nm)
            if r is not None:
                return r
        if full == "numpy.append" and len(c.args) == 2 and not c.keywords:
            a, v = self.ev(c.args[0]), self.ev(c.args[1])
            if isinstance(a, sp.Basic) and a.has(AREA) and symx._is_expr(v) and not sp.sympify(v).has(AREA):
                return APPEND(a, sp.sympify(v))     # a vector over the index area with one more element behind it
            return symx.Opaque("numpy.append")
        if full.startswith("numpy.") and nm == "reduceat":
            return self._reduceat(c, full)
        if isinstance(f, ast.Attribute) and nm in ("append", "copy", "fill", "keys", "values", "items") and not full.startswith("numpy."):
            recv = self.ev(f.value)
            if nm == "append" and isinstance(recv, list) and len(c.args) == 1:
                recv.append(self.ev(c.args[0]))
                return None
            if nm == "copy" and isinstance(recv, (Arr, Vec, DV, SV)):
                return recv.copy()
            if isinstance(recv, SV) and nm not in ("copy", "astype", "sum", "min", "max", "mean", "tolist", "view", "ravel", "flatten", "squeeze"):
                recv.tainted = "the method %s() is called on the vector" % nm
            if nm == "fill" and isinstance(recv, Arr) and len(c.args) == 1:
                recv.store(slice(None), self.ev(c.args[0]), self.cur, self)
                return None
            if isinstance(recv, dict) and not c.args:
                if nm == "keys":
                    return list(recv.keys())
                if nm == "values":
                    return list(recv.values())
                if nm == "items":
                    return [(k, v) for k, v in recv.items()]
        if d and d.startswith("self.") and d.count(".") == 1 and d[5:] in self.bs.intercept:
            args = [self.ev(a) for a in c.args]
            kws = {k.arg: self.ev(k.value) for k in c.keywords if k.arg}
            return self.bs.intercept[d[5:]](self, c, args, kws)
        if d and d.startswith("self.") and d.count(".") == 1 and isinstance(self.vars.get("self"), SelfDict):
            sd = self.vars["self"]
            cand = "%s.%s.%s" % (self.fi.module.name, self.fi.cls, d[5:]) if self.fi is not None and self.fi.cls else None
            if cand and repo.has(cand) and cand not in self.se.opaque and self.depth < self.se.inline_depth:
                # a method of the object (a helper extracted from the analysed method): followed, sharing the object
                tgt = repo.func(cand)
                static = any(isinstance(x, ast.Name) and x.id == "staticmethod" for x in tgt.node.decorator_list)
                params = [p for p in tgt.params if not p.startswith("*")][0 if static else 1:]
                bind = dict(zip(params, [self.ev(a) for a in c.args]))
                for k in c.keywords:
                    if k.arg:
                        bind[k.arg] = self.ev(k.value)
                for k2, v2 in self.vars.items():
                    if k2 == "self" or k2.startswith("self."):
                        bind[k2] = v2
                env = type(self)(self.se, tgt, tgt.module, dict(bind), {}, depth=self.depth + 1)
                for p in tgt.params:
                    pn = p.lstrip("*")
                    if pn not in env.vars and pn in tgt.defaults:
                        env.vars[pn] = env.ev(tgt.defaults[pn])
                base = self.cur
                rets = env.exec_body(tgt.node.body, base)
                env.finish_returns([(cc, v) for cc, v in rets if v is not _CONT])
                for k2, v2 in env.vars.items():
                    if k2.startswith("self."):
                        self.vars[k2] = v2
                return env.result
            if d[5:] == "update" and len(c.args) == 1 and not c.keywords and isinstance(self.ev(c.args[0]), dict):
                for k2, v2 in self.ev(c.args[0]).items():
                    sd.store(k2, v2, self.cur, self)
                return None
            if d[5:] in ("get", "keys", "values", "items", "copy", "__contains__"):
                pass
            elif not (cand and repo.has(cand)):
                sd.tainted = True        # a dictionary method that may change the object, not modelled
        if d and repo.has(full) and full not in self.se.opaque and repo.func(full).qualname not in self.se.opaque and self.depth < self.se.inline_depth:
            # package callee: inlined with this evaluator (a helper extracted from the analysed function is followed)
            tgt = repo.func(full)
            params = [p for p in tgt.params if not p.startswith("*")]
            args = [self.ev(a) for a in c.args]
            bind = dict(zip(params, args))
            for k in c.keywords:
                if k.arg:
                    bind[k.arg] = self.ev(k.value)
            env = type(self)(self.se, tgt, tgt.module, dict(bind), {}, depth=self.depth + 1)
            for p in tgt.params:
                pn = p.lstrip("*")
                if pn not in env.vars and pn in tgt.defaults:
                    env.vars[pn] = env.ev(tgt.defaults[pn])
            rets = env.exec_body(tgt.node.body, sp.true)
            env.finish_returns([(cc, v) for cc, v in rets if v is not _CONT])
            for p, a in zip(params, c.args):
                if isinstance(a, ast.Name) and p in env.vars and not symx._same(env.vars[p], bind.get(p)) and symx._is_expr(env.vars[p]) \
                        and p in symx._inplace_params(tgt):
                    self.vars[a.id] = env.vars[p]
            return env.result
        for a in list(c.args) + [k.value for k in c.keywords]:
            if isinstance(a, (ast.Name, ast.Subscript)):
                try:
                    v = self.ev(a)
                except symx.Unsupported:
                    continue
                if isinstance(v, RevObj):
                    v.escaped = True
        return symx.Env.call(self, c, stmt_level)


# ---------------------------------------------------------------------------------------------------------------------------------
# equal-occupancy binning written down directly (no histogram engine, no loop over the bins): vectors over the bins as element terms
# ---------------------------------------------------------------------------------------------------------------------------------
COUNTS = sp.Symbol("COUNTS")                                # COUNTS[k] = number of ranks r in 0..n-1 with floor(r / nperbin) == k
NBIN = sp.Symbol("NBIN", positive=True, integer=True)       # their number: floor((n-1)/nperbin) + 1
NSZ = sp.Symbol("NDATA", positive=True, integer=True)       # stands for the number of selected data where a sign is decided
KB = sp.Symbol("k", integer=True, nonnegative=True)         # the generic element of a vector
PP = sp.Symbol("p", integer=True, nonnegative=True)         # the generic position in the index area
GAP, GAP2 = sp.symbols("gap gap2", integer=True, nonnegative=True)
CUMUL = sp.Function("CUMUL")                                # CUMUL(v, k) = v[0] + ... + v[k]
ARRAY_SYMS = (WSORT, SORTIDX, XALL, YALL, WALL)             # symbols that stand for whole arrays of the object


def _dn(e):
    """normal form for the direct form: index arithmetic as in _nidx, the number of data is an integer, the number of bins has a name,
    and fancy indexing composes (a[b][j] == a[b[j]] for an index array b)"""
    e = _nidx(e)
    e = e.replace(lambda t: t.func == sp.floor and t.args[0].func == SIZE, lambda t: t.args[0])
    n = SIZE(WSORT)
    e = e.subs(sp.floor((n - 1) / NPB), NBIN - 1).subs(sp.ceiling(n / NPB), NBIN)
    e = e.replace(lambda t: t.func == AT and len(t.args) == 2 and t.args[0].func == AT and len(t.args[0].args) == 2 and t.args[0].args[1] in ARRAY_SYMS,
                  lambda t: AT(t.args[0].args[0], AT(t.args[0].args[1], t.args[1])))
    return e


def _bare_arrays(e):
    """a whole array of the object occurs in the term other than under SIZE(...) or as the array an element is taken from"""
    e = sp.sympify(e).replace(lambda t: t.func == SIZE, lambda t: sp.Dummy())
    e = e.replace(lambda t: t.func == AT and t.args[0] in ARRAY_SYMS, lambda t: sp.Function("ELEMENT_OF_" + t.args[0].name)(*t.args[1:]))
    return any(x in ARRAY_SYMS for x in e.free_symbols)


def _eqd(a, b):
    if a is None or b is None:
        return False
    try:
        a, b = _dn(a), _dn(b)
        return bool(a == b or sp.expand(a - b) == 0 or sp.simplify(a - b) == 0)
    except Exception:
        return False


def _sgn(e, facts):
    """+1: e >= 0 for certain, -1: e < 0 for certain, None: not decided (facts: what is known about the generic index)"""
    try:
        e = sp.expand(_dn(e).subs(SIZE(WSORT), NSZ).subs(facts or {}, simultaneous=True))
    except Exception:
        return None
    if e.is_nonnegative:
        return 1
    if e.is_negative:
        return -1
    return None


def _decide_seq(c, scen):
    """truth of a test under an ordered substitution"""
    if c is True or c is False:
        return c
    try:
        c = _dn(c)
        for a, b in scen or ():
            c = c.subs(a, b)
    except Exception:
        return None
    return _decide(c, {})


def _dvkey(dv):
    def vkey(v):
        return ("dv",) + _dvkey(v) if isinstance(v, DV) else sp.srepr(v) if isinstance(v, sp.Basic) else repr(v)
    return (sp.srepr(dv.elem) if dv.elem is not None else None, sp.srepr(dv.n) if dv.n is not None else None,
            sp.srepr(dv.sel) if dv.sel is not None else None,
            tuple((k, sp.srepr(a) if a is not None else None, sp.srepr(b) if b is not None else None, vkey(v)) for k, a, b, v in dv.stores))


class DSel(symx.Mask):
    """a selection of elements of a vector by a condition on the generic element (np.nonzero(v), np.where(v > 0), v != 0)"""

    def __init__(self, cond, n):
        symx.Mask.__init__(self, cond)
        self.n = n


class DV:
    """a vector the analysed code builds as a whole: element k is `elem` (a term in the generic index), overlaid by the stores made
    afterwards (single elements, slices, selections).  `sel` is set for a compressed selection v[w]: its elements are those of the
    elements k of the underlying vector that satisfy sel, in order.  Views made by slicing share the stores."""

    def __init__(self, bs, elem, n, sel=None, shared=None):
        self.bs = bs
        self.elem = elem
        self.n = _dn(n) if n is not None else None
        self.sel = sel
        self.shared = shared if shared is not None else {"stores": [], "tainted": False}

    def __repr__(self):
        return "DV(%s, n=%s%s%s)" % (self.elem, self.n, ", sel=%s" % (self.sel,) if self.sel is not None else "", ", %d stores" % len(self.stores) if self.stores else "")

    @property
    def stores(self):
        return self.shared["stores"]

    @property
    def tainted(self):
        return self.shared["tainted"]

    @tainted.setter
    def tainted(self, v):
        self.shared["tainted"] = v

    def view(self, n):
        return DV(self.bs, self.elem, n, self.sel, self.shared)

    def freeze(self):
        return DV(self.bs, self.elem, self.n, self.sel, {"stores": list(self.stores), "tainted": self.tainted})

    copy = freeze

    def _abs(self, j):
        j = _dn(sp.sympify(j))
        if j.is_number and j.is_negative:
            if self.n is None:
                raise Undecided("index from the end of a vector of unknown length")
            j = _dn(self.n + j)
        return j

    def gen(self):
        """the generic element as a term"""
        if self.tainted:
            raise Undecided("vector touched by statements outside the term domain")
        if not self.stores:
            if self.elem is None:
                raise Undecided("vector of unknown content")
            return self.elem
        return AT(self.bs.snapshot(self), KB)

    def vecsym(self):
        """a symbol that names the present content"""
        g = self.gen()
        if g.func == AT and len(g.args) == 2 and g.args[1] == KB and isinstance(g.args[0], sp.Symbol):
            return g.args[0]
        return self.bs.snapshot(self)

    def at(self, j, facts=None, scen=None):
        """element j (a term; negative numbers count from the end).  facts: substitution that states what is known about the generic
        index (decides whether j lies in a stored region); scen: decides the condition of a selection"""
        if self.tainted:
            raise Undecided("vector touched by statements outside the term domain")
        if self.sel is not None:
            raise Undecided("element of a compressed selection")
        j = self._abs(j)
        for kind, a, b, v in reversed(self.stores):
            if kind == "elem":
                if sp.expand(j - a) == 0:
                    m = True
                elif _sgn(j - a - 1, facts) == 1 or _sgn(a - j - 1, facts) == 1:
                    m = False
                else:
                    m = None
            elif kind == "slice":
                s1, s2 = _sgn(j - a, facts), _sgn(b - 1 - j, facts)
                m = True if (s1 == 1 and s2 == 1) else False if (s1 == -1 or s2 == -1) else None
            else:
                m = _decide(a.subs(KB, j), scen or {})
            if m is None:
                raise Undecided("whether element %s lies in the stored region %s %s:%s" % (j, kind, a, b))
            if not m:
                continue
            if v is None:
                raise Undecided("a value the analysis does not follow was stored at %s %s:%s" % (kind, a, b))
            if isinstance(v, DV):
                if kind == "slice":
                    return v.at(j - a, facts, scen)
                if v.stores or v.elem is None:
                    raise Undecided("selection of a vector with stores")
                return v.elem.subs(KB, j)
            if v in ARRAY_SYMS:
                return AT(v, _dn(j - a))
            return v
        if self.elem is None:
            raise Undecided("vector of unknown content")
        return self.elem.subs(KB, j)

    def store(self, idx, v, cond, env):
        if cond != sp.true or self.sel is not None:
            self.tainted = True            # (every test is decided in a case of the case split: a store under an open condition is not followed)
            return
        if isinstance(v, DV):
            v = v.freeze()
        elif isinstance(v, (int, float)) and not isinstance(v, bool):
            v = sp.sympify(v)
        elif isinstance(v, sp.Basic):
            if v not in ARRAY_SYMS and _bare_arrays(v):
                v = None
        else:
            v = None
        scalar = isinstance(v, sp.Basic) and v not in ARRAY_SYMS
        try:
            if isinstance(idx, slice):
                if idx.step is not None:
                    self.tainted = True
                    return
                lo = sp.Integer(0) if idx.start is None else self._abs(idx.start)
                hi = self.n if idx.stop is None else self._abs(idx.stop)
                if hi is None or (isinstance(v, DV) and v.sel is not None):
                    self.tainted = True
                    return
                self.stores.append(("slice", lo, hi, v))
            elif isinstance(idx, DSel):
                if not _eqd(idx.n, self.n):
                    self.tainted = True
                    return
                aligned = scalar or (isinstance(v, DV) and v.sel is not None and v.sel == idx.cond)
                self.stores.append(("mask", idx.cond, None, v if aligned else None))
            elif isinstance(idx, sp.Basic) and idx == GEN:
                # one store per iteration of a loop over the bins: element k gets the value with the loop variable at k
                self.stores.append(("mask", sp.true, None, DV(self.bs, v.subs(GEN, KB), self.n, sp.true) if scalar else None))
            elif symx._is_expr(idx):
                self.stores.append(("elem", self._abs(idx), None, v if scalar else None))
            else:
                self.tainted = True
        except Undecided:
            self.tainted = True


class DEnv(BEnv):
    """BEnv with vectors over the bins built as a whole, and with the tests of the analysed function decided by the case at hand"""

    def exec_if(self, st, cond):
        t = self.truth(st.test)
        if isinstance(t, sp.Basic) and t not in (sp.true, sp.false) and self.bs.scen is not None:
            r = _decide_seq(t, self.bs.scen)
            if r is None:
                raise symx.Unsupported("C14: the test `%s` is not decided by the case split (last bin short / full, one / several bins) at %s"
                                       % (norm(st.test), self.where(st)))
            return self.exec_body(st.body if r else st.orelse, cond)
        return BEnv.exec_if(self, st, cond)

    def _dv(self, elem, n, sel=None):
        return DV(self.bs, elem, n, sel)

    def binop(self, op, a, b, node):
        if isinstance(a, DV) or isinstance(b, DV):
            try:
                dv = a if isinstance(a, DV) else b
                if isinstance(a, DV) and isinstance(b, DV):
                    if a.sel != b.sel or not _eqd(a.n, b.n):
                        return symx.Opaque("vectors of different extent")
                    ea, eb = a.gen(), b.gen()
                else:
                    o = b if dv is a else a
                    if not symx._is_expr(o) or _bare_arrays(o):
                        return symx.Opaque("vector arithmetic")
                    ea, eb = (a.gen(), o) if dv is a else (o, b.gen())
                return self._dv(symx.Env.binop(self, op, ea, eb, node), dv.n, dv.sel)
            except Undecided as e:
                return symx.Opaque(str(e))
        return BEnv.binop(self, op, a, b, node)

    def compare(self, e):
        if len(e.ops) == 1:
            a, b = self.ev(e.left), self.ev(e.comparators[0])
            if isinstance(a, DV) or isinstance(b, DV):
                rels = {ast.Lt: sp.Lt, ast.LtE: sp.Le, ast.Gt: sp.Gt, ast.GtE: sp.Ge, ast.Eq: sp.Eq, ast.NotEq: sp.Ne}
                dv = a if isinstance(a, DV) else b
                o = b if dv is a else a
                if type(e.ops[0]) not in rels or isinstance(o, DV) or not symx._is_expr(o) or dv.sel is not None:
                    return symx.Opaque("cmp(%s)" % norm(e))
                try:
                    g = dv.gen()
                except Undecided as ex:
                    return symx.Opaque(str(ex))
                return DSel(rels[type(e.ops[0])](*((g, sp.sympify(o)) if dv is a else (sp.sympify(o), g))), dv.n)
        return BEnv.compare(self, e)

    def subscript(self, base, idx, e):
        try:
            if isinstance(base, DV):
                if isinstance(idx, DSel):
                    if base.sel is None and _eqd(base.n, idx.n):
                        return self._dv(base.gen(), base.n, idx.cond)
                elif isinstance(idx, slice):
                    if idx.step is None and (idx.start is None or _eqd(idx.start, 0)) and base.sel is None:
                        return base if idx.stop is None else base.view(base._abs(idx.stop))
                elif symx._is_expr(idx):
                    return base.at(idx)
                return symx.Opaque("element(s) of a vector")
            if isinstance(idx, DV):
                ok = isinstance(base, sp.Basic) and (base in ARRAY_SYMS or (base.func == AT and len(base.args) == 2 and all(x in ARRAY_SYMS for x in base.args)))
                return self._dv(AT(base, idx.gen()), idx.n, idx.sel) if ok else symx.Opaque("gather")
        except Undecided as ex:
            return symx.Opaque(str(ex))
        return BEnv.subscript(self, base, idx, e)

    def _bincount(self, c, full):
        """numpy.bincount(x, minlength=m) of the bin numbers x = floor(arange(n) / d): recognised as the occupation numbers COUNTS when
        n is the number of selected data and d the requested occupancy; its length is max(m, largest bin number + 1)"""
        x = self.ev(c.args[0]) if c.args else None
        ml = c.args[2] if len(c.args) > 2 else kwarg(c, "minlength")
        if len(c.args) > 1 and not (isinstance(c.args[1], ast.Constant) and c.args[1].value is None):
            return symx.Opaque(full)
        if any(k.arg not in ("minlength",) for k in c.keywords) or not isinstance(x, sp.Basic):
            return symx.Opaque(full)
        x = _dn(x)
        rec = {"where": self.where(c), "x": x, "m": None, "d": None, "len": None, "lenmsg": ""}
        self.bs.bincounts.append(rec)
        ar = [t for t in x.atoms(sp.core.function.AppliedUndef) if t.func == ARANGE]
        if x.func != sp.floor or len(ar) != 1 or len(ar[0].args) != 1:
            return symx.Opaque(full)
        d = sp.simplify(ar[0] / x.args[0])
        if d.has(ARANGE):
            return symx.Opaque(full)
        rec["m"], rec["d"] = ar[0].args[0], d
        if not (_eqd(rec["m"], SIZE(WSORT)) and _eqd(d, NPB)):
            return symx.Opaque(full)
        n = NBIN
        rec["len"] = True
        if ml is not None:
            m = self.ev(ml)
            if not symx._is_expr(m):
                rec["len"] = None
                return symx.Opaque(full)
            df = sp.simplify(_dn(sp.sympify(m)) - NBIN)
            if not df.is_number:
                # int(n/nperbin) is int((n-1)/nperbin) + 1 when n is a multiple of nperbin (DIV = 1) and equal to it otherwise (DIV = 0)
                div = sp.Symbol("DIV")
                dd = sp.simplify(df.subs(sp.floor(SIZE(WSORT) / NPB), NBIN - 1 + div))
                lo, hi = dd.subs(div, 0), dd.subs(div, 1)
                if lo.is_number and hi.is_number and lo <= 0 < hi:
                    rec["len"], rec["lenmsg"] = False, "the counts are padded to %s bins: one too many when the number of data is a multiple of nperbin" % _dn(sp.sympify(m))
                    return symx.Opaque(full)
                if lo.is_number and hi.is_number and lo <= 0 and hi <= 0:
                    df = sp.Integer(0)
            if df.is_number and df > 0:
                rec["len"], rec["lenmsg"], n = False, "the counts are padded to %s bins" % _dn(sp.sympify(m)), _dn(sp.sympify(m))
            elif not (df == 0 or (df.is_number and df < 0)):
                rec["len"], rec["lenmsg"] = None, "minlength %s not compared with the number of bins" % (m,)
                return symx.Opaque(full)
        return self._dv(AT(COUNTS, KB), n)

    def call(self, c, stmt_level=False):
        f = c.func
        nm = call_name(c)
        d = dotted_name(f)
        full = self.se.repo.resolve_name(self.mod, d) if d else ""
        isnp = full.startswith("numpy.")
        if isnp and nm in ("zeros", "ones", "empty", "full") and c.args:
            n = self.ev(c.args[0])
            if symx._is_expr(n) and not sp.sympify(n).is_number:
                if nm == "full":
                    fv = c.args[1] if len(c.args) > 1 else kwarg(c, "fill_value")
                    init = self.ev(fv) if fv is not None else None
                else:
                    init = {"zeros": sp.Integer(0), "ones": sp.Integer(1), "empty": sp.Symbol("UNINITIALISED")}[nm]
                if symx._is_expr(init):
                    return self._dv(sp.sympify(init), sp.sympify(n))
        if full == "numpy.bincount":
            return self._bincount(c, full)
        recv = None
        if isnp and nm in ("cumsum", "nonzero", "flatnonzero") and len(c.args) == 1 and not c.keywords:
            recv = self.ev(c.args[0])
        elif not isnp and isinstance(f, ast.Attribute) and nm in ("cumsum", "nonzero") and not c.args and not c.keywords \
                and isinstance(f.value, (ast.Name, ast.Subscript, ast.Attribute)):
            recv = self.ev(f.value)
        if isinstance(recv, DV):
            try:
                if recv.sel is not None:
                    return symx.Opaque(nm)
                if nm == "cumsum":
                    return self._dv(CUMUL(recv.vecsym(), KB), recv.n)
                return DSel(sp.Ne(recv.gen(), 0), recv.n)
            except Undecided as ex:
                return symx.Opaque(str(ex))
        return BEnv.call(self, c, stmt_level)


def _new_eval(repo, member_map=None, intercept=None):
    se = symx.SymEval(repo, opaque_tests=False)
    se.assume = {"call:isscalar": True, "text:not np.isscalar(werr) and len(werr) < ndim": False}
    se.bs = State(member_map, intercept)
    return se


class Run:
    """outcome of one abstract execution"""

    def __init__(self):
        self.sd = None
        self.bs = None
        self.error = None


def _execute(repo, fi, sd, extra_vars, member_map=None, intercept=None, envcls=None, scen=None, vfacts=None):
    r = Run()
    se = _new_eval(repo, member_map, intercept)
    se.bs.scen = scen
    se.bs.vfacts = vfacts
    env = (envcls or BEnv)(se, fi, fi.module, {}, {})
    env.vars.update({"self": sd, "self.x": XALL, "self.y": YALL, "self.weights": WALL, "self.sort_index": SORTIDX,
                     "self.dmin": DMIN, "self.dmax": DMAX, "self.xpref": XP})
    env.vars.update(extra_vars)
    for p in fi.params:
        if p not in env.vars and p in fi.defaults:
            env.vars[p] = env.ev(fi.defaults[p])
    r.sd, r.bs = sd, se.bs
    try:
        env.exec_body(fi.node.body, sp.true)
    except (AnalysisError, Undecided, RecursionError, TypeError, ValueError, KeyError, AttributeError, IndexError) as e:
        r.error = "%s: %s" % (type(e).__name__, e)
    return r


def _verdict(results):
    """all instances of one rule over the configurations: a contradiction anywhere is a contradiction; otherwise no verdict if any
    configuration could not be evaluated"""
    results = list(results)
    if any(r is False for r in results):
        return False
    if not results or any(r is None for r in results):
        return None
    return True


def _repo_as_written():
    """the sources exactly as written.  Nothing in this check depends on the names of locals, so the renaming of locals back to the
    reviewed baseline is not wanted here: it is a textual substitution that can capture (seen: a new loop variable `name` renamed to
    the baseline's `i` inside the loop over the bins whose variable is `i`), which would change what the evaluator computes."""
    old = os.environ.get("VCHECK_NO_RENAME")
    os.environ["VCHECK_NO_RENAME"] = "1"
    try:
        return PyRepo()
    finally:
        if old is None:
            del os.environ["VCHECK_NO_RENAME"]
        else:
            os.environ["VCHECK_NO_RENAME"] = old


def run(chk):
    repo = _repo_as_written()
    chk.set_templates(repo, semantic=SEMANTIC)
    chk.explanation = MANIFEST["text"]
    chk.trusted = ["numpy reductions", "sympy normaliser", "CPython ast", "reverse-index layout of the histogram engine"]
    chk.floor = 45
    fi = repo.func(ST + "Binner.calc_stats")
    chk.analysed_unit(fi.qualname)
    runs = calc_stats_runs(repo, fi)
    arms(chk, fi, runs)
    sentinels(chk, fi, runs)
    edges(chk, fi, runs)
    keys(chk, fi, runs)
    equal_occupancy(chk, repo)
    engine_bin_number(chk, repo)
    option_plumbing(chk, repo)
    selected_data(chk)
    fresh_results(chk, repo)
    engine_layout(chk)


# ---------------------------------------------------------------------------------------------------------------------------------
# calc_stats
# ---------------------------------------------------------------------------------------------------------------------------------
N = NSEL
SUM, MEAN, STD, MED = F["SUM"], F["MEAN"], F["STD"], F["MEDIAN"]


def _wm(v):
    return SUM(W * v) / SUM(W)


REF = {
    "xmean": MEAN(X), "xstd": STD(X), "xerr": STD(X) / sp.sqrt(N), "xmedian": MED(X),
    "ymean": MEAN(Y), "ystd": STD(Y), "yerr": STD(Y) / sp.sqrt(N), "ymedian": MED(Y),
    "whist": SUM(W),
    "wxmean": _wm(X), "wxstd": sp.sqrt(SUM(W * (X - _wm(X)) ** 2) / SUM(W)), "wxerr": 1 / sp.sqrt(SUM(W)),
    "wxerr2": sp.sqrt(SUM(W ** 2 * (X - _wm(X)) ** 2)) / SUM(W),
    "wymean": _wm(Y), "wystd": sp.sqrt(SUM(W * (Y - _wm(Y)) ** 2) / SUM(W)), "wyerr": 1 / sp.sqrt(SUM(W)),
    "wyerr2": sp.sqrt(SUM(W ** 2 * (Y - _wm(Y)) ** 2)) / SUM(W),
}
# quantity -> (result key, how the key is spelt in the rule instance, needs the second variable, needs weights)
STATKEYS = {}
for _q in ("mean", "std", "err", "median"):
    STATKEYS["x" + _q] = (XP + _q, "xpref + '%s'" % _q, False, False)
    STATKEYS["y" + _q] = ("y" + _q, "'y%s'" % _q, True, False)
STATKEYS["whist"] = ("whist", "'whist'", False, True)
for _q in ("mean", "std", "err", "err2"):
    STATKEYS["wx" + _q] = ("w" + XP + _q, "'w' + xpref + '%s'" % _q, False, True)
    STATKEYS["wy" + _q] = ("wy" + _q, "'wy%s'" % _q, True, True)
EDGEKEYS = {q: (XP + q, "xpref + '%s'" % q) for q in ("low", "high", "center")}
CONFIGS = [(y, w) for y in (False, True) for w in (False, True)]


def calc_stats_runs(repo, fi):
    runs = {}
    for hasy, hasw, npb in [(y, w, False) for y, w in CONFIGS] + [(True, True, True)]:
        sd = SelfDict({"hist": HIST, "rev": RevObj(REV, SIZE(HIST)), "binsize": BINSIZE})      # one offset per bin of the histogram, plus one
        if npb:
            sd.update({"nperbin": NPB, "low": LOW, "high": HIGH})
        extra = {}
        if not hasy:
            extra["self.y"] = None
        if not hasw:
            extra["self.weights"] = None
        runs[(hasy, hasw, npb)] = _execute(repo, fi, sd, extra, member_map={XALL: X, YALL: Y, WALL: W}, vfacts=[])
    return runs


def _specialise_n1(e):
    """term for a bin with exactly one member: reductions collapse, the first/last member is the member"""
    e = sp.sympify(e)
    e = e.replace(lambda t: t.func == MEMBER, lambda t: t.args[0])
    e = e.replace(lambda t: isinstance(t, (F["MEAN"], F["MEDIAN"], F["SUM"])), lambda t: t.args[0])
    e = e.replace(lambda t: isinstance(t, F["STD"]), lambda t: sp.Integer(0))
    e = e.subs(NSEL, 1)
    return sp.simplify(e)


_eqcache = {}


def _mean_as_sum(e):
    return e.replace(lambda t: isinstance(t, F["MEAN"]), lambda t: F["SUM"](t.args[0]) / NSEL)


def _same_term(got, want):
    got = _drop_reorder(got)
    k = (sp.srepr(got), sp.srepr(want))
    if k not in _eqcache:
        ok = bool(symx.equal(got, want)[0])
        if not ok and isinstance(got, sp.Basic) and (got.has(F["MEAN"]) or got.has(F["SUM"])) and want.has(F["MEAN"]):
            # numpy's mean of the members is their sum divided by their number
            ok = bool(symx.equal(_mean_as_sum(got), _mean_as_sum(want))[0])
        _eqcache[k] = ok
    return _eqcache[k]


def _stat_array(run, key):
    """(Arr stored under the result key, reason why there is none)"""
    if run.error:
        return None, "the function could not be evaluated (%s)" % run.error[:160]
    if run.sd.tainted:
        return None, "statements outside the term domain touch the object: %s" % (run.bs.skipped[:2],)
    v = run.sd.get(key) if any(k == key for k, _, _ in run.sd.log) else None
    if v is None:
        return None, "no store to the key was found"
    if not isinstance(v, Arr):
        return None, "the stored value is not an array the analysis followed (%r)" % (v,)
    if v.tainted:
        return None, "statements outside the term domain touch the array: %s" % (run.bs.skipped[:2],)
    return v, ""


def _stat_runs(runs, q):
    _, _, needy, needw = STATKEYS[q]
    return [(cfg, runs[cfg]) for cfg in runs if not cfg[2] and (cfg[0] or not needy) and (cfg[1] or not needw)]


def _loops_ok(run):
    """True: there is exactly one loop over all bins of the histogram; None: not recognised"""
    if run.error or not run.bs.loops:
        return None
    return True if all(_eq(n, SIZE(HIST)) for n, _, _ in run.bs.loops) else False


def arms(chk, fi, runs):
    std = [r for cfg, r in runs.items() if not cfg[2]]
    full = runs[(True, True, False)]
    where = fi.where(full.bs.loops[0][2]) if full.bs.loops else fi.where()
    # the members of a bin
    res = []
    for r in std:
        rv = r.sd.get("rev")
        if isinstance(rv, RevObj) and (rv.bad_sel or rv.other or rv.stores):
            res.append(False)
        elif r.error or not isinstance(rv, RevObj) or rv.tainted or rv.escaped:
            res.append(None)
        elif rv.sels == 0 or _loops_ok(r) is None:
            res.append(None)
        else:
            res.append(_loops_ok(r))
    bad = [x for r in std if isinstance(r.sd.get("rev"), RevObj) for x in r.sd["rev"].bad_sel]
    chk.ob("R14.1", "calc_stats::members-from-reverse-indices", _verdict(res), where,
           "the statistics loop visits every bin and a non-empty bin's members are rev[rev[i]:rev[i+1]]; the reverse indices are not modified%s%s"
           % ((" (found slice %s)" % bad[0]) if bad else "", (" [%s]" % full.error[:200]) if full.error else ""))
    # values per scenario
    general, single, undecided = {}, {}, []
    for q, ref in REF.items():
        key = STATKEYS[q][0]
        g, s = [], []
        gmsg = smsg = ""
        for cfg, r in _stat_runs(runs, q):
            arr, why = _stat_array(r, key)
            if arr is None:
                g.append(None)
                s.append(None)
                gmsg = gmsg or why
                smsg = smsg or why
                continue
            for sc in (2, "many"):
                try:
                    got = arr.value(_scen(sc))
                    ok = _same_term(got, ref)
                    g.append(ok)
                    if not ok:
                        gmsg = "found %s" % (got,)
                        if isinstance(got, sp.Basic) and got.has(REORDERED) and r.bs.reordered:
                            gmsg += "; %s at %s and the buffer is then paired element by element with an array still in the order of the reverse indices" \
                                    % (r.bs.reordered[0][1], r.bs.reordered[0][0])
                    elif arr.open_last and arr.init_survives(_scen(sc)):
                        g.append(False)
                        gmsg = "in the last bin: %s" % arr.open_last
                except Undecided as e:
                    g.append(None)
                    undecided.append("%s: %s" % (q, e))
                    gmsg = gmsg or "not decided: %s" % e
            try:
                got = arr.value(_scen(1))
                want = _specialise_n1(ref)
                ok = _same_term(_specialise_n1(got), want)
                s.append(ok)
                if not ok:
                    smsg = "found %s" % (got,)
            except Undecided as e:
                s.append(None)
                undecided.append("%s: %s" % (q, e))
                smsg = smsg or "not decided: %s" % e
        general[q] = (_verdict(g), gmsg)
        single[q] = (_verdict(s), smsg)
    anyarr = any(_stat_array(r, STATKEYS["xmean"][0])[0] is not None for r in std)
    chk.ob("R14.1", "calc_stats::single-member-test", (True if not undecided else None) if anyarr else None, where,
           "which formula a bin gets is decided by its number of members alone (one / several)%s" % ((": " + "; ".join(undecided[:3])) if undecided else ""))
    for q, ref in REF.items():
        ok, msg = general[q]
        chk.ob("R14.1", "calc_stats[general]::%s" % q, ok, where, "%s of a bin with several members is %s (%s)" % (q, ref, msg or "as found"))
    # special-case consistency: one member == general definition at n = 1, for the quantities constrained for one member
    for q in ("xmean", "xstd", "xmedian", "ymean", "ystd", "ymedian", "whist", "wxmean", "wxstd", "wymean", "wystd"):
        ok, msg = single[q]
        chk.ob("R14.1", "calc_stats[single]::%s" % q, ok, where,
               "for a single member %s must equal the general definition specialised to n=1, i.e. %s (%s)" % (q, _specialise_n1(REF[q]), msg or "as found"))


def sentinels(chk, fi, runs):
    where = fi.where()

    def starts(qs, want):
        res, msg = [], ""
        for q in qs:
            for cfg, r in _stat_runs(runs, q):
                arr, why = _stat_array(r, STATKEYS[q][0])
                if arr is None:
                    res.append(None)
                    msg = msg or "%s: %s" % (q, why)
                    continue
                try:
                    v = arr.start()
                    if isinstance(v, sp.Basic) and v.has(sp.Piecewise):
                        # an array computed for all bins at once has no common starting value: what counts is what an empty bin
                        # holds in the end
                        v = arr.value(_scen(0))
                    ok = symx._is_expr(v) and _same_term(sp.sympify(v), want)
                    res.append(bool(ok))
                    if not ok:
                        msg = "%s starts at %s" % (q, v)
                except Undecided as e:
                    res.append(None)
                    msg = msg or "%s: %s" % (q, e)
        return _verdict(res), msg

    ok, msg = starts(["xmean"], sp.Integer(-9999))
    chk.ob("R14.2", "calc_stats::sentinel-prototype", ok, where, "the mean of the binned variable starts at -9999 in every bin (%s)" % (msg or "as found"))
    ok, msg = starts([q for q in REF if q not in ("xmean", "whist")], sp.Integer(-9999))
    chk.ob("R14.2", "calc_stats::all-results-start-at-sentinel", ok, where, "every other statistic starts at the sentinel -9999 (%s)" % (msg or "as found"))
    ok, msg = starts(["whist"], sp.Integer(0))
    chk.ob("R14.2", "calc_stats::summed-weight-starts-at-zero", ok, where, "the summed weight of an empty bin is 0 (%s)" % (msg or "as found"))
    # what an empty bin holds in the end, however the arrays are filled (per-bin stores, masked stores, whole-array expressions)
    res, msg = [], ""
    for q in REF:
        want = sp.Integer(0) if q == "whist" else sp.Integer(-9999)
        for cfg, r in _stat_runs(runs, q):
            arr, why = _stat_array(r, STATKEYS[q][0])
            if arr is None:
                res.append(None)
                msg = msg or "%s: %s" % (q, why)
                continue
            try:
                v = arr.value(_scen(0))
                ok = bool(symx._is_expr(v) and _same_term(sp.sympify(v), want))
                res.append(ok)
                if not ok:
                    msg = "%s of an empty bin is %s, expected %s" % (q, v, want)
            except Undecided as e:
                res.append(None)
                msg = msg or "%s: %s" % (q, e)
    chk.ob("R14.2", "calc_stats::empty-bin-values", _verdict(res), where,
           "an empty bin ends with the sentinel -9999 in every statistic and 0 in the summed weight (%s)" % (msg or "as found"))
    # element stores only for non-empty bins
    res, msg, nst = [], "", 0
    for q in REF:
        for cfg, r in _stat_runs(runs, q):
            arr, why = _stat_array(r, STATKEYS[q][0])
            if arr is None:
                res.append(None)
                msg = msg or "%s: %s" % (q, why)
                continue
            per_bin = [(c, k) for c, k, _ in arr.stores if k != "all"]
            nst += len(per_bin)
            if not per_bin and not (isinstance(arr.init, sp.Basic) and arr.init.has(sp.Piecewise)):
                # (an array computed for all bins at once carries its per-bin condition in its value: judged by empty-bin-values)
                res.append(None)
                msg = msg or "%s: no per-bin store found" % q
            for c, k, val in [(c, k, val) for c, k, val in arr.stores if k != "all"]:
                t = None if k == "other" else _decide(c, _scen(0))
                if t and symx._is_expr(val) and _same_term(sp.sympify(val), sp.Integer(0) if q == "whist" else sp.Integer(-9999)):
                    res.append(True)         # a store that does reach empty bins, and writes the sentinel itself
                    continue
                res.append(None if t is None else (not t))
                if t is not False:
                    msg = "%s is stored under %s" % (q, c)
    chk.ob("R14.2", "calc_stats::stores-only-for-non-empty-bins", _verdict(res), where,
           "all %d per-bin stores happen only for a non-empty bin: empty bins keep the sentinel (%s)" % (nst, msg or "as found"))


def _logged(run, key):
    return [v for k, v, _ in run.sd.log if k == key]


def _arr_as_sv(a):
    """an array allocated for all bins, with the stores made into it, as a vector with explicit positions"""
    if a.tainted:
        raise Undecided("statements outside the term domain touch the array")
    if a.n is None or not isinstance(a.init, sp.Basic) or a.init.has(sp.Piecewise) or a.open_last:
        raise Undecided("array of unknown extent / content")
    sv = SV.const(a.n, a.init)

    class _E:
        class bs:
            vfacts = []
    for c, i, v in a.raw:
        sv.store(i, v, c, _E)
    return sv


def _edge_positions(got, ref, idx):
    """a bin edge vector with explicit positions against its definition, at the first bin, a bin in the middle and the last bin:
    (True / False / None, text)"""
    n = idx.args[0]
    try:
        sv = _arr_as_sv(got) if isinstance(got, Arr) else got
        if not _eq(sv.n, n):
            return False, "%s elements for %s bins" % (sv.n, n)
        out = []
        for name, pos, facts in (("first bin", sp.Integer(0), [(n, GAPV + 2)]), ("a bin in the middle", KH + 1, [(n, KH + 3 + GAPV)]),
                                 ("last bin", n - 1, [(n, GAPV + 2)])):
            v = sv.at(pos, facts)
            if not isinstance(v, sp.Basic) or isinstance(v, symx.Opaque):
                return None, "%s: value not followed (%r)" % (name, v)
            v = _at_norm(v)
            want = ref.subs(idx, pos)
            if not _same_term(sp.expand(v), sp.expand(want)):
                out.append("in the %s it is %s, expected %s" % (name, v, want))
        return (not out), "; ".join(out)
    except Undecided as e:
        return None, "not decided: %s" % e


def edges(chk, fi, runs):
    where = fi.where()
    idx = ARANGE(SIZE(HIST))
    ref = {"low": DMIN + idx * BINSIZE, "high": DMIN + idx * BINSIZE + BINSIZE, "center": DMIN + idx * BINSIZE + BINSIZE / 2}
    for q, r_ in ref.items():
        res, got, msg = [], None, ""
        for cfg, r in runs.items():
            if cfg[2]:
                continue
            if r.error or r.sd.tainted:
                res.append(None)
                continue
            vals = _logged(r, EDGEKEYS[q][0])
            if not vals:
                res.append(None)
                continue
            got = vals[-1]
            if isinstance(got, (SV, Arr)):
                ok, m = _edge_positions(got, r_, idx)
                res.append(ok)
                msg = msg or m
                continue
            res.append(bool(symx._is_expr(got) and _same_term(sp.sympify(got), r_)) if not isinstance(got, symx.Opaque) else None)
        chk.ob("R14.3", "calc_stats::%s" % q, _verdict(res), where, "bin %s is %s (found %s)" % (q, r_, msg or got))
    r = runs[(True, True, True)]
    if r.error or r.sd.tainted:
        ok = None
    else:
        ok = not any(_logged(r, EDGEKEYS[q][0]) or (q != "center" and _logged(r, q)) for q in ref)
    chk.ob("R14.3", "calc_stats::edges-only-for-regular-bins", ok, where,
           "regular edges are computed only for binsize/nbin histograms (equal-occupancy bins get theirs from the members)")


def keys(chk, fi, runs):
    where = fi.where()

    def present(needy, needw, key, npb_matters):
        res, msg = [], ""
        for cfg, r in runs.items():
            if cfg[2] and not npb_matters:
                continue
            if r.error or r.sd.tainted:
                res.append(None)
                msg = msg or (r.error or "object touched by statements outside the term domain")[:160]
                continue
            want = (cfg[0] or not needy) and (cfg[1] or not needw) and not (npb_matters and cfg[2])
            have = bool(_logged(r, key))
            res.append(want == have)
            if want != have:
                msg = "%s with second variable: %s, weights: %s, equal-occupancy: %s" % ("missing" if want else "present", cfg[0], cfg[1], cfg[2])
        return _verdict(res), msg

    for q, (key, spelt, needy, needw) in STATKEYS.items():
        ok, msg = present(needy, needw, key, False)
        chk.ob("R14.4", "calc_stats::key::%s" % spelt, ok, where,
               "result key %s holds %s exactly when (second variable: %s, weights: %s) (%s)" % (spelt, q, "T" if needy else None, "T" if needw else None, msg or "as found"))
    for q, (key, spelt) in EDGEKEYS.items():
        ok, msg = present(False, False, key, True)
        chk.ob("R14.4", "calc_stats::key::%s" % spelt, ok, where, "result key %s holds %s for binsize/nbin histograms (%s)" % (spelt, q, msg or "as found"))


# ---------------------------------------------------------------------------------------------------------------------------------
# equal-occupancy binning
# ---------------------------------------------------------------------------------------------------------------------------------
def _self_key_stores(fi):
    """constant keys k of stores self[k] = ... / self[k] op= ... made in a method"""
    out = set()
    me = _positional(fi, False)[:1]
    for n in ast.walk(fi.node):
        ts = n.targets if isinstance(n, ast.Assign) else [n.target] if isinstance(n, (ast.AugAssign, ast.AnnAssign)) else []
        for t in ts:
            for x in (t.elts if isinstance(t, (ast.Tuple, ast.List)) else [t]):
                if isinstance(x, ast.Subscript) and isinstance(x.value, ast.Name) and x.value.id in me \
                        and isinstance(x.slice, ast.Constant) and isinstance(x.slice.value, str):
                    out.add(x.slice.value)
    return out


def _self_calls(fi):
    """names m of the calls self.m(...) made in a method"""
    me = _positional(fi, False)[:1]
    return {n.func.attr for n in ast.walk(fi.node) if isinstance(n, ast.Call) and isinstance(n.func, ast.Attribute)
            and isinstance(n.func.value, ast.Name) and n.func.value.id in me}


_ENGINE_ENTRY = ("_chist.chist",)          # the C histogram routine (esutil/stat/chist_pywrap.c)


class Methods:
    """the private methods of Binner the rules are about, found by what they do and not by what they are called (a private method
    may be renamed): the ENGINE wrapper is the method that calls the C histogram routine _chist.chist; the EQUAL-OCCUPANCY method
    is the one that records self['nperbin']; the MERGE method is the other method, called from there, that replaces self['hist'].
    Where a handle does not single out one method the documented names are used."""

    def __init__(self, repo):
        ms = {q: f for q, f in repo.funcs.items() if f.cls == "Binner" and q.startswith(ST + "Binner.")}
        public = {ST + "Binner." + n for n in ("dohist", "calc_stats", "__init__")}

        def pick(cands, default):
            cands = sorted(c for c in cands if c not in public)
            if len(cands) == 1:
                return cands[0]
            return ST + "Binner." + default

        eng = set()
        for q, f in ms.items():
            for n in ast.walk(f.node):
                if isinstance(n, ast.Call):
                    d = dotted_name(n.func)
                    if d and repo.resolve_name(f.module, d).endswith(_ENGINE_ENTRY):
                        eng.add(q)
        self.engine = pick(eng, "_do_hist")
        self.by_num = pick({q for q, f in ms.items() if "nperbin" in _self_key_stores(f)}, "_hist_by_num")
        called = {ST + "Binner." + m for m in _self_calls(ms[self.by_num])} if self.by_num in ms else set()
        self.merge = pick({q for q, f in ms.items() if q in called and q not in (self.engine, self.by_num)
                           and "hist" in _self_key_stores(f)}, "_merge_last")
        self.engine_name, self.by_num_name, self.merge_name = (q.rsplit(".", 1)[1] for q in (self.engine, self.by_num, self.merge))


def _engine_roles(dh):
    """parameter of the engine wrapper -> what it means, read off the call of the C routine chist(data, dmin, sortind, binsize, hist,
    revind): the parameters handed on in the first four places, the one that sizes the array of counts, and the flag that is left.
    The documented names are the fallback."""
    names = ("data", "dmin", "sortind", "bsize")
    params = [p for p in dh.params if not p.startswith("*")][1:]
    roles = {}
    calls = [n for n in ast.walk(dh.node) if isinstance(n, ast.Call) and (dotted_name(n.func) or "").endswith(_ENGINE_ENTRY)]
    if len(calls) == 1 and len(calls[0].args) >= 5 and not calls[0].keywords:
        c = calls[0]
        for role, a in zip(names, c.args):
            if isinstance(a, ast.Name) and a.id in params:
                roles[a.id] = role
        h = c.args[4]
        if isinstance(h, ast.Name):
            defs = [n.value for n in ast.walk(dh.node) if isinstance(n, ast.Assign) and any(isinstance(t, ast.Name) and t.id == h.id for t in n.targets)]
            sizes = {norm(v.args[0]) for v in defs if isinstance(v, ast.Call) and call_name(v) in ("zeros", "empty") and v.args}
            if len(defs) >= 1 and len(sizes) == 1 and len(defs) == len([v for v in defs if isinstance(v, ast.Call) and v.args]) \
                    and next(iter(sizes)) in params:
                roles[next(iter(sizes))] = "nbin"
        rest = [p for p in params if p not in roles]
        if len(roles) == 5 and len(set(roles.values())) == 5 and len(rest) == 1:
            roles[rest[0]] = "rev"
            return roles
    return {p: p for p in params}


def _by_num_args(repo, fi, mergelast, ms):
    """the arguments of the equal-occupancy method: its parameters that Binner.dohist feeds with the public options nperbin /
    mergelast (by the documented names where the call is not found)"""
    out = {"nperbin": NPB, "mergelast": mergelast}
    if repo.has(ST + "Binner.dohist"):
        dh = repo.func(ST + "Binner.dohist")
        for call, callee, ctor in _binner_calls(repo, dh):
            if callee is fi and not ctor:
                for p, e in (_bind(dh, call, fi, True) or {}).items():
                    if isinstance(e, ast.Name) and e.id in ("nperbin", "mergelast"):
                        out[p] = out[e.id]
    return out


def _hist_by_num_run(repo, fi, mergelast, ms):
    dh = repo.func(ms.engine)
    dparams = [p for p in dh.params if not p.startswith("*")][1:]
    roles = _engine_roles(dh)

    def do_hist(env, c, args, kws):
        bind = {p: env.ev(dh.defaults[p]) for p in dparams if p in dh.defaults}
        bind.update(zip(dparams, args))
        bind.update(kws)
        bind = {roles.get(p, p): v for p, v in bind.items()}
        nb = bind.get("nbin")
        rv = RevObj(REV, _nidx(nb) if symx._is_expr(nb) else None)
        env.bs.do_hist.append((bind, env.cur, rv))
        return (HIST, rv)

    def merge_last(env, c, args, kws):
        env.bs.merges.append((env.cur, dict(env.vars["self"])))
        return None

    sd = SelfDict({"wsort": WSORT})
    return _execute(repo, fi, sd, _by_num_args(repo, fi, mergelast, ms), intercept={ms.engine_name: do_hist, ms.merge_name: merge_last})


_MERGED_REV_TEXT = ("the merge leaves the reverse indices in the engine's layout for one bin fewer (REV: before the merge, nbin = SIZE(HIST) bins): one element "
                    "fewer, offsets REV[k]-1, last offset REV[nbin]-1, index area unchanged one place earlier")


def _merge_last_rules(chk, repo, where, ms, called=True):
    """the two rules about the merge of a short last bin, decided on the method that does it"""
    n = SIZE(WSORT)
    if not repo.has(ms.merge) or not called:
        why = ("no method _merge_last" if not repo.has(ms.merge) else "%s is not called" % ms.merge_name) + \
              ", and a merge written out after the call of the histogram engine is not followed"
        chk.ob("R14.5", "_merge_last::merged-bin-count-and-limits", None, where,
               "merged bin: one bin fewer, counts added, low from the predecessor, high from the last bin (%s)" % why)
        chk.ob("R14.5", "_merge_last::needs-two-bins", None, where, "nothing is merged when there is only one bin, and two are enough (%s)" % why)
        chk.ob("R14.5", "_merge_last::reverse-indices-after-merge", None, where, "%s -- %s" % (why, _MERGED_REV_TEXT))
        return
    ml = repo.func(ms.merge)
    chk.analysed_unit(ml.qualname)
    # the reverse indices before the merge: SIZE(HIST) + 1 offsets, then the index area with at least one datum
    nb, nr = SIZE(HIST), SIZE(REV)
    layout = [(nr, nb + 1 + ND)]
    rev0 = SV(nr, base=lambda j, f: AT(REV, sp.expand(j)))
    sd = SelfDict({"hist": Vec(HIST), "low": Vec(LOW, n=SIZE(HIST)), "high": Vec(HIGH, n=SIZE(HIST)), "rev": rev0})     # one low / high per bin
    rm = _execute(repo, ml, sd, {}, vfacts=layout + [(nb, GAPV + 2)])
    res, msg = [], ""
    want = {"hist": (HIST, AT(HIST, -2) + AT(HIST, -1)), "low": (LOW, AT(LOW, -2)), "high": (HIGH, AT(HIGH, -1))}
    for q, (sym, w) in want.items():
        v = rm.sd.get(q)
        if rm.error or rm.sd.tainted or not isinstance(v, Vec) or v.tainted or v.buf.sym != sym or not _logged(rm, q):
            res.append(None)
            msg = msg or (rm.error or "the new %s is not an array the analysis followed (%r) %s" % (q, v, rm.bs.skipped[:2]))[:200]
            continue
        if v.buf.other:
            res.append(None)
            msg = msg or "%s: store at an index the analysis does not follow (%s)" % (q, v.buf.other[0][0])
            continue
        try:
            # the values the function leaves when it does merge (two or more bins)
            cells = {k: _resolve(val, {SIZE(HIST): MPOS + 1}) for k, val in v.buf.cells.items()}
            lastv = _resolve(v.read(-1), {SIZE(HIST): MPOS + 1})
        except Undecided as e:
            res.append(None)
            msg = msg or "%s: %s" % (q, e)
            continue
        ok = v.drop == 1 and _eq(lastv, w) and all(_eq(val, AT(sym, k)) for k, val in cells.items() if k != -1 - v.drop)
        res.append(bool(ok))
        if not ok:
            msg = "new %s drops %d element(s) and ends with %s, expected one and %s" % (q, v.drop, lastv, w)
    chk.ob("R14.5", "_merge_last::merged-bin-count-and-limits", _verdict(res), ml.where(),
           "merged bin: one bin fewer, counts added, low from the predecessor, high from the last bin (%s)" % (msg or "as found"))
    # the reverse indices the merge leaves, position by position, against the layout for one bin fewer
    ok, msg = None, ""
    rv = rm.sd.get("rev")
    if rm.error or rm.sd.tainted or not _logged(rm, "rev") or not isinstance(rv, SV):
        msg = (rm.error or "the new reverse indices are not a vector the analysis followed (%r) %s" % (rv, rm.bs.skipped[:2]))[:200]
    else:
        try:
            bad = []
            if not _eq(rv.n, nr - 1):
                bad.append("they have %s elements, expected %s" % (rv.n, nr - 1))
            else:
                for name, pos, want, facts in (
                        ("the offset of bin k", KH, AT(REV, KH) - 1, layout + [(nb, KH + 2 + GAPV)]),
                        ("the offset behind the merged last bin, element nbin-1,", nb - 1, AT(REV, nb) - 1, layout + [(nb, GAPV + 2)]),
                        ("position p of the index area, element nbin+p,", nb + PA, AT(REV, nb + PA + 1), layout + [(ND, PA + 1 + GAPW), (nb, GAPV + 2)])):
                    got = rv.at(pos, facts)
                    if not isinstance(got, sp.Basic):
                        raise Undecided("%s: value not followed (%r)" % (name, got))
                    if not _eq(got, want):
                        bad.append("%s holds %s, expected %s" % (name, got, want))
            ok, msg = (not bad), "; ".join(bad)
        except Undecided as e:
            msg = "not decided: %s" % e
    chk.ob("R14.5", "_merge_last::reverse-indices-after-merge", ok, ml.where(), "%s%s" % ((msg + " -- ") if msg else "", _MERGED_REV_TEXT))
    res, msg = [], ""
    if rm.error or rm.sd.tainted or not rm.sd.log:
        res.append(None)
        msg = (rm.error or "no store followed")[:200]
    for k, v, c in rm.sd.log:
        t1, t2, t3 = _decide(c, {SIZE(HIST): 1}), _decide(c, {SIZE(HIST): 2}), _decide(c, {SIZE(HIST): MPOS + 2})
        res += [None if t1 is None else (not t1), t2, t3]
        if not (t1 is False and t2 and t3):
            msg = "%s is stored under %s" % (k, c)
    chk.ob("R14.5", "_merge_last::needs-two-bins", _verdict(res), ml.where(), "nothing is merged when there is only one bin, and two are enough (%s)" % (msg or "as found"))


# ---- the direct form: counts, reverse indices and limits written down from the ranks, no histogram engine --------------------------
DCASES = [(ml, short, many) for ml in (True, False) for short in (True, False) for many in (True, False)]


def _direct_run(repo, fi, ml, short, many, ms):
    """one case of the case split that decides every test of the function: mergelast on / off, last bin short / full, several bins / one"""
    def do_hist(env, c, args, kws):
        env.bs.do_hist.append(({}, env.cur, None))
        return symx.Opaque("histogram engine")

    def merge_last(env, c, args, kws):
        env.bs.merges.append((env.cur, dict(env.vars["self"])))
        return None

    scen = [(AT(COUNTS, NBIN - 1), (NPB - HPOS) if short else NPB), (NBIN, (MPOS + 1) if many else sp.Integer(1))]
    intercept = {ms.engine_name: do_hist}
    if repo.has(ms.merge):
        intercept[ms.merge_name] = merge_last
    return _execute(repo, fi, SelfDict({"wsort": WSORT}), _by_num_args(repo, fi, ml, ms), intercept=intercept, envcls=DEnv, scen=scen)


def _dfinal(run):
    """(the vectors the function leaves in the object, reason why they cannot be judged)"""
    if run.error:
        return None, "the function could not be evaluated (%s)" % run.error[:160]
    if run.sd.tainted:
        return None, "statements outside the term domain touch the object: %s" % (run.bs.skipped[:2],)
    out = {}
    for q in ("hist", "rev", "low", "high"):
        v = run.sd.get(q) if _logged(run, q) else None
        if not isinstance(v, DV):
            return None, "%s is not a vector the analysis followed (%r) %s" % (q, v, run.bs.skipped[:2])
        if v.tainted or v.sel is not None or v.n is None:
            return None, "%s: statements outside the term domain touch the vector, or its extent is not known %s" % (q, run.bs.skipped[:2])
        out[q] = v
    return out, ""


def _case_name(case):
    return "mergelast %s, last bin %s, %s" % ("on" if case[0] else "off", "short" if case[1] else "full", "several bins" if case[2] else "one bin")


def _direct_layout(f):
    """the reverse indices and the limits a run leaves, against the counts it leaves: list of (True / False / None, text)"""
    out = []
    hist, rev, low, high = f["hist"], f["rev"], f["low"], f["high"]
    n = SIZE(WSORT)
    L = hist.n
    try:
        V = hist.vecsym()
    except Undecided as e:
        return [(None, "counts: %s" % e)]
    c = sp.simplify(_dn(L - NBIN))
    if not c.is_Integer:
        return [(None, "the number of bins %s is not compared with %s" % (L, NBIN))]
    inbin = {NBIN: KB + 1 + GAP - c}                # k is one of the bins 0 .. L-1
    inarea = {NSZ: PP + 1 + GAP2}                   # p is one of the positions 0 .. n-1
    nonempty = {AT(V, KB): HPOS}
    first, last = CUMUL(V, KB) - AT(V, KB), CUMUL(V, KB) - 1      # ranks of the first / last member of bin k
    items = [
        ("the reverse indices have %s elements", lambda: rev.n, L + 1 + n),
        ("the first offset rev[0] is %s", lambda: rev.at(0), L + 1),
        ("the offset behind bin k, rev[k+1], is %s", lambda: rev.at(KB + 1, inbin), L + 1 + CUMUL(V, KB)),
        ("position p of the index area, rev[nbin+1+p], holds %s", lambda: rev.at(L + 1 + PP, inarea), AT(WSORT, PP)),
        ("low has %s elements", lambda: low.n, L),
        ("high has %s elements", lambda: high.n, L),
        ("low of a non-empty bin k is %s", lambda: low.at(KB, inbin, nonempty), AT(XALL, AT(WSORT, first))),
        ("high of a non-empty bin k is %s", lambda: high.at(KB, inbin, nonempty), AT(XALL, AT(WSORT, last))),
    ]
    for text, get, want in items:
        try:
            got = get()
        except Undecided as e:
            out.append((None, (text % want) + ": not decided: %s" % e))
            continue
        ok = _eqd(got, want)
        out.append((ok, "" if ok else (text % _dn(want)) + ", found %s" % (_dn(got),)))
    return out


def _equal_occupancy_direct(chk, repo, fi, ms):
    where = fi.where()
    runs = {case: _direct_run(repo, fi, *case, ms) for case in DCASES}
    finals = {case: _dfinal(r) for case, r in runs.items()}
    engine = any(r.bs.do_hist for r in runs.values())
    method = any(r.bs.merges for r in runs.values())            # the merge is done by the method _merge_last

    def first_msg(pairs):
        return next((m for ok, m in pairs if ok is False and m), "") or next((m for ok, m in pairs if ok is None and m), "")

    # the counts
    pairs = []
    for case, r in runs.items():
        if r.error or engine:
            pairs.append((None, (r.error or "the histogram engine is called")[:200]))
            continue
        if len(r.bs.bincounts) != 1:
            pairs.append((None, "%d countings of bin numbers found %s" % (len(r.bs.bincounts), r.bs.skipped[:2])))
            continue
        bc = r.bs.bincounts[0]
        if bc["m"] is None:
            pairs.append((None, "the bin numbers %s are not of the form int(arange(n)/d)" % (bc["x"],)))
            continue
        ok = _eqd(bc["m"], SIZE(WSORT))
        pairs.append((ok, "" if ok else "%s ranks are binned, expected all %s selected data" % (bc["m"], SIZE(WSORT))))
        ok = _eqd(bc["d"], NPB) or (None if _not_followed(bc["d"]) else False)
        pairs.append((ok, "" if ok else "rank r goes to bin int(r/%s), expected int(r/nperbin)" % (bc["d"],)))
        pairs.append((bc["len"], bc["lenmsg"]))
        f, why = finals[case]
        if f is None:
            pairs.append((None, why))
        else:
            root = f["hist"].elem is not None and _eqd(f["hist"].elem, AT(COUNTS, KB))
            pairs.append((True if root else None, "" if root else "the stored counts are not the counted ranks (%r)" % (f["hist"],)))
    chk.ob("R14.5", "_hist_by_num::positions-binned-by-count", _verdict([p[0] for p in pairs]), where,
           "sorted positions 0..n-1 are histogrammed with bin size nperbin into int((n-1)/nperbin)+1 bins, with reverse indices: every bin gets "
           "nperbin consecutive sorted data (%s)" % (first_msg(pairs) or "as found: counted directly, rank r in bin int(r/nperbin)"))

    # reverse indices and limits, against the counts that are stored
    layout = {}
    for case, (f, why) in finals.items():
        layout[case] = [(None, why)] if f is None else [(ok, ("%s: %s" % (_case_name(case), m)) if m else "") for ok, m in _direct_layout(f)]
    pairs = [p for case in DCASES for p in layout[case]]
    chk.ob("R14.5", "_hist_by_num::reverse-indices-in-original-frame", _verdict([p[0] for p in pairs]), where,
           "each bin's sorted positions are mapped through the (limited) sort index to indices of the original array and written back; low/high are "
           "the first/last member's values (%s)" % (first_msg(pairs) or "as found: offsets from the cumulated counts, index area = limited sort index"))

    # when the last bin is merged
    def merged(case):
        """True: the run leaves one bin fewer than were counted; False: as many; None: not decided"""
        f, why = finals[case]
        if f is None:
            return None, why
        if _eqd(f["hist"].n, NBIN - 1):
            return True, ""
        if _eqd(f["hist"].n, NBIN):
            return False, ""
        return None, "%s bins are left" % (f["hist"].n,)

    pairs = []
    for case in DCASES:
        ml, short, many = case
        r = runs[case]
        if r.error:
            pairs.append((None, r.error[:200]))
        elif method:
            # the method decides itself what to do with a single bin
            called = len(r.bs.merges)
            want = ml and short
            if want and not many:
                continue
            conds = [_decide_seq(c, r.bs.scen) for c, _ in r.bs.merges]
            ok = None if any(x is None for x in conds) else (sum(1 for x in conds if x) == (1 if want else 0))
            pairs.append((ok, "" if ok else "%s: %d call(s) of the merge" % (_case_name(case), called)))
        else:
            m, why = merged(case)
            want = ml and short and many
            pairs.append((None if m is None else (m == want), "%s: %s" % (_case_name(case), why or ("the last bin is merged" if m else "the last bin is not merged"))))
    chk.ob("R14.5", "_hist_by_num::merge-condition", _verdict([p[0] for p in pairs]), where,
           "the last bin is merged exactly when it is short and mergelast is on (%s)" % (first_msg([p for p in pairs if p[0] is not True]) or "as found"))

    # the merged bin
    if method:
        _merge_last_rules(chk, repo, where, ms)
    else:
        case = (True, True, True)
        f, why = finals[case]
        pairs = []
        if f is None:
            pairs.append((None, why))
        else:
            h = f["hist"]
            m, why = merged(case)
            pairs.append((m, why or "the number of bins is unchanged"))
            if m:
                try:
                    body = h.at(KB, {NBIN: KB + 3 + GAP})              # k is one of the bins in front of the merged one
                    ok = _eqd(body, AT(COUNTS, KB))
                    pairs.append((ok, "" if ok else "the count of a bin in front of the merged one is %s" % (body,)))
                    lastv = h.at(-1)
                    ok = _eqd(lastv, AT(COUNTS, NBIN - 2) + AT(COUNTS, NBIN - 1))
                    pairs.append((ok, "" if ok else "the merged bin counts %s, expected %s" % (lastv, AT(COUNTS, NBIN - 2) + AT(COUNTS, NBIN - 1))))
                except Undecided as e:
                    pairs.append((None, "counts after the merge: %s" % e))
            pairs += layout[case]
        chk.ob("R14.5", "_merge_last::merged-bin-count-and-limits", _verdict([p[0] for p in pairs]), where,
               "merged bin: one bin fewer, counts added, low from the predecessor, high from the last bin (%s)"
               % (first_msg(pairs) or "as found: the counts are merged first, offsets and limits follow from the merged counts"))
        pairs = []
        for case, want in (((True, True, False), False), ((True, True, True), True)):
            m, why = merged(case)
            pairs.append((None if m is None else (m == want), "%s: %s" % (_case_name(case), why or ("merged" if m else "not merged"))))
        chk.ob("R14.5", "_merge_last::needs-two-bins", _verdict([p[0] for p in pairs]), where,
               "nothing is merged when there is only one bin, and two are enough (%s)" % (first_msg([p for p in pairs if p[0] is not True]) or "as found"))

    # results stored
    pairs = []
    for case, r in runs.items():
        f, why = finals[case]
        if f is None:
            pairs.append((None, why))
            continue
        for state in [r.sd] + [m[1] for m in r.bs.merges]:
            h, v, npb = state.get("hist"), state.get("rev"), state.get("nperbin")
            ok = isinstance(h, DV) and isinstance(v, DV) and isinstance(npb, sp.Basic) and _eq(npb, NPB)
            pairs.append((None if (not ok and _not_followed(h, v, npb)) else bool(ok), "" if ok else "hist=%r rev=%r nperbin=%r" % (h, v, npb)))
    chk.ob("R14.5", "_hist_by_num::results-stored", _verdict([p[0] for p in pairs]), where,
           "hist / rev / nperbin are stored, before a merge reads them (%s)" % (first_msg(pairs) or "as found"))


def equal_occupancy(chk, repo):
    ms = Methods(repo)
    fi = repo.func(ms.by_num)
    chk.analysed_unit(fi.qualname)
    where = fi.where()
    ron = _hist_by_num_run(repo, fi, True, ms)
    roff = _hist_by_num_run(repo, fi, False, ms)
    both = (ron, roff)
    n = SIZE(WSORT)
    if not ron.bs.do_hist and not roff.bs.do_hist:
        # the histogram engine is not used: counts, reverse indices and limits are written down directly
        return _equal_occupancy_direct(chk, repo, fi, ms)

    # the engine call
    res, msg = [], ""
    for r in both:
        if r.error or len(r.bs.do_hist) != 1:
            res.append(None)
            msg = msg or (r.error or "%d calls of the histogram engine found" % len(r.bs.do_hist))[:200]
            continue
        bind, cond, rv = r.bs.do_hist[0]
        want = {"data": ARANGE(n), "dmin": sp.Integer(0), "sortind": ARANGE(n), "bsize": NPB}
        for p, w in want.items():
            g = bind.get(p)
            if isinstance(g, symx.Opaque) or g is None or not symx._is_expr(g):
                res.append(None)
                msg = msg or "%s not followed (%r)" % (p, g)
            else:
                ok = _eq3(g, w)
                res.append(ok)
                if not ok:
                    msg = ("%s is %s, expected %s" if ok is False else "%s not followed (%s), expected %s") % (p, g, w)
        g = bind.get("nbin")
        if not symx._is_expr(g):
            res.append(None)
            msg = msg or "nbin not followed (%r)" % (g,)
        else:
            okn = (_eq(g, sp.floor((n - 1) / NPB) + 1) or _eq(g, sp.ceiling(n / NPB))) or (None if _not_followed(g) else False)
            res.append(okn)
            if not okn:
                msg = "nbin is %s" % (g,)
        res.append(bind.get("rev") is True if isinstance(bind.get("rev"), bool) else None)
        res.append(_decide(cond, {}))
    chk.ob("R14.5", "_hist_by_num::positions-binned-by-count", _verdict(res), where,
           "sorted positions 0..n-1 are histogrammed with bin size nperbin into int((n-1)/nperbin)+1 bins, with reverse indices: every bin gets "
           "nperbin consecutive sorted data (%s)" % (msg or "as found"))

    # reverse indices mapped to the original frame; low / high
    res, msg = [], ""
    nonempty = _scen("some")
    for r in both:
        if r.error or len(r.bs.do_hist) != 1 or r.sd.tainted:
            res.append(None)
            msg = msg or (r.error or "engine call / object not followed: %s" % (r.bs.skipped[:2],))[:200]
            continue
        rv = r.bs.do_hist[0][2]
        if rv.tainted or rv.area is None or rv.other or (rv.escaped and not rv.stores):
            res.append(None)
            msg = msg or "the stores into the reverse indices were not recognised"
        else:
            ok = _eq3(rv.area, AT(WSORT, POS))
            res.append(ok)
            if not ok:
                msg = "the index area holds %s for the engine's position POS" % (rv.area,)
            for c, k in rv.stores:
                if k == "members":
                    lp = _verdict([_eq(nl, rv.nbin) for nl, _, _ in r.bs.loops]) if rv.nbin is not None else None
                    res.append(lp if lp else None)
                    t = _decide(c, nonempty)
                else:
                    t = _decide(c, {})
                res.append(t)
                if t is not True:
                    msg = msg or "the members are converted only under %s" % (c,)
        for q, sel in (("low", FIRST), ("high", LAST)):
            a = r.sd.get(q)
            if not isinstance(a, Arr) or a.tainted:
                res.append(None)
                msg = msg or "%s is not an array the analysis followed" % q
                continue
            try:
                got = a.value(nonempty)
                want = AT(XALL, AT(WSORT, sel))
                ok = _eq3(got, want)
                res.append(ok)
                if not ok:
                    msg = "%s of a non-empty bin is %s, expected %s" % (q, got, want)
            except Undecided as e:
                res.append(None)
                msg = msg or "%s: %s" % (q, e)
    chk.ob("R14.5", "_hist_by_num::reverse-indices-in-original-frame", _verdict(res), where,
           "each bin's sorted positions are mapped through the (limited) sort index to indices of the original array and written back; low/high are "
           "the first/last member's values (%s)" % (msg or "as found"))

    # merge condition
    res, msg = [], ""
    last = AT(HIST, -1)
    short, fullbin = {last: NPB - HPOS}, {last: NPB}
    if ron.error or roff.error:
        res.append(None)
        msg = (ron.error or roff.error)[:200]
    else:
        if len(ron.bs.merges) != 1:
            res.append(None)
            msg = "%d calls of the merge found with mergelast on" % len(ron.bs.merges)
        else:
            c = ron.bs.merges[0][0]
            t1, t2 = _decide(c, short), _decide(c, fullbin)
            res += [t1, None if t2 is None else (not t2)]
            if t1 is not True or t2 is not False:
                msg = "with mergelast on the merge happens under %s" % (c,)
        for c, _ in roff.bs.merges:
            t1, t2 = _decide(c, short), _decide(c, fullbin)
            res += [None if t1 is None else (not t1), None if t2 is None else (not t2)]
            if t1 is not False or t2 is not False:
                msg = "with mergelast off the merge happens under %s" % (c,)
    chk.ob("R14.5", "_hist_by_num::merge-condition", _verdict(res), where, "the last bin is merged exactly when it is short and mergelast is on (%s)" % (msg or "as found"))

    _merge_last_rules(chk, repo, where, ms, called=bool(ron.bs.merges or roff.bs.merges) or not repo.has(ms.merge) or bool(ron.error or roff.error))

    # results stored (before the merge reads them)
    res, msg = [], ""
    for r in both:
        if r.error or r.sd.tainted or len(r.bs.do_hist) != 1:
            res.append(None)
            msg = msg or (r.error or "engine call / object not followed")[:200]
            continue
        rv = r.bs.do_hist[0][2]
        for state in [r.sd] + [m[1] for m in r.bs.merges]:
            h, v, npb = state.get("hist"), state.get("rev"), state.get("nperbin")
            ok = isinstance(h, sp.Basic) and h == HIST and v is rv and isinstance(npb, sp.Basic) and _eq(npb, NPB)
            # a value the evaluator did not follow is not a wrong value
            res.append(None if (not ok and _not_followed(h, v, npb)) else bool(ok))
            if not ok:
                msg = "hist=%r rev=%r nperbin=%r" % (h, v, npb)
    chk.ob("R14.5", "_hist_by_num::results-stored", _verdict(res), where, "hist / rev / nperbin are stored, before a merge reads them (%s)" % (msg or "as found"))


# ---------------------------------------------------------------------------------------------------------------------------------
# the bin number inside the histogram engine.  Equal-occupancy binning hands the engine the sorted POSITIONS 0..n-1 (exact in float64),
# the minimum 0 and the bin size nperbin, and needs position r in bin floor(r / nperbin) for EVERY r and nperbin.  IEEE-754 gives
# that guarantee for exactly one way of computing the bin number: the truncation of the single, correctly rounded quotient
# (datum - min) / binsize in double precision (an integer quotient is exact; a non-integer one is more than half an ulp away from the
# next integer, so rounding never crosses it).  No other expression over datum, min and binsize has it: a product with a rounded
# reciprocal, a difference of two quotients, a detour through single precision or a rounding conversion can all land one bin off at a
# multiple of the bin size.  The rule therefore reads the bin number off the engine as an expression TREE over (datum, min, binsize) with
# locals and file-local helpers substituted by reaching definitions, and compares floating-point structure, not real-number algebra.
# ---------------------------------------------------------------------------------------------------------------------------------
_C_TU = "chist"
_C_FILE = "esutil/stat/chist_pywrap.c"
_C_PARSERS = {"PyArg_ParseTuple": 2, "PyArg_ParseTupleAndKeywords": 4}      # argument parser -> index of its first output argument
_R_DATA, _R_MIN, _R_SORT, _R_BSIZE, _R_HIST, _R_REV = range(6)             # places of chist(data, min, sort index, binsize, hist, rev)
_TRUNCATING = ("floor", "trunc")                                           # equal to the C conversion for the bins that are counted (>= 0)
_ROUNDING = ("lround", "llround", "lrint", "llrint", "round", "rint", "nearbyint", "ceil", "lroundf", "roundf", "ceilf", "rintf")
_ARITH = ("add", "sub", "mul", "div")
_C_PASS = ("ParenExpr", "ConstantExpr", "ExprWithCleanups", "MaterializeTemporaryExpr", "CXXBindTemporaryExpr")
_C_CASTS = ("ImplicitCastExpr", "CStyleCastExpr", "CXXStaticCastExpr", "CXXFunctionalCastExpr", "CXXReinterpretCastExpr", "CXXConstCastExpr")


def _ctype(n):
    t = (n.get("type") or {}).get("qualType", "")
    return " ".join(w for w in t.split() if w not in ("const", "volatile", "register"))


def _ckids(n):
    return [c for c in (n.get("inner") or []) if isinstance(c, dict) and c.get("kind")]


def _phi(trees):
    flat = []
    for t in trees:
        for a in (t[1:] if t[0] == "phi" else (t,)):
            if a not in flat:
                flat.append(a)
    return flat[0] if len(flat) == 1 else ("phi",) + tuple(sorted(flat, key=repr))


def _alts(t):
    return list(t[1:]) if t[0] == "phi" else [t]


def _children(t):
    for c in t[1:]:
        if isinstance(c, tuple):
            if c and isinstance(c[0], str):
                yield c
            else:
                for d in c:
                    if isinstance(d, tuple) and d and isinstance(d[0], str):
                        yield d


def _subtrees(t):
    yield t
    for c in _children(t):
        yield from _subtrees(c)


def _conversions(t):
    """the outermost floating-point -> integer conversions in a tree"""
    if t[0] == "f2i":
        return [t]
    return [s for c in _children(t) for s in _conversions(c)]


def _roles(t):
    return {s[1] for s in _subtrees(t) if s[0] == "arg"}


class _CFunc:
    """one C function: statement-level control-flow graph and the reaching definitions of its locals and parameters"""

    def __init__(self, decl):
        self.decl = decl
        self.name = decl.get("name")
        self.cfg = cfront.CCFG(decl)
        self.params = cfront.params_of(decl)
        self.locals = set(self.params) | {x["name"] for x in cfront.walk(cfront.body_of(decl)) if x.get("kind") == "VarDecl" and x.get("name")}
        self.gen = {self.cfg.entry.id: {p: ("param",) for p in self.params}}
        for n in self.cfg.nodes:
            if isinstance(n.c, dict) and n.kind != "case":
                d = self._defs(n.c)
                if d:
                    self.gen[n.id] = d
        g = self.cfg.g
        self.IN = {i: set() for i in g.nodes}
        out = {i: set() for i in g.nodes}
        work = list(g.nodes)
        while work:
            i = work.pop()
            cur = set()
            for p in g.predecessors(i):
                cur |= out[p]
            self.IN[i] = cur
            mine = self.gen.get(i, {})
            o = {(m, v) for (m, v) in cur if v not in mine} | {(i, v) for v in mine}
            if o != out[i]:
                out[i] = o
                work.extend(g.successors(i))

    def _defs(self, c):
        d = {}
        for x in cfront.walk(c):
            k = x.get("kind")
            if k == "DeclStmt":
                before = {}
                for v in _ckids(x):
                    if v.get("kind") == "VarDecl" and v.get("name"):
                        init = _ckids(v)
                        d[v["name"]] = ("init", init[-1], dict(before)) if init else ("uninit",)
                        before[v["name"]] = d[v["name"]]
            elif k == "BinaryOperator" and x.get("opcode") == "=":
                l = cfront.strip(x["inner"][0])
                if l.get("kind") == "DeclRefExpr":
                    d[cfront.render(l)] = ("init", x["inner"][1], {})
            elif k == "CompoundAssignOperator" or (k == "UnaryOperator" and x.get("opcode") in ("++", "--")):
                l = cfront.strip(x["inner"][0])
                if l.get("kind") == "DeclRefExpr":
                    d[cfront.render(l)] = ("update",)
            elif k == "CallExpr":
                name = cfront.callee_name(x)
                for pos, a in enumerate(_ckids(x)[1:]):
                    a = cfront.strip(a)
                    if a.get("kind") == "UnaryOperator" and a.get("opcode") == "&":
                        t = cfront.strip(a["inner"][0])
                        if t.get("kind") == "DeclRefExpr":
                            d[cfront.render(t)] = ("out", name, pos)
        return d


class _Ctx:
    def __init__(self, fn, bind, stack):
        self.fn, self.bind, self.stack = fn, bind, stack


class _CEngine:
    """expression trees of a C translation unit.  Leaves: ('arg', i) the i-th Python argument of the entry point, ('const', text),
    ('sym', name), ('param', f, p), ('unk', why).  Inner nodes: (add|sub|mul|div|mod, type, a, b), ('neg', type, a), ('f2i' | 'i2f' | 'fcast',
    type, a) the value-changing conversions, ('load', type, address), ('member', name, base), ('call', name, args), ('phi', alternatives...)
    where several definitions reach."""

    def __init__(self, decls):
        self.decls = cfront.functions(decls)
        self._fn = {}
        self._memo = {}
        self._keep = []
        self.stores = []           # (address tree, index tree or None, line)

    def fn(self, name):
        if name not in self._fn:
            self._fn[name] = _CFunc(self.decls[name])
        return self._fn[name]

    def entry(self):
        """the function that parses the Python arguments"""
        for name, d in self.decls.items():
            for x in cfront.walk(cfront.body_of(d)):
                if x.get("kind") == "CallExpr" and cfront.callee_name(x) in _C_PARSERS:
                    return name, x
        return None, None

    # -- values ---------------------------------------------------------------------------------------------------------------
    def var(self, name, ctx, nid, busy, before=None):
        if before and name in before:
            return self.payload(before[name], name, ctx, nid, busy)
        defs = sorted(m for (m, v) in ctx.fn.IN[nid] if v == name)
        if not defs:
            return ("unk", "no definition of %s reaches" % name)
        out = []
        for m in defs:
            key = (id(ctx), m, name)
            if key in busy:
                out.append(("unk", "%s depends on itself" % name))
                continue
            if key not in self._memo:
                self._memo[key] = self.payload(ctx.fn.gen[m][name], name, ctx, m, busy | {key})
            out.append(self._memo[key])
        return _phi(out)

    def payload(self, p, name, ctx, nid, busy):
        if p[0] == "param":
            return ctx.bind.get(name, ("param", ctx.fn.name, name))
        if p[0] == "init":
            return self.ev(p[1], ctx, nid, busy, p[2])
        if p[0] == "out" and p[1] in _C_PARSERS and not ctx.stack:
            return ("arg", p[2] - _C_PARSERS[p[1]])
        return ("unk", "%s: %s" % (name, p[0]))

    def ev(self, e, ctx, nid, busy=frozenset(), before=None):
        k = e.get("kind")
        kids = _ckids(e)
        rec = lambda x: self.ev(x, ctx, nid, busy, before)
        if k in _C_PASS and kids:
            return rec(kids[0])
        if k in _C_CASTS and kids:
            t = rec(kids[-1])
            ck = e.get("castKind")
            if ck == "FloatingToIntegral":
                return ("f2i", _ctype(e), t)
            if ck == "IntegralToFloating":
                return ("i2f", _ctype(e), t)
            if ck == "FloatingCast":
                return ("fcast", _ctype(e), t)
            if ck in ("FloatingToBoolean", "IntegralToBoolean", "PointerToBoolean"):
                return ("unk", ck)
            return t
        if k in ("IntegerLiteral", "FloatingLiteral"):
            return ("const", str(e.get("value")))
        if k == "DeclRefExpr":
            rd = e.get("referencedDecl", {})
            nm = rd.get("name", "?")
            if rd.get("kind") in ("VarDecl", "ParmVarDecl") and nm in ctx.fn.locals:
                return self.var(nm, ctx, nid, busy, before)
            return ("sym", nm)
        if k == "UnaryOperator" and kids:
            op = e.get("opcode")
            if op == "*":
                return ("load", _ctype(e), rec(kids[0]))
            if op == "-":
                return ("neg", _ctype(e), rec(kids[0]))
            if op == "+":
                return rec(kids[0])
            if op == "&":
                return ("sym", "&" + cfront.render(kids[0]))
            return ("unk", "operator " + str(op))
        if k == "BinaryOperator" and len(kids) == 2:
            op = e.get("opcode")
            if op in ("=", ","):
                return rec(kids[1])
            names = {"+": "add", "-": "sub", "*": "mul", "/": "div", "%": "mod"}
            if op in names:
                return (names[op], _ctype(e), rec(kids[0]), rec(kids[1]))
            return ("unk", "operator " + str(op))
        if k == "ArraySubscriptExpr" and len(kids) == 2:
            return ("load", _ctype(e), ("add", "ptr", rec(kids[0]), rec(kids[1])))
        if k == "MemberExpr" and kids:
            return ("member", e.get("name", "?"), rec(kids[0]))
        if k == "ConditionalOperator" and len(kids) == 3:
            return _phi([rec(kids[1]), rec(kids[2])])
        if k == "CallExpr" and kids:
            name = cfront.callee_name(e)
            args = tuple(rec(a) for a in kids[1:])
            if name in self.decls and name not in ctx.stack and name != ctx.fn.name and len(ctx.stack) < 6:
                return self.returned(self.callee_ctx(name, args, ctx))
            return ("call", name or cfront.render(kids[0]), args)
        if k in ("UnaryExprOrTypeTraitExpr", "StringLiteral", "CharacterLiteral", "GNUNullExpr", "ImplicitValueInitExpr"):
            return ("const", cfront.render(e))
        return ("unk", str(k))

    def callee_ctx(self, name, args, ctx):
        f = self.fn(name)
        c = _Ctx(f, dict(zip(f.params, args)), ctx.stack + (ctx.fn.name,))
        self._keep.append(c)
        return c

    def returned(self, ctx):
        out = []
        for n in ctx.fn.cfg.nodes:
            if n.kind == "return" and isinstance(n.c, dict):
                kids = _ckids(n.c)
                out.append(self.ev(kids[0], ctx, n.id) if kids else ("unk", "void"))
        return _phi(out) if out else ("unk", "no return in %s" % ctx.fn.name)

    # -- element stores -----------------------------------------------------------------------------------------------------
    def collect(self, ctx):
        for n in ctx.fn.cfg.nodes:
            if not isinstance(n.c, dict) or n.kind == "case":
                continue
            for x in cfront.walk(n.c):
                k = x.get("kind")
                if (k == "BinaryOperator" and x.get("opcode") == "=") or k == "CompoundAssignOperator" \
                        or (k == "UnaryOperator" and x.get("opcode") in ("++", "--")):
                    l = _ckids(x)[0]
                    while l.get("kind") in _C_PASS and _ckids(l):
                        l = _ckids(l)[0]
                    lk = _ckids(l)
                    if l.get("kind") == "ArraySubscriptExpr" and len(lk) == 2:
                        self.stores.append((self.ev(lk[0], ctx, n.id), self.ev(lk[1], ctx, n.id), x.get("line", 0)))
                    elif l.get("kind") == "UnaryOperator" and l.get("opcode") == "*" and lk:
                        self.stores.append((self.ev(lk[0], ctx, n.id), None, x.get("line", 0)))
                elif k == "CallExpr":
                    name = cfront.callee_name(x)
                    if name in self.decls and name not in ctx.stack and name != ctx.fn.name and len(ctx.stack) < 6:
                        args = tuple(self.ev(a, ctx, n.id) for a in _ckids(x)[1:])
                        self.collect(self.callee_ctx(name, args, ctx))


def _is_datum(t):
    """a floating-point element of the data array (the first argument of the engine); which element is not this rule's business"""
    return t[0] == "load" and t[1] in ("double", "float") and _R_DATA in _roles(t[2])


def _show_q(t):
    k = t[0]
    if _is_datum(t):
        return "datum"
    if k == "arg":
        return {_R_MIN: "min", _R_BSIZE: "binsize", _R_DATA: "data", _R_SORT: "sort", _R_HIST: "hist", _R_REV: "rev"}.get(t[1], "arg%s" % t[1])
    if k in _ARITH or k == "mod":
        return "(%s %s %s)" % (_show_q(t[2]), {"add": "+", "sub": "-", "mul": "*", "div": "/", "mod": "%"}[k], _show_q(t[3]))
    if k == "neg":
        return "-" + _show_q(t[2])
    if k in ("f2i", "fcast", "i2f"):
        return "(%s)%s" % (t[1], _show_q(t[2]))
    if k == "const":
        return str(t[1])
    if k == "call":
        return "%s(%s)" % (t[1], ", ".join(_show_q(a) for a in t[2]))
    if k == "phi":
        return " | ".join(_show_q(a) for a in t[1:])
    if k == "load":
        return "*(%s)" % _show_q(t[2])
    if k == "member":
        return "%s.%s" % (_show_q(t[2]), t[1])
    return str(t[1]) if len(t) > 1 else k


def _push_neg(t):
    """IEEE negation is exact: -(a - b) is b - a, -(a / b) and a / -b are (-a) / b"""
    k = t[0]
    if k == "neg":
        a = _push_neg(t[2])
        if a[0] == "sub":
            return ("sub", a[1], a[3], a[2])
        if a[0] == "div":
            return ("div", a[1], _push_neg(("neg", a[1], a[2])), a[3])
        if a[0] == "neg":
            return a[2]
        return ("neg", t[1], a)
    if k == "div":
        a, b = _push_neg(t[2]), _push_neg(t[3])
        if b[0] == "neg":
            return ("div", t[1], _push_neg(("neg", t[1], a)), b[2])
        return ("div", t[1], a, b)
    if k in _ARITH:
        return (k, t[1], _push_neg(t[2]), _push_neg(t[3]))
    return t


def _float_arith(t):
    """a floating-point expression over the datum, the minimum, the bin size and constants only: everything the bin number may depend on
    is in sight, so its floating-point structure can be judged"""
    k = t[0]
    if k in _ARITH:
        return _float_arith(t[2]) and _float_arith(t[3])
    if k in ("neg", "fcast"):
        return _float_arith(t[2])
    if k == "const":
        return True
    if k == "arg":
        return t[1] in (_R_MIN, _R_BSIZE)
    if k == "call":
        return (t[1] in _TRUNCATING or t[1] in _ROUNDING or t[1] in ("fabs",)) and all(_float_arith(a) for a in t[2])
    return _is_datum(t)


def _single(t):
    return any(s[0] in _ARITH + ("neg", "fcast", "load") and s[1] == "float" for s in _subtrees(t))


def _judge_quotient(q):
    """(verdict, text) for the floating-point value q whose truncation is used as the bin number"""
    while q[0] == "call" and q[1] in _TRUNCATING and len(q[2]) == 1:
        q = q[2][0]
    q = _push_neg(q)
    shown = _show_q(q)
    if q[0] == "phi":
        return None, "several definitions reach: " + shown
    if q[0] == "div" and q[1] in ("double", "long double") and q[2][0] == "sub" and q[2][1] == q[1] and _is_datum(q[2][2]) and q[2][2][1] == "double" \
            and q[2][3] == ("arg", _R_MIN) and q[3] == ("arg", _R_BSIZE):
        return True, shown
    if not _float_arith(q):
        return None, "not an expression over datum, min and binsize only: " + shown
    if _single(q):
        return False, "%s goes through single precision" % shown
    return False, "%s is not the one correctly rounded quotient (datum - min) / binsize" % shown


def _judge_bin_number(idx):
    """verdicts for an index into the array of counts"""
    out = []
    for a in _alts(idx):
        if a[0] == "f2i":
            out.append(_judge_quotient(a[2]))
        elif a[0] == "call" and a[1] in _ROUNDING and all(_float_arith(x) for x in a[2]):
            out.append((False, "%s rounds instead of truncating" % _show_q(a)))
        else:
            inner = _conversions(a)
            if not inner:
                out.append((None, "%s is not the conversion of a floating-point value" % _show_q(a)[:160]))
            out.extend(_judge_quotient(s[2]) for s in inner)
    return out


_BIN_TEXT = ("the %s engine's bin number must be the truncated, correctly rounded double quotient (datum - min) / binsize (found: %s); only then is "
             "the sorted position r of equal-occupancy binning counted in bin floor(r / nperbin) for every r and nperbin")


def _c_engine_bin_number(chk):
    key = "engine::c::bin-number-is-the-truncated-quotient"
    try:
        eng = _CEngine(cfront.load_tu(_C_TU))
        name, call = eng.entry()
        if name is None:
            return chk.ob("R14.5", key, None, _C_FILE, _BIN_TEXT % ("C", "the function that parses the Python arguments was not found"))
        where = "%s:%s" % (_C_FILE, eng.decls[name].get("line", 1))
        chk.analysed_unit(name)
        fmt = [a for a in _ckids(call)[1:] if cfront.strip(a).get("kind") == "StringLiteral"]
        units = fmt and str(cfront.strip(fmt[0]).get("value", "")).strip('"').split(":")[0].split(";")[0]
        if not fmt or any(u not in "Odf|$" for u in units) or [u for u in units if u in "Odf"][:4] != ["O", "d", "O", "d"]:
            return chk.ob("R14.5", key, None, where, _BIN_TEXT % ("C", "argument format %r: data, min, sort index, binsize are not (object, double, object, double)" % (units,)))
        root = _Ctx(eng.fn(name), {}, ())
        eng.collect(root)
    except (AnalysisError, RecursionError, KeyError, IndexError) as e:
        return chk.ob("R14.5", key, None, _C_FILE, _BIN_TEXT % ("C", "the C source was not followed: %s" % (str(e)[:200],)))
    res, msgs, line = [], [], None
    for addr, idx, ln in eng.stores:
        r = _roles(addr)
        if _R_HIST in r and _R_REV not in r:
            line = line or ln
            for ok, m in _judge_bin_number(idx if idx is not None else addr):
                res.append(ok)
                if ok is not True:
                    msgs.insert(0 if ok is False else len(msgs), m)
    if not res:
        res, msgs = [None], ["no store into the array of counts was recognised"]
    if line:
        where = "%s:%s" % (_C_FILE, line)
    chk.ob("R14.5", key, _verdict(res), where, _BIN_TEXT % ("C", msgs[0] if msgs else "as found"))


_PY_INT = ("int64", "int", "intp", "int_", "longlong", "i8")
_PY_DOUBLE = ("float", "float64", "double", "f8", "asarray", "ascontiguousarray", "array", "atleast_1d")
_PY_SINGLE = ("float32", "single", "float16", "half", "f4", "f2")


def _py_type_name(e):
    if isinstance(e, ast.Constant) and isinstance(e.value, str):
        return e.value.lstrip("<>=")
    return (dotted_name(e) or "?").split(".")[-1]


def _py_rebound(fn_node, name, array=False):
    """is the parameter given another value in the function (an in-place update `name op= ...` of an array keeps the object)"""
    aug = {id(n.target) for n in ast.walk(fn_node) if isinstance(n, ast.AugAssign)} if array else ()
    return any(isinstance(n, ast.Name) and n.id == name and isinstance(n.ctx, ast.Store) and id(n) not in aug for n in ast.walk(fn_node))


def _py_tree(e, fn_node, roles, busy=frozenset()):
    """the same trees for the Python fallback engine (flow-insensitive: every assignment of a name is an alternative; a selection of a
    name's own elements assigned back to it adds no value)"""
    rec = lambda x: _py_tree(x, fn_node, roles, busy)
    if isinstance(e, ast.Constant) and isinstance(e.value, (int, float)) and not isinstance(e.value, bool):
        return ("const", repr(e.value))
    if isinstance(e, ast.Name):
        if e.id in roles:
            return ("unk", "%s is assigned" % e.id) if _py_rebound(fn_node, e.id, roles[e.id] == _R_HIST) else ("arg", roles[e.id])
        stores = [n for n in ast.walk(fn_node) if isinstance(n, ast.Name) and n.id == e.id and isinstance(n.ctx, ast.Store)]
        if e.id in busy:
            return ("self", e.id)
        plain = {id(n.targets[0]): n.value for n in ast.walk(fn_node)
                 if isinstance(n, ast.Assign) and len(n.targets) == 1 and isinstance(n.targets[0], ast.Name) and n.targets[0].id == e.id}
        if not stores or any(id(s) not in plain for s in stores):
            return ("unk", "%s is not a plainly assigned local" % e.id)
        alts = [_py_tree(v, fn_node, roles, busy | {e.id}) for v in plain.values()]
        rest = [a for a in alts if a != ("self", e.id)]
        return _phi(rest) if rest else ("unk", "%s depends on itself" % e.id)
    if isinstance(e, ast.BinOp) and type(e.op) in (ast.Add, ast.Sub, ast.Mult, ast.Div):
        return ({ast.Add: "add", ast.Sub: "sub", ast.Mult: "mul", ast.Div: "div"}[type(e.op)], "double", rec(e.left), rec(e.right))
    if isinstance(e, ast.UnaryOp) and isinstance(e.op, ast.USub):
        return ("neg", "double", rec(e.operand))
    if isinstance(e, ast.UnaryOp) and isinstance(e.op, ast.UAdd):
        return rec(e.operand)
    if isinstance(e, ast.Subscript):
        base = rec(e.value)
        if base[0] == "self":
            return base
        return ("load", "double", ("add", "ptr", base, rec(e.slice)))
    if isinstance(e, ast.Call):
        nm = (dotted_name(e.func) or "").split(".")[-1]
        if isinstance(e.func, ast.Attribute) and e.func.attr == "astype" and e.args:
            a, nm = rec(e.func.value), _py_type_name(e.args[0])
        elif len(e.args) == 1 and not e.keywords or nm in _PY_DOUBLE and e.args:
            a = rec(e.args[0])
        else:
            return ("call", nm or "?", tuple(rec(x) for x in e.args))
        if nm in _PY_INT:
            return ("f2i", "int64", a)
        if nm in _PY_DOUBLE:
            return a
        if nm in _PY_SINGLE:
            return ("fcast", "float", a)
        if nm in _TRUNCATING or nm in _ROUNDING or nm == "around":
            return ("call", "round" if nm == "around" else nm, (a,))
        return ("call", nm or "?", (a,))
    return ("unk", type(e).__name__)


def _py_count_sinks(repo, fi, roles, seen):
    """[(verdict, text, statement)] for everything a Python engine function adds to the array of counts: element stores under a bin number,
    whole-array updates from numpy.bincount of the bin numbers, numpy.add.at, and the same in the repo functions the array is handed on to"""
    out = []
    hist = {p for p, r in roles.items() if r == _R_HIST}
    is_hist = lambda x: isinstance(x, ast.Name) and x.id in hist
    for s in ast.walk(fi.node):
        ts = s.targets if isinstance(s, ast.Assign) else [s.target] if isinstance(s, ast.AugAssign) else []
        for t in ts:
            whole = is_hist(t) or (isinstance(t, ast.Subscript) and is_hist(t.value) and isinstance(t.slice, ast.Slice))
            if isinstance(t, ast.Subscript) and is_hist(t.value) and not whole:
                out += [(ok, m, s) for ok, m in _judge_bin_number(_py_tree(t.slice, fi.node, roles))]
            elif whole and isinstance(s, ast.AugAssign) or whole and isinstance(t, ast.Subscript):
                v = _py_tree(s.value, fi.node, roles)
                calls = [c for c in _subtrees(v) if c[0] == "call" and c[1] == "bincount" and c[2]]
                if not calls:
                    out.append((None, "the counts added are %s" % _show_q(v)[:160], s))
                for c in calls:
                    out += [(ok, m, s) for ok, m in _judge_bin_number(c[2][0])]
        if isinstance(s, ast.Call):
            d = dotted_name(s.func) or ""
            if d.endswith("add.at") and len(s.args) >= 2 and is_hist(s.args[0]):
                out += [(ok, m, s) for ok, m in _judge_bin_number(_py_tree(s.args[1], fi.node, roles))]
                continue
            q = repo.resolve_name(fi.module, d) if d and "." not in d else None
            if q and repo.has(q) and q not in seen and any(is_hist(a) for a in list(s.args) + [k.value for k in s.keywords]):
                callee = repo.func(q)
                bound = dict(zip(callee.params, s.args))
                bound.update({k.arg: k.value for k in s.keywords if k.arg})
                sub = {p: roles[a.id] for p, a in bound.items() if isinstance(a, ast.Name) and a.id in roles
                       and not _py_rebound(fi.node, a.id, roles[a.id] == _R_HIST)}
                if {_R_DATA, _R_MIN, _R_BSIZE, _R_HIST} <= set(sub.values()):
                    out += _py_count_sinks(repo, callee, sub, seen | {q})
                else:
                    out.append((None, "the array of counts is handed to %s, which was not followed" % callee.name, s))
    return out


def _py_engine_bin_number(chk, repo):
    """the pure-Python engine the wrapper falls back on when the compiled routine is not available: the function called from the engine
    wrapper with the arguments of the compiled routine"""
    ms = Methods(repo)
    if not repo.has(ms.engine):
        return
    dh = repo.func(ms.engine)
    ccalls = [n for n in ast.walk(dh.node) if isinstance(n, ast.Call) and (dotted_name(n.func) or "").endswith(_ENGINE_ENTRY)]
    cargs = [norm(a) for a in ccalls[0].args] if len(ccalls) == 1 and not ccalls[0].keywords else None
    key = "engine::python::bin-number-is-the-truncated-quotient"
    for n in ast.walk(dh.node):
        if not isinstance(n, ast.Call) or n in ccalls:
            continue
        d = dotted_name(n.func)
        q = repo.resolve_name(dh.module, d) if d and "." not in d else None
        if not q or not repo.has(q):
            continue
        fi = repo.func(q)
        bound = dict(zip(fi.params, n.args))
        bound.update({k.arg: k.value for k in n.keywords if k.arg})
        if cargs is not None:
            roles = {p: cargs.index(norm(a)) for p, a in bound.items() if norm(a) in cargs}
        else:
            roles = {p: i for i, p in enumerate(fi.params[:6])}
        if not {_R_DATA, _R_MIN, _R_BSIZE, _R_HIST} <= set(roles.values()):
            continue
        chk.analysed_unit(fi.qualname)
        sinks = _py_count_sinks(repo, fi, roles, frozenset({q}))
        where = fi.where()
        if not sinks:
            sinks = [(None, "no store into the array of counts was recognised", fi.node)]
        bad = [x for x in sinks if x[0] is False] or [x for x in sinks if x[0] is None]
        if bad:
            where = "%s:%s" % (where.rsplit(":", 1)[0], getattr(bad[0][2], "lineno", where.rsplit(":", 1)[1]))
        chk.ob("R14.5", key, _verdict([x[0] for x in sinks]), where, _BIN_TEXT % ("Python", bad[0][1] if bad else "as found"))
        return


def engine_bin_number(chk, repo):
    _c_engine_bin_number(chk)
    _py_engine_bin_number(chk, repo)


# ---------------------------------------------------------------------------------------------------------------------------------
# the options reach the code that implements them: histogram() -> Binner(...).dohist(...) -> the methods of Binner
# ---------------------------------------------------------------------------------------------------------------------------------
OPTIONS = ("binsize", "nbin", "nperbin", "min", "max", "rev", "mergelast")       # public options of histogram() and Binner.dohist()
CTOR_ROLES = {"x": "data", "weights": "weights"}                                  # Binner.__init__ parameter <- histogram() parameter


def _positional(fi, drop_self):
    a = fi.node.args
    ps = [x.arg for x in a.posonlyargs + a.args]
    static = any(isinstance(x, ast.Name) and x.id == "staticmethod" for x in fi.node.decorator_list)
    return ps[1:] if drop_self and not static else ps


def _all_params(fi):
    a = fi.node.args
    return [x.arg for x in a.posonlyargs + a.args + a.kwonlyargs]


class _Deps:
    """flow-insensitive data dependence inside one function: the parameters a value may derive from.  An over-approximation (every
    assignment to a name counts wherever it stands, a parameter that is reassigned still counts as itself), so `does not depend on`
    is definite."""

    def __init__(self, fi):
        self.fi = fi
        self.params = set(_all_params(fi))
        a = fi.node.args
        if a.vararg:
            self.params.add(a.vararg.arg)
        if a.kwarg:
            self.params.add(a.kwarg.arg)
        self.defs = {}           # local name -> expressions that flow into it
        for n in ast.walk(fi.node):
            if isinstance(n, ast.Assign):
                for t in n.targets:
                    self._target(t, n.value)
            elif isinstance(n, (ast.AugAssign, ast.AnnAssign)) and n.value is not None:
                self._target(n.target, n.value)
            elif isinstance(n, ast.NamedExpr):
                self._target(n.target, n.value)
            elif isinstance(n, (ast.For, ast.comprehension)):
                self._target(n.target, n.iter)
            elif isinstance(n, ast.With):
                for it in n.items:
                    if it.optional_vars is not None:
                        self._target(it.optional_vars, it.context_expr)
            elif isinstance(n, ast.Call) and isinstance(n.func, ast.Attribute):
                # a method called on a local (opts.update(rev=...), lst.append(x)) may fold its arguments into it
                b = n.func.value
                while isinstance(b, (ast.Attribute, ast.Subscript)):
                    b = b.value
                if isinstance(b, ast.Name):
                    for x in list(n.args) + [k.value for k in n.keywords]:
                        self.defs.setdefault(b.id, []).append(x)
        self._memo = {}

    def _target(self, t, value):
        if isinstance(t, ast.Name):
            self.defs.setdefault(t.id, []).append(value)
        elif isinstance(t, (ast.Tuple, ast.List)):
            for x in t.elts:
                self._target(x, value)
        elif isinstance(t, ast.Starred):
            self._target(t.value, value)
        elif isinstance(t, (ast.Subscript, ast.Attribute)):
            b = t
            while isinstance(b, (ast.Attribute, ast.Subscript)):
                b = b.value
            if isinstance(b, ast.Name):
                self.defs.setdefault(b.id, []).append(value)

    def of_name(self, name, busy=None):
        if name in self._memo:
            return self._memo[name]
        busy = busy if busy is not None else set()
        if name in busy:
            return set()
        busy.add(name)
        out = {name} if name in self.params else set()
        for e in self.defs.get(name, []):
            out |= self.of(e, busy)
        busy.discard(name)
        if not busy:
            self._memo[name] = out
        return out

    def of(self, e, busy=None):
        out = set()
        for n in ast.walk(e):
            if isinstance(n, ast.Name) and isinstance(n.ctx, ast.Load):
                out |= self.of_name(n.id, busy)
        return out

    def loads(self, name):
        return [n for n in ast.walk(self.fi.node) if isinstance(n, ast.Name) and n.id == name and isinstance(n.ctx, ast.Load)]


def _keyword_dict(fi, e):
    """the entries of a dictionary passed as **e: {key: value expression}, or None when it is not a literal the function builds"""
    if isinstance(e, ast.Dict):
        if all(isinstance(k, ast.Constant) and isinstance(k.value, str) for k in e.keys):
            return {k.value: v for k, v in zip(e.keys, e.values)}
        return None
    if isinstance(e, ast.Call) and isinstance(e.func, ast.Name) and e.func.id == "dict" and not e.args and all(k.arg for k in e.keywords):
        return {k.arg: k.value for k in e.keywords}
    if isinstance(e, ast.Name):
        out, found = {}, False
        for n in ast.walk(fi.node):
            if isinstance(n, ast.Assign) and any(isinstance(t, ast.Name) and t.id == e.id for t in n.targets):
                d = _keyword_dict(fi, n.value) if not isinstance(n.value, ast.Name) else None
                if d is None or found:
                    return None
                out.update(d)
                found = True
        if not found:
            return None
        for n in ast.walk(fi.node):
            if isinstance(n, ast.Assign):
                for t in n.targets:
                    if isinstance(t, ast.Subscript) and isinstance(t.value, ast.Name) and t.value.id == e.id:
                        if isinstance(t.slice, ast.Constant) and isinstance(t.slice.value, str):
                            out[t.slice.value] = n.value
                        else:
                            return None
            elif isinstance(n, ast.Call) and isinstance(n.func, ast.Attribute) and isinstance(n.func.value, ast.Name) and n.func.value.id == e.id:
                return None      # opts.update(...), opts.pop(...): not followed
        return out
    return None


def _bind(fi, call, callee, drop_self):
    """callee parameter -> argument expression of this call (None: the call uses * / ** forms that are not followed)"""
    pos = _positional(callee, drop_self)
    names = set(_all_params(callee))
    bound = {}
    for k, a in enumerate(call.args):
        if isinstance(a, ast.Starred):
            return None
        if k < len(pos):
            bound[pos[k]] = a
    for kw in call.keywords:
        if kw.arg is None:
            d = _keyword_dict(fi, kw.value)
            if d is None:
                return None
            bound.update(d)
        else:
            bound[kw.arg] = kw.value
    return {p: a for p, a in bound.items() if p in names}


def _binner_calls(repo, fi):
    """calls made in `fi` that are resolved to the constructor or to a method of Binner: (call, callee FuncInfo, is constructor)"""
    cls = ST + "Binner"
    mod = fi.module

    def is_ctor(e):
        if isinstance(e, ast.Call):
            d = dotted_name(e.func)
            return bool(d) and repo.resolve_name(mod, d) == cls
        return False

    instances = set()
    if fi.cls == "Binner" and fi.qualname.startswith(cls + ".") and _positional(fi, False):
        instances.add(_positional(fi, False)[0])            # self
    for n in ast.walk(fi.node):
        if isinstance(n, ast.Assign) and is_ctor(n.value):
            instances |= {t.id for t in n.targets if isinstance(t, ast.Name)}
    out = []
    for n in ast.walk(fi.node):
        if not isinstance(n, ast.Call):
            continue
        if is_ctor(n) and repo.has(cls + ".__init__"):
            out.append((n, repo.func(cls + ".__init__"), True))
        elif isinstance(n.func, ast.Attribute) and repo.has(cls + "." + n.func.attr):
            r = n.func.value
            if (isinstance(r, ast.Name) and r.id in instances) or is_ctor(r):
                out.append((n, repo.func(cls + "." + n.func.attr), False))
    return out


def _is_copy(deps, e, busy=None):
    """the value of e is one of the values of the names/constants it mentions, unchanged (a name, a constant, and/or/not, a
    conditional expression, bool(...)): no arithmetic, no call that computes something new"""
    busy = busy if busy is not None else set()
    if isinstance(e, ast.Constant):
        return True
    if isinstance(e, ast.Name):
        if e.id in busy:
            return True
        busy.add(e.id)
        ok = all(_is_copy(deps, d, busy) for d in deps.defs.get(e.id, [])) and (e.id in deps.params or bool(deps.defs.get(e.id)))
        busy.discard(e.id)
        return ok
    if isinstance(e, ast.BoolOp):
        return all(_is_copy(deps, v, busy) for v in e.values)
    if isinstance(e, ast.IfExp):
        return _is_copy(deps, e.body, busy) and _is_copy(deps, e.orelse, busy)
    if isinstance(e, ast.UnaryOp) and isinstance(e.op, ast.Not):
        return _is_copy(deps, e.operand, busy)
    if isinstance(e, ast.Call) and isinstance(e.func, ast.Name) and e.func.id == "bool" and len(e.args) == 1 and not e.keywords:
        return _is_copy(deps, e.args[0], busy)
    return False


def _plumb(repo, fi, options, ctor_roles=None):
    """per option of `fi`: how each call into Binner that has a parameter of the same meaning is fed: (kind, where, text) with kind
    P: a value that derives from the option; X: a plain copy of other option(s); D: the callee's default or a constant;
    C: something computed from other values; U: arguments not followed"""
    deps = _Deps(fi)
    per = {o: [] for o in options}
    argnodes = {o: set() for o in options}
    for call, callee, ctor in _binner_calls(repo, fi):
        if callee is fi and not ctor:
            continue
        cparams = set(_all_params(callee))
        roles = dict(ctor_roles or {}) if ctor else {o: o for o in options}
        roles = {p: o for p, o in roles.items() if p in cparams and o in per}
        if not roles:
            continue
        bound = _bind(fi, call, callee, True)
        w = fi.where(call)
        cn = norm(call.func)
        for p, o in roles.items():
            if bound is None:
                per[o].append(("U", w, "the arguments of `%s(...)` are not followed" % cn))
                continue
            if p not in bound:
                per[o].append(("D", w, "`%s(...)` leaves its parameter `%s` at the default" % (cn, p)))
                continue
            e = bound[p]
            argnodes[o] |= {id(n) for n in ast.walk(e)}
            src = deps.of(e)
            others = sorted(x for x in src if x in options and x != o)
            if o in src:
                per[o].append(("P", w, ""))
            elif _is_copy(deps, e) and others:
                per[o].append(("X", w, "`%s(...)` receives `%s` for its parameter `%s`: the value of the option `%s`, not of `%s`"
                               % (cn, norm(e), p, "`, `".join(others), o)))
            elif _is_copy(deps, e) and not src:
                per[o].append(("D", w, "`%s(...)` receives the constant `%s` for its parameter `%s`" % (cn, norm(e), p)))
            else:
                per[o].append(("C", w, "`%s(...)` receives `%s` for its parameter `%s`" % (cn, norm(e), p)))
    return deps, per, argnodes


def option_plumbing(chk, repo):
    """R14.6: the property is stated for every value of the options, through Binner.dohist and through histogram().  An option can
    only have its documented effect if the value the caller passed is what arrives at the parameter of the same meaning one level
    down: (a) a parameter that is fed a plain copy of an option must be fed the option of its own name, not another one's;
    (b) a public option must not be cut off (neither passed on nor read anywhere)."""
    units = []
    if repo.has(ST + "histogram"):
        units.append((repo.func(ST + "histogram"), OPTIONS + tuple(sorted(set(CTOR_ROLES.values()))), CTOR_ROLES, True))
    for q, fi in sorted(repo.funcs.items()):
        if fi.cls == "Binner" and q.startswith(ST + "Binner.") and fi.name != "__init__":
            opts = tuple(o for o in OPTIONS if o in _all_params(fi))
            if opts:
                units.append((fi, opts, None, fi.name == "dohist"))
    if not any(u[3] for u in units):
        chk.ob("R14.6", "options::entry-points", None, "", "neither histogram() nor Binner.dohist() with the public options was found")
        return
    for fi, opts, roles, public in units:
        chk.analysed_unit(fi.qualname)
        deps, per, argnodes = _plumb(repo, fi, opts, roles)
        for o in opts:
            got = per[o]
            kinds = {g[0] for g in got}
            first = lambda k: [g for g in got if g[0] == k][0]
            read_elsewhere = [n for n in deps.loads(o) if id(n) not in argnodes[o]]
            if "X" in kinds:
                ok, (_, where, msg) = False, first("X")
            elif "U" in kinds:
                ok, (_, where, msg) = None, first("U")
            elif "P" in kinds and "D" not in kinds:
                ok, where, msg = True, first("P")[1], "passed on in %d call(s)" % len([g for g in got if g[0] == "P"])
            elif "P" in kinds:
                ok, (_, where, msg) = None, first("D")
                msg += " while another call passes the option on"
            elif not read_elsewhere and public:
                where = first("D")[1] if "D" in kinds else fi.where()
                ok, msg = False, "the option is cut off: %s" % (first("D")[2] if "D" in kinds else "the parameter is never read")
                if not deps.loads(o):
                    msg += " and `%s` is not read anywhere in %s()" % (o, fi.name)
            elif "D" in kinds and public:
                ok, (_, where, msg) = None, first("D")
                msg += ", the option is read elsewhere in %s()" % fi.name
            elif public and not got:
                ok, where, msg = None, fi.where(), "`%s` is read in %s() but not passed to Binner code with a parameter of that name" % (o, fi.name)
            else:
                continue          # a helper that consumes the value itself, or passes on something it computed from it
            chk.ob("R14.6", "options::%s::%s" % (fi.name, o), ok, where,
                   "the option `%s` of %s() arrives at the parameter of the same meaning in the Binner code it calls (%s)" % (o, fi.name, msg))


# ---------------------------------------------------------------------------------------------------------------------------------
# the reverse indices the statistics loop reads
# ---------------------------------------------------------------------------------------------------------------------------------
# instance of checks.C05.engines -> what it means for this property.  Every rule on calc_stats above reads bin i as the slice
# rev[rev[i]:rev[i+1]] and takes rev[i] == rev[i+1] for "empty": that is the layout BOTH engines must produce (Binner uses the
# compiled one when it can be imported and the Python one otherwise).
_LAYOUT = {
    "engine::py::every-offset-is-stored": "every offset rev[0..nbin] is written by the Python engine (an entry left at its initial 0 makes an empty bin look populated)",
    "engine::c::every-offset-is-stored": "every offset rev[0..nbin] is written by the compiled engine (an entry left at its initial 0 makes an empty bin look populated)",
    "engine::every-sorted-index-stored-at-its-offset": "the index area holds the sorted data indices one after the other, so a bin's slice is its members",
    "engine::state::last-occupied-bin": "the engine remembers the last bin that received a datum, from which the offsets still to be written are counted",
    "engine::bin-offsets-filled-up-to-current-bin": "when a datum opens bin b the offsets of ALL bins after the previously occupied one up to b are set to that "
                                                    "datum's place: the empty bins skipped in between get rev[t] == rev[t+1] and keep the sentinel statistics",
    "engine::tail-fill-found": "the offsets of the bins behind the last occupied one are written after the pass, so trailing empty bins are empty slices",
    "engine::tail-fill-is-end-of-counted-data": "the offsets behind the last occupied bin are the end of the counted data, so the last occupied bin's slice is exactly its members",
}
_LAYOUT_REQUIRED = tuple(k for k in _LAYOUT if k != "engine::tail-fill-is-end-of-counted-data")
_LAYOUT_DIFF = ("engines::python-only-effect::store/P5", "engines::c-only-effect::store/P5")     # P5: the reverse-index array


class _Layout:
    """stands in for the Check object while C05's analysis of the two histogram engines runs: the instances that say what the
    engines write into the reverse-index array are reported under this property's rule, the others (counts, ABI) are C05's alone"""

    def __init__(self, chk):
        self._chk = chk
        self.seen = set()
        self.notes = {}

    def ob(self, rule, key, ok, where="", msg="", **kw):
        if key in _LAYOUT:
            self.seen.add(key)
            return self._chk.ob("R14.9", "engine::reverse-index-layout::" + key.split("::", 1)[1], ok, where, "%s: %s" % (_LAYOUT[key], msg))
        if key in _LAYOUT_DIFF and ok is False:
            return self._chk.ob("R14.9", "engine::reverse-index-layout::" + key.split("::", 1)[1], False, where,
                                "the compiled and the Python engine write the same reverse indices (Binner uses whichever is available): %s" % msg)
        return bool(ok)

    def obt(self, rule, key, ok, fi, where="", msg="", **kw):
        return self.ob(rule, key, ok, where or (fi[0] if isinstance(fi, (list, tuple)) else fi).where(), msg)

    def assume(self, *a, **kw):
        return None

    def analysed_unit(self, *a, **kw):
        return None

    def __getattr__(self, name):
        return getattr(self._chk, name)


def engine_layout(chk):
    """R14.9: the premise of R14.1 / R14.2 (members of bin i = rev[rev[i]:rev[i+1]], an empty bin has rev[i] == rev[i+1] and keeps the
    sentinel) decided on the engines themselves by the guarded-effect analysis that check C05 defines (checks.C05.engines)."""
    px = _Layout(chk)
    try:
        from checks import C05 as _c05
        repo = PyRepo()
        py = repo.func(ST + "_dohist")
        cfn = cfront.functions(cfront.load_tu(_C_TU))["PyCHist_chist"]
        _c05.engines(px, repo, py, cfn)
        err = None
    except Exception as e:           # the analysis of the engines is not available / did not get through: no verdict
        err = "%s: %s" % (type(e).__name__, str(e)[:200])
    for key in sorted(set(_LAYOUT_REQUIRED) - px.seen):
        chk.ob("R14.9", "engine::reverse-index-layout::" + key.split("::", 1)[1], None, "", "%s: the analysis of the engines gave no result for this (%s)"
               % (_LAYOUT[key], err or "instance not produced"))


# ---------------------------------------------------------------------------------------------------------------------------------
# every run starts from an empty result dictionary
# ---------------------------------------------------------------------------------------------------------------------------------
_ALL = "*"
_ITER_OF_KEYS = ("list", "tuple", "sorted", "set", "frozenset")
_DICT_MUTATORS = ("update", "setdefault", "popitem", "__setitem__", "__delitem__", "clear", "pop")


def _xpref_aliases(fi, me):
    """local names that only ever hold self.xpref"""
    out, other = set(), set()
    for n in ast.walk(fi.node):
        if isinstance(n, ast.Assign):
            for t in n.targets:
                for x in ast.walk(t):
                    if isinstance(x, ast.Name) and isinstance(x.ctx, ast.Store):
                        if len(n.targets) == 1 and x is t and isinstance(n.value, ast.Attribute) and isinstance(n.value.value, ast.Name) \
                                and n.value.value.id == me and n.value.attr == "xpref":
                            out.add(x.id)
                        else:
                            other.add(x.id)
        elif isinstance(n, (ast.AugAssign, ast.AnnAssign, ast.For, ast.comprehension, ast.NamedExpr)):
            for x in ast.walk(n.target):
                if isinstance(x, ast.Name) and isinstance(x.ctx, ast.Store):
                    other.add(x.id)
    return out - other - set(_all_params(fi))


def _key_pattern(e, me, xal):
    """a dictionary key as a pattern: string constants joined with {xpref} where the object's prefix stands; None: not recognised"""
    if isinstance(e, ast.Constant) and isinstance(e.value, str):
        return e.value
    if isinstance(e, ast.Attribute) and isinstance(e.value, ast.Name) and e.value.id == me and e.attr == "xpref":
        return XP
    if isinstance(e, ast.Name) and e.id in xal:
        return XP
    if isinstance(e, ast.BinOp) and isinstance(e.op, ast.Add):
        a, b = _key_pattern(e.left, me, xal), _key_pattern(e.right, me, xal)
        return None if a is None or b is None else a + b
    return None


def _is_me_sub(t, me):
    return isinstance(t, ast.Subscript) and isinstance(t.value, ast.Name) and t.value.id == me


def _stmt_key_stores(st, me, xal):
    """patterns of the keys a statement binds in the object (self[k] = ..., self[k] op= ...); None among them: a key not recognised"""
    from vcheck.core import walk_no_nested
    out = []
    for n in walk_no_nested(st):
        ts = n.targets if isinstance(n, ast.Assign) else [n.target] if isinstance(n, (ast.AugAssign, ast.AnnAssign)) else \
            [n.target] if isinstance(n, (ast.For, ast.comprehension)) else [i.optional_vars for i in n.items if i.optional_vars is not None] \
            if isinstance(n, ast.With) else []
        for t in ts:
            for x in (t.elts if isinstance(t, (ast.Tuple, ast.List)) else [t]):
                if isinstance(x, ast.Starred):
                    x = x.value
                if _is_me_sub(x, me):
                    out.append(_key_pattern(x.slice, me, xal))
    return out


def _me_calls(st, me):
    from vcheck.core import walk_no_nested
    return [n for n in walk_no_nested(st) if isinstance(n, ast.Call) and isinstance(n.func, ast.Attribute) and isinstance(n.func.value, ast.Name)
            and n.func.value.id == me]


def _removal_nodes(st, me):
    """syntax nodes that take keys out of the object"""
    from vcheck.core import walk_no_nested
    out = []
    for n in walk_no_nested(st):
        if isinstance(n, ast.Delete) and any(_is_me_sub(t, me) for t in n.targets):
            out.append(n)
        elif isinstance(n, ast.Call) and isinstance(n.func, ast.Attribute) and n.func.attr in ("clear", "pop", "popitem", "__delitem__"):
            v = n.func.value
            if (isinstance(v, ast.Name) and v.id == me) or (isinstance(v, ast.Name) and v.id == "dict" and n.args and isinstance(n.args[0], ast.Name)
                                                            and n.args[0].id == me):
                out.append(n)
    return out


def _removed_by(st, me, xal, fi, consts):
    """the keys ONE statement removes from the object whatever its state: _ALL, a set of key patterns, or None when the statement is
    not one of the recognised forms (clear(); dict.clear(self); del self[k]; self.pop(k, default); `if k in self:` around one of them;
    a loop over a literal collection of keys or over a copy of the object's own keys around one of them; while self: self.popitem())"""
    def one_key(body, var):
        """the key expression the single statement of `body` removes"""
        if len(body) != 1:
            return None
        b = body[0]
        if isinstance(b, ast.If) and not b.orelse and isinstance(b.test, ast.Compare) and len(b.test.ops) == 1 and isinstance(b.test.ops[0], ast.In) \
                and isinstance(b.test.comparators[0], ast.Name) and b.test.comparators[0].id == me:
            k = one_key(b.body, var)
            return k if k is not None and norm(k) == norm(b.test.left) else None
        if isinstance(b, ast.Delete) and len(b.targets) == 1 and _is_me_sub(b.targets[0], me):
            return b.targets[0].slice
        if isinstance(b, ast.Expr) and isinstance(b.value, ast.Call):
            c = b.value
            if isinstance(c.func, ast.Attribute) and isinstance(c.func.value, ast.Name) and c.func.value.id == me and c.func.attr == "pop" \
                    and len(c.args) == 2 and not c.keywords:
                return c.args[0]
        return None

    if isinstance(st, ast.Expr) and isinstance(st.value, ast.Call):
        c = st.value
        if isinstance(c.func, ast.Attribute) and c.func.attr == "clear" and not c.keywords:
            v = c.func.value
            if isinstance(v, ast.Name) and v.id == me and not c.args:
                return _ALL
            if isinstance(v, ast.Name) and v.id == "dict" and len(c.args) == 1 and isinstance(c.args[0], ast.Name) and c.args[0].id == me:
                return _ALL
    if isinstance(st, ast.While) and not st.orelse and isinstance(st.test, ast.Name) and st.test.id == me and len(st.body) == 1 \
            and isinstance(st.body[0], ast.Expr) and isinstance(st.body[0].value, ast.Call) and norm(st.body[0].value.func) == me + ".popitem":
        return _ALL
    if isinstance(st, ast.Delete) and all(_is_me_sub(t, me) for t in st.targets):
        ks = [_key_pattern(t.slice, me, xal) for t in st.targets]
        return None if None in ks else set(ks)
    k = one_key([st], None)
    if k is not None and not isinstance(st, ast.Delete):
        kp = _key_pattern(k, me, xal)
        return None if kp is None else {kp}
    if isinstance(st, ast.For) and not st.orelse and isinstance(st.target, ast.Name):
        k = one_key(st.body, st.target.id)
        if not (isinstance(k, ast.Name) and k.id == st.target.id):
            return None
        it = st.iter
        if isinstance(it, ast.Call) and isinstance(it.func, ast.Name) and it.func.id in _ITER_OF_KEYS and len(it.args) == 1 and not it.keywords:
            a = it.args[0]
            if (isinstance(a, ast.Name) and a.id == me) or (isinstance(a, ast.Call) and not a.args and norm(a.func) == me + ".keys"):
                return _ALL                 # every key of a copy of the object's own keys
            it = a if isinstance(a, (ast.Tuple, ast.List, ast.Set, ast.Name)) else it
        if isinstance(it, ast.Name):
            defs = [n.value for n in ast.walk(fi.node) if isinstance(n, ast.Assign) and any(isinstance(t, ast.Name) and t.id == it.id for t in n.targets)]
            if len(defs) == 1:
                it = defs[0]
            elif not defs and it.id in consts and it.id not in _all_params(fi):
                it = consts[it.id]
        if isinstance(it, (ast.Tuple, ast.List, ast.Set)):
            ks = [_key_pattern(x, me, xal) for x in it.elts]
            return None if None in ks else set(ks)
    return None


class _MustStore:
    """keys bound on EVERY path through a method that ends normally (a path that raises reports nothing): structured walk, both arms
    of a test intersected, loop bodies not counted (they may run zero times), methods of the object followed"""

    def __init__(self, ms, me_of):
        self.ms, self.me_of = ms, me_of
        self.unknown = False            # a construct the walk does not model holds a store
        self.busy = set()
        self.memo = {}

    def of_method(self, name):
        if name in self.memo:
            return self.memo[name]
        if name in self.busy or name not in self.ms:
            return set()
        self.busy.add(name)
        fi = self.ms[name]
        me = self.me_of(fi)
        xal = _xpref_aliases(fi, me) if me else set()
        exits = []
        end = self.walk(fi.node.body, set(), exits, me, xal)
        if end is not None:
            exits.append(end)
        r = set.intersection(*exits) if exits else None      # None: no path ends normally
        self.busy.discard(name)
        self.memo[name] = r
        return r

    def simple(self, st, cur, me, xal):
        cur = set(cur)
        if me is None:
            return cur
        cur |= {k for k in _stmt_key_stores(st, me, xal) if k is not None}
        for c in _me_calls(st, me):
            if c.func.attr in self.ms:
                r = self.of_method(c.func.attr)
                if r is None:
                    return None          # the callee never returns
                cur |= r
        return cur

    def walk(self, stmts, cur, exits, me, xal):
        for st in stmts:
            if isinstance(st, ast.Return):
                cur = self.simple(st, cur, me, xal)
                if cur is not None:
                    exits.append(cur)
                return None
            if isinstance(st, ast.Raise):
                return None
            if isinstance(st, ast.If):
                head = self.simple(ast.Expr(value=st.test), cur, me, xal)
                if head is None:
                    return None
                a = self.walk(st.body, set(head), exits, me, xal)
                b = self.walk(st.orelse, set(head), exits, me, xal)
                if a is None and b is None:
                    return None
                cur = a if b is None else b if a is None else (a & b)
            elif isinstance(st, (ast.For, ast.While)):
                self.walk(st.body, set(cur), exits, me, xal)
                self.walk(st.orelse, set(cur), exits, me, xal)
            elif isinstance(st, (ast.Try, ast.With, ast.AsyncWith, ast.AsyncFor)) or type(st).__name__ in ("Match", "TryStar"):
                if me is not None and (_stmt_key_stores(st, me, xal) or any(c.func.attr in self.ms for c in _me_calls(st, me))):
                    self.unknown = True
            elif isinstance(st, (ast.FunctionDef, ast.AsyncFunctionDef, ast.ClassDef)):
                continue
            else:
                cur = self.simple(st, cur, me, xal)
                if cur is None:
                    return None
        return cur


def _result_key_patterns():
    out = {"hist", "rev", "nperbin", "low", "high"}
    out |= {k for k, _, _, _ in STATKEYS.values()} | {k for k, _ in EDGEKEYS.values()}
    return out


def fresh_results(chk, repo):
    """R14.8: one Binner is documented to be binned again and again (dohist(binsize=) ... dohist(nbin=) ... dohist(nperbin=)), and which
    result keys a run writes depends on its options (nperbin / rev / second variable / weights / calc_stats); calc_stats moreover tests
    keys for presence.  So what the dictionary reports after a run is the run's own result only if dohist, before it produces
    anything, removes every result key that the run does not bind on all of its paths."""
    q = ST + "Binner.dohist"
    if not repo.has(q):
        chk.ob("R14.8", "dohist::starts-from-empty-results", None, "", "Binner.dohist was not found")
        return
    fi = repo.func(q)
    chk.analysed_unit(fi.qualname)
    ms = {f.name: f for qq, f in repo.funcs.items() if f.cls == "Binner" and qq.startswith(ST + "Binner.")}

    def me_of(f):
        ps = _positional(f, False)
        static = any(isinstance(x, ast.Name) and x.id in ("staticmethod", "classmethod") for x in f.node.decorator_list)
        return ps[0] if ps and not static else None

    me = me_of(fi)
    where = fi.where()
    text = ("Binner.dohist starts every run from an empty result dictionary: before it produces anything it removes every result key "
            "that the run does not bind again on all of its paths (%s)")
    if me is None:
        chk.ob("R14.8", "dohist::starts-from-empty-results", None, where, text % "dohist has no instance parameter")
        return
    xal = _xpref_aliases(fi, me)
    consts = getattr(fi.module, "consts", {}) or {}
    consts = {k: v for k, v in consts.items() if isinstance(v, ast.AST)}
    # 1. what the leading statements remove
    removed, counted, unrecognised = set(), [], ""
    body = list(fi.node.body)
    if body and isinstance(body[0], ast.Expr) and isinstance(body[0].value, ast.Constant) and isinstance(body[0].value.value, str):
        body = body[1:]
    for st in body:
        r = _removed_by(st, me, xal, fi, consts)
        if r is None and isinstance(st, ast.Expr) and isinstance(st.value, ast.Call) and st.value in _me_calls(st, me) \
                and st.value.func.attr in ms and st.value.func.attr != fi.name:
            # a method of the object that does nothing but remove keys
            h = ms[st.value.func.attr]
            hme = me_of(h)
            hb = [x for x in h.node.body if not (isinstance(x, ast.Expr) and isinstance(x.value, ast.Constant))]
            hr = [_removed_by(x, hme, _xpref_aliases(h, hme), h, consts) for x in hb] if hme else [None]
            if hb and None not in hr:
                r = _ALL if _ALL in hr else set().union(*hr)
        if r is not None:
            counted += _removal_nodes(st, me)
            if r == _ALL:
                removed = _ALL
            elif removed != _ALL:
                removed |= r
            continue
        if _removal_nodes(st, me):
            unrecognised = "the removal `%s` at %s is not one of the recognised forms" % (_src(st).split("\n")[0][:80], fi.where(st))
            break
        if _stmt_key_stores(st, me, xal) or any(c.func.attr in ms or c.func.attr in _DICT_MUTATORS for c in _me_calls(st, me)):
            break                       # the run begins to produce results here
    left = [n for n in _removal_nodes(fi.node, me) if not any(n is c for c in counted)]
    if not unrecognised and left:
        unrecognised = "keys are also removed at %s, after the run has begun or under a condition" % fi.where(left[0])
    if removed == _ALL and not unrecognised:
        chk.ob("R14.8", "dohist::starts-from-empty-results", True, where, text % "the whole dictionary is cleared first")
        return
    # 2. the keys the methods bind, the keys a run binds on all its paths, the keys tested for presence
    bound, unknown_key, tested = {}, "", set()
    for name, f in sorted(ms.items()):
        fme = me_of(f)
        if fme is None or name == "__init__":
            continue
        fx = _xpref_aliases(f, fme)
        for n in ast.walk(f.node):
            if isinstance(n, ast.stmt) and not isinstance(n, (ast.FunctionDef, ast.If, ast.For, ast.While, ast.Try, ast.With)):
                for k in _stmt_key_stores(n, fme, fx):
                    if k is None:
                        unknown_key = unknown_key or "%s() binds a key that is not a constant at %s" % (name, f.where(n))
                    else:
                        bound.setdefault(k, f.where(n))
            if isinstance(n, ast.Compare) and len(n.ops) == 1 and isinstance(n.ops[0], (ast.In, ast.NotIn)) \
                    and isinstance(n.comparators[0], ast.Name) and n.comparators[0].id == fme:
                k = _key_pattern(n.left, fme, fx)
                if k is not None:
                    tested.add(k)
            if isinstance(n, ast.Call) and isinstance(n.func, ast.Attribute) and isinstance(n.func.value, ast.Name) and n.func.value.id == fme \
                    and n.func.attr in ("update", "setdefault", "__setitem__"):
                unknown_key = unknown_key or "%s() fills the object through %s() at %s" % (name, n.func.attr, f.where(n))
    must = _MustStore(ms, me_of)
    always = must.of_method(fi.name)
    if always is None or must.unknown:
        chk.ob("R14.8", "dohist::starts-from-empty-results", None, where,
               text % "which keys a run always binds could not be decided (stores inside try / with, or no path that ends normally)")
        return
    prefixes = set()
    for f in ms.values():
        fme = me_of(f)
        for n in ast.walk(f.node):
            if isinstance(n, ast.Assign) and any(isinstance(t, ast.Attribute) and isinstance(t.value, ast.Name) and t.value.id == fme and t.attr == "xpref"
                                                 for t in n.targets):
                prefixes.add(n.value.value if isinstance(n.value, ast.Constant) and isinstance(n.value.value, str) else None)

    def is_removed(k):
        if removed == _ALL or k in removed:
            return True
        if XP in k and prefixes and None not in prefixes:
            return all(k.replace(XP, p) in removed for p in prefixes)
        return False

    relevant = _result_key_patterns() | tested
    stale = sorted(k for k in bound if k in relevant and k not in always and not is_removed(k))
    if stale and not unrecognised:
        shown = ", ".join("'%s'" % k.replace(XP, "<xpref>") for k in stale[:8]) + (" ..." if len(stale) > 8 else "")
        how = ("only %s removed" % ", ".join("'%s'" % k for k in sorted(removed))) if removed else "nothing is removed"
        t = [k for k in stale if k in tested]
        chk.ob("R14.8", "dohist::starts-from-empty-results", False, where,
               text % ("%s at the start of dohist, so a second run on the same Binner keeps the previous run's %s (bound only on some paths, e.g. at %s)%s%s"
                       % (how, shown, bound[stale[0]],
                          ("; %s tested for presence and steer%s the next calc_stats" % (", ".join("'%s'" % k for k in t), "s" if len(t) == 1 else "")) if t else "",
                          ("; " + unrecognised) if unrecognised else "")))
        return
    if unrecognised or unknown_key:
        chk.ob("R14.8", "dohist::starts-from-empty-results", None, where, text % (unrecognised or unknown_key))
        return
    chk.ob("R14.8", "dohist::starts-from-empty-results", True, where,
           text % ("every key not bound on all paths is removed first: %s" % ", ".join(sorted(k.replace(XP, "<xpref>") for k in removed))))


# ---------------------------------------------------------------------------------------------------------------------------------
# which data are binned
# ---------------------------------------------------------------------------------------------------------------------------------
# R05.4 instance of checks.C05.limits -> what it means for this property
_SELECTED = {
    "limits::inclusive-conjunction": "the members of the bins are drawn from exactly the data with min <= x <= max, a datum equal to a limit included",
    "limits::filtered-sort-index": "the limited sort index the bins are cut from is the stable sort index restricted to the data within the limits",
    "limits::filter-applied-when-a-limit-is-given": "data outside a given limit are in no bin",
}


class _Selected:
    """stands in for the Check object while C05's analysis of the limits runs: the instances that say which data reach the binning
    are reported under this property's rule, the others (binning origin, defaults, state carried between calls) are C05's alone"""

    def __init__(self, chk):
        self._chk = chk
        self.seen = set()

    def ob(self, rule, key, ok, where="", msg="", **kw):
        if key in _SELECTED:
            self.seen.add(key)
            return self._chk.ob("R14.7", "selected-data::" + key.split("::", 1)[1], ok, where, "%s: %s" % (_SELECTED[key], msg))
        return bool(ok)

    def obt(self, rule, key, ok, fi, where="", msg="", **kw):
        return self.ob(rule, key, ok, where or (fi[0] if isinstance(fi, (list, tuple)) else fi).where(), msg)

    def __getattr__(self, name):
        return getattr(self._chk, name)


def selected_data(chk):
    """R14.7: every statement of the property is about "the members of each bin" and, for equal-occupancy binning, about runs of
    nperbin consecutive sorted data: of the data within [min, max], both ends included (min / max: "value to include in histogram").
    The rules above start from the limited sort index; this one decides that the limited sort index holds exactly those data, on
    every path of the method that stores it and for every combination of given / absent limits."""
    px = _Selected(chk)
    try:
        from checks import C05 as _c05
        _c05.limits(px, PyRepo())
        err = None
    except Exception as e:           # the analysis of the limits is not available / did not get through: no verdict
        err = "%s: %s" % (type(e).__name__, str(e)[:200])
    for key in sorted(set(_SELECTED) - px.seen):
        chk.ob("R14.7", "selected-data::" + key.split("::", 1)[1], None, "", "%s: the analysis of the limits gave no result for this (%s)"
               % (_SELECTED[key], err or "instance not produced"))
