"""C14 -- per-bin statistics and equal-occupancy bins equal direct computation."""
import ast

import sympy as sp

from vcheck import rules, symx
from vcheck.core import PyRepo, AnalysisError, call_name, dotted_name, kwarg, norm, walk_no_nested
from vcheck.rules import cfg_of

MANIFEST = dict(
    text="Formula conformance by symbolic normal forms plus structural rules (not numerical testing): the statistics loop body is "
         "abstractly interpreted with the bin's index set as an element-wise selection and reductions as uninterpreted functionals; the "
         "general arm must equal the documented definitions (mean, std, std/sqrt(n), median; with weights sum(w), sum(w x)/sum(w), weighted "
         "deviation and both error estimates through the weighted-moment routine, for the binned and the second variable); the "
         "single-member arm must equal the general arm specialised to n = 1 for every quantity the property constrains for one member "
         "(mean, median, deviation, summed weight, weighted mean and deviation); result arrays start at the documented sentinel (-9999; "
         "summed weight 0) and are written only under the non-empty-bin guard; bin edges/centres are min + i*binsize (+ binsize, + "
         "binsize/2); the result-key table is conditioned on weights / second variable; equal-occupancy binning maps the engine's reverse "
         "indices through the sort index to the original frame and takes low/high from the first/last member.",
    note="Not decided: numerical equality, the index arithmetic of the last-bin merge beyond its three simple stores. Trusted: numpy "
         "reductions, sympy normaliser.",
    technique="static analysis: abstract interpretation over a symbolic term domain (reductions as uninterpreted functionals), special-case consistency by term rewriting, control-dependence rules",
)

ST = "esutil.stat.util."
F = {n: sp.Function(n) for n in ("MEAN", "STD", "MEDIAN", "SUM")}


# rules that keep their verdict however the code is laid out (decided by term equality, effect analysis or dominance over
# resolved calls); every other rule of this check is a template rule (vcheck.core.Check.obt)
SEMANTIC = ('R14.1', 'R14.5')


def run(chk):
    repo = PyRepo()
    chk.set_templates(repo, semantic=SEMANTIC)
    chk.explanation = MANIFEST["text"]
    chk.trusted = ["numpy reductions", "sympy normaliser", "CPython ast"]
    chk.floor = 45
    fi = repo.func(ST + "Binner.calc_stats")
    chk.analysed_unit(fi.qualname)
    arms(chk, repo, fi)
    sentinels(chk, fi)
    edges(chk, repo, fi)
    keys(chk, fi)
    equal_occupancy(chk, repo)


def _loop_and_arms(fi):
    loops = [x for x in walk_no_nested(fi.node) if isinstance(x, ast.For) and norm(x.iter) == "range(nhist)"]
    if len(loops) != 1:
        raise AnalysisError("statistics loop over range(nhist) not found in calc_stats")
    lp = loops[0]
    guard = [s for s in lp.body if isinstance(s, ast.If)]
    if len(guard) != 1:
        raise AnalysisError("non-empty-bin guard not found")
    g = guard[0]
    inner = [s for s in g.body if isinstance(s, ast.If)]
    sel = [s for s in g.body if isinstance(s, ast.Assign)]
    if len(inner) != 1:
        raise AnalysisError("single-member / general arms not found")
    return lp, g, sel, inner[0]


def _eval_arm(repo, fi, stmts, sel):
    se = symx.SymEval(repo, opaque_tests=False)
    se.assume = {"call:isscalar": True, "text:not np.isscalar(werr) and len(werr) < ndim": False,
                 "text:self.y is not None": True, "text:self.weights is not None": True}
    env = symx.Env(se, fi, fi.module, {}, {})
    X, Y, W = symx.symbols("X", "Y", "W")
    env.vars["self.x"], env.vars["self.y"], env.vars["self.weights"] = X, Y, W
    env.vars["i"] = sp.Symbol("i", integer=True)
    env.vars["w"] = symx.Mask(sp.true)
    for nm in ("xmean", "xstd", "xerr", "xmedian", "ymean", "ystd", "yerr", "ymedian", "whist", "wxmean", "wxstd", "wxerr", "wxerr2",
               "wymean", "wystd", "wyerr", "wyerr2"):
        env.vars[nm] = sp.Symbol("A_" + nm)
    env.exec_body(stmts, sp.true)
    out = {}
    for (arr, idx), v in env.elem.items():
        if idx == "i":
            out[arr] = v
    return out, (X, Y, W)


def _specialise_n1(e):
    """general-arm term with exactly one member: reductions collapse"""
    e = sp.sympify(e)
    e = e.replace(lambda t: isinstance(t, (F["MEAN"], F["MEDIAN"], F["SUM"])), lambda t: t.args[0])
    e = e.replace(lambda t: isinstance(t, F["STD"]), lambda t: sp.Integer(0))
    e = e.subs(sp.Symbol("NSEL", positive=True, integer=True), 1)
    return sp.simplify(e)


def arms(chk, repo, fi):
    lp, g, sel, inner = _loop_and_arms(fi)
    ok = norm(g.test) == "revind[i] != revind[i + 1]" and len(sel) == 1 and norm(sel[0]) == "w = revind[revind[i]:revind[i + 1]]"
    chk.ob("R14.1", "calc_stats::members-from-reverse-indices", ok, fi.where(g), "a non-empty bin's members are rev[rev[i]:rev[i+1]] (guard %s)" % norm(g.test))
    chk.ob("R14.1", "calc_stats::single-member-test", norm(inner.test) == "w.size == 1", fi.where(inner), "the special arm is taken for exactly one member")
    gen, (X, Y, W) = _eval_arm(repo, fi, inner.orelse, sel)
    one, _ = _eval_arm(repo, fi, inner.body, sel)
    N = sp.Symbol("NSEL", positive=True, integer=True)
    SUM, MEAN, STD, MED = F["SUM"], F["MEAN"], F["STD"], F["MEDIAN"]

    def wm(v):
        return SUM(W * v) / SUM(W)
    ref = {
        "xmean": MEAN(X), "xstd": STD(X), "xerr": STD(X) / sp.sqrt(N), "xmedian": MED(X),
        "ymean": MEAN(Y), "ystd": STD(Y), "yerr": STD(Y) / sp.sqrt(N), "ymedian": MED(Y),
        "whist": SUM(W),
        "wxmean": wm(X), "wxstd": sp.sqrt(SUM(W * (X - wm(X)) ** 2) / SUM(W)), "wxerr": 1 / sp.sqrt(SUM(W)),
        "wxerr2": sp.sqrt(SUM(W ** 2 * (X - wm(X)) ** 2)) / SUM(W),
        "wymean": wm(Y), "wystd": sp.sqrt(SUM(W * (Y - wm(Y)) ** 2) / SUM(W)), "wyerr": 1 / sp.sqrt(SUM(W)),
        "wyerr2": sp.sqrt(SUM(W ** 2 * (Y - wm(Y)) ** 2)) / SUM(W),
    }
    for k, r in ref.items():
        got = gen.get(k)
        eq = got is not None and symx.equal(got, r)[0]
        chk.ob("R14.1", "calc_stats[general]::%s" % k, bool(eq), fi.where(inner), "%s of a bin with several members is %s (found %s)" % (k, r, got))
    # special-case consistency: single-member arm == general arm at n = 1, for the quantities constrained for one member
    for k in ("xmean", "xstd", "xmedian", "ymean", "ystd", "ymedian", "whist", "wxmean", "wxstd", "wymean", "wystd"):
        want = _specialise_n1(ref[k])
        got = one.get(k)
        eq = got is not None and symx.equal(sp.simplify(got), want)[0]
        chk.ob("R14.1", "calc_stats[single]::%s" % k, bool(eq), fi.where(inner),
               "for a single member %s must equal the general definition specialised to n=1, i.e. %s (found %s)" % (k, want, got))


def sentinels(chk, fi):
    fn = fi.node
    env = {}
    for a in walk_no_nested(fn):
        if isinstance(a, ast.Assign) and isinstance(a.targets[0], ast.Name):
            env.setdefault(a.targets[0].id, []).append(norm(a.value))
    ok = env.get("xmean", [""])[0] == "np.zeros(nhist) - 9999.0"
    chk.ob("R14.2", "calc_stats::sentinel-prototype", ok, fi.where(), "the prototype result array is zeros(nhist) - 9999 (%s)" % env.get("xmean"))
    arrs = ["xstd", "xerr", "xmedian", "ymean", "ystd", "yerr", "ymedian", "wxmean", "wxstd", "wxerr", "wxerr2", "wymean", "wystd", "wyerr", "wyerr2", "whist"]
    bad = [a for a in arrs if env.get(a, [""])[0] != "xmean.copy()"]
    chk.ob("R14.2", "calc_stats::all-results-start-at-sentinel", not bad, fi.where(), "every result array starts as a copy of the sentinel prototype (%s)" % bad)
    wz = [a for a in walk_no_nested(fn) if isinstance(a, ast.Assign) and norm(a) == "whist[:] = 0"]
    chk.ob("R14.2", "calc_stats::summed-weight-starts-at-zero", len(wz) == 1, fi.where(), "the summed weight of an empty bin is 0")
    # element stores only under the non-empty guard
    lp, g, sel, inner = _loop_and_arms(fi)
    stores = [a for a in ast.walk(lp) if isinstance(a, ast.Assign) and isinstance(a.targets[0], ast.Subscript) and norm(a.targets[0].slice) == "i"]
    inside = [a for a in ast.walk(g) if isinstance(a, ast.Assign) and isinstance(a.targets[0], ast.Subscript) and norm(a.targets[0].slice) == "i"]
    chk.ob("R14.2", "calc_stats::stores-only-for-non-empty-bins", len(stores) == len(inside) and len(stores) >= 30, fi.where(lp), "all %d element stores are under the non-empty-bin guard: empty bins keep the sentinel" % len(stores))


def edges(chk, repo, fi):
    cfg = cfg_of(fi)
    view = cfg.view()
    se = symx.SymEval(repo, opaque_tests=False)
    env = symx.Env(se, fi, fi.module, {}, {})
    dmin, bs, nh = symx.symbols("dmin", "binsize", "nhist")
    env.vars["self.dmin"] = dmin
    env.vars["self"] = {"binsize": bs}
    env.vars["nhist"] = nh
    stmts = [n.ast for n in cfg.nodes if n.kind == "stmt" and isinstance(n.ast, ast.Assign) and norm(n.ast.targets[0]) in ("low", "high", "center")]
    env.exec_body(stmts, sp.true)
    I = sp.Function("ARANGE")(nh)
    ref = {"low": dmin + I * bs, "high": dmin + I * bs + bs, "center": dmin + I * bs + bs / 2}
    for k, r in ref.items():
        got = env.vars.get(k)
        eq = got is not None and symx._is_expr(got) and symx.equal(got, r)[0]
        chk.ob("R14.3", "calc_stats::%s" % k, bool(eq), fi.where(), "bin %s is %s (found %s)" % (k, r, got))
    for n in cfg.nodes:
        if n.kind == "stmt" and isinstance(n.ast, ast.Assign) and norm(n.ast.targets[0]) == "low" and "arange" in norm(n.ast.value):
            ts = dict(rules.controlling_tests(view, n, skip_reject_guards=True))
            chk.ob("R14.3", "calc_stats::edges-only-for-regular-bins", ts.get("'nperbin' in self") == "F", fi.where(n.ast), "regular edges are computed only for binsize/nbin histograms (equal-occupancy bins get theirs from the members)")


def keys(chk, fi):
    cfg = cfg_of(fi)
    view = cfg.view()
    table = {}
    for n in cfg.nodes:
        a = n.ast
        if n.kind == "stmt" and isinstance(a, ast.Assign) and isinstance(a.targets[0], ast.Subscript) and norm(a.targets[0].value) == "self" and isinstance(a.value, ast.Name):
            ts = dict(rules.controlling_tests(view, n, skip_reject_guards=True))
            table[norm(a.targets[0].slice)] = (a.value.id, ts.get("self.y is not None"), ts.get("self.weights is not None"))
    want = {
        "xpref + 'mean'": ("xmean", None, None), "xpref + 'std'": ("xstd", None, None), "xpref + 'err'": ("xerr", None, None), "xpref + 'median'": ("xmedian", None, None),
        "'ymean'": ("ymean", "T", None), "'ystd'": ("ystd", "T", None), "'yerr'": ("yerr", "T", None), "'ymedian'": ("ymedian", "T", None),
        "'whist'": ("whist", None, "T"), "'w' + xpref + 'mean'": ("wxmean", None, "T"), "'w' + xpref + 'std'": ("wxstd", None, "T"),
        "'w' + xpref + 'err'": ("wxerr", None, "T"), "'w' + xpref + 'err2'": ("wxerr2", None, "T"),
        "'wymean'": ("wymean", "T", "T"), "'wystd'": ("wystd", "T", "T"), "'wyerr'": ("wyerr", "T", "T"), "'wyerr2'": ("wyerr2", "T", "T"),
        "xpref + 'low'": ("low", None, None), "xpref + 'high'": ("high", None, None), "xpref + 'center'": ("center", None, None),
    }
    for k, w in want.items():
        chk.ob("R14.4", "calc_stats::key::%s" % k, table.get(k) == w, fi.where(), "result key %s holds %s under (second variable: %s, weights: %s) -- found %s" % (k, w[0], w[1], w[2], table.get(k)))


def equal_occupancy(chk, repo):
    fi = repo.func(ST + "Binner._hist_by_num")
    chk.analysed_unit(fi.qualname)
    fn = fi.node
    env = {}
    for a in walk_no_nested(fn):
        if isinstance(a, ast.Assign):
            env.setdefault(norm(a.targets[0]), []).append(norm(a.value))
    ok = env.get("ind") == ["np.arange(self['wsort'].size)"] and env.get("bsize") == ["float(nperbin)"] and env.get("nbin") == ["np.int64((indmax - indmin) / bsize) + 1"] \
        and env.get("indmax") == ["ind[-1]"] and env.get("indmin") == ["0"]
    chk.ob("R14.5", "_hist_by_num::positions-binned-by-count", ok, fi.where(), "sorted positions 0..n-1 are histogrammed with bin size nperbin: every bin gets nperbin consecutive sorted data")
    loops = [x for x in walk_no_nested(fn) if isinstance(x, ast.For)]
    ok = False
    if len(loops) == 1:
        lp = loops[0]
        g = [s for s in lp.body if isinstance(s, ast.If)]
        if len(g) == 1 and norm(g[0].test) == "rev[i] != rev[i + 1]":
            body = [norm(s) for s in g[0].body]
            ok = body == ["w = rev[rev[i]:rev[i + 1]]", "w = self['wsort'][w]", "rev[rev[i]:rev[i + 1]] = w", "self['low'][i] = self.x[w[0]]", "self['high'][i] = self.x[w[-1]]"]
    chk.ob("R14.5", "_hist_by_num::reverse-indices-in-original-frame", ok, fi.where(),
           "each bin's sorted positions are mapped through the (limited) sort index to indices of the original array and written back; low/high are the first/last member's values")
    cfg = cfg_of(fi)
    view = cfg.view()
    mc = [(n, c) for n in cfg.nodes for c in rules.stmts_calls(n) if call_name(c) == "_merge_last"]
    ok = len(mc) == 1 and rules.controlling_tests(view, mc[0][0])[:1] == [("hist[-1] != nperbin and mergelast", "T")]
    chk.ob("R14.5", "_hist_by_num::merge-condition", ok, fi.where(), "the last bin is merged exactly when it is short and mergelast is on")
    ml = repo.func(ST + "Binner._merge_last")
    chk.analysed_unit(ml.qualname)
    st = [norm(a) for a in walk_no_nested(ml.node) if isinstance(a, ast.Assign)]
    need = ["hist[-1] = self['hist'][-2] + self['hist'][-1]", "low[-1] = self['low'][-2]", "high[-1] = self['high'][-1]"]
    chk.ob("R14.5", "_merge_last::merged-bin-count-and-limits", all(n in st for n in need), ml.where(), "merged bin: counts added, low from the predecessor, high from the last bin")
    cfgm = cfg_of(ml)
    okg = any(rules.controlling_tests(cfgm.view(), n)[:1] == [("nbin < 2", "T")] for n in rules.return_nodes(cfgm))
    chk.ob("R14.5", "_merge_last::needs-two-bins", okg, ml.where(), "nothing is merged when there is only one bin")
    st2 = {norm(a.targets[0]): norm(a.value) for a in walk_no_nested(fn) if isinstance(a, ast.Assign) and norm(a.targets[0]).startswith("self[")}
    chk.ob("R14.5", "_hist_by_num::results-stored", st2.get("self['hist']") == "hist" and st2.get("self['rev']") == "rev" and st2.get("self['nperbin']") == "nperbin", fi.where(), "hist / rev / nperbin are stored")
