"""C15 -- non-in-place calls never modify the arrays passed to them.

Flagship of the effect analysis (E2): for every (public function, array
parameter) pair of the scope table the check decides that no mutation sink is
reachable from the parameter through alias chains and resolved callees,
including the C/C++ extension entry points.
"""
import ast

from vcheck import effects, rules
from vcheck.cfg import NOTNONE
from vcheck.core import PyRepo, AnalysisError, norm
from vcheck.ctable import c_summaries

MANIFEST = dict(
    text="Interprocedural may-alias / effect analysis (not a behavioural proof; a sound-by-construction over-approximation of "
         "buffer sharing for the idioms the repository uses): for each of ~120 (public function, array parameter, option "
         "combination) cases it decides, for all inputs at once, that no write (subscript/attribute store, in-place operator, "
         "out= argument, in-place method, C/C++ store through an accessor pointer, fread/fscanf destination) can reach a buffer "
         "that may be shared with the caller's argument, following views, no-copy conversions, tuple packing, object attributes "
         "set by constructors, resolved package callees (summaries specialised on literal option values) and the extension "
         "entry points (summaries computed from the clang AST). Documented in-place APIs are an explicit exemption table.",
    note="Trusted: the library semantics table (which numpy calls return fresh arrays / views / write to out=), SWIG naming "
         "convention, clang AST. Unresolved callees are assumed pure and counted in the evidence; the run fails as analysis-broken "
         "if their number inside scoped functions rises above the hand-confirmed ceiling. Values, dtype and flags identity follow "
         "from 'no sink reachable'; nothing numerical is claimed.",
    technique="static analysis: interprocedural flow-sensitive alias/effect (ownership) analysis over Python ast CFGs with C/C++ effect summaries from the clang AST",
)

# (qualified function, array parameters in scope, option combinations to specialise on)
B = [False, True]
SCOPE = [
    # record files
    ("esutil.recfile.Util.write", ["data"], [{}]),
    ("esutil.recfile.Util.Recfile.write", ["data"], [{"self.is_ascii": False}, {"self.is_ascii": True}]),
    ("esutil.sfile.write", ["data", "outfile"], [{}]),
    ("esutil.sfile.SFile.write", ["data", "header"], [{}]),
    ("esutil.io.write", ["data"], [{}]),
    ("esutil.io.write_rec", ["data"], [{}]),
    ("esutil.recfile.Util.Recfile.read", ["rows", "columns", "fields"], [{}]),
    ("esutil.sfile.SFile.read", ["rows", "columns", "fields"], [{}]),
    # field operations
    ("esutil.numpy_util.extract_fields", ["arr", "keepnames"], [{"strict": True}, {"strict": False}]),
    ("esutil.numpy_util.remove_fields", ["arr", "rmnames"], [{}]),
    ("esutil.numpy_util.add_fields", ["arr", "defaults"], [{}]),
    ("esutil.numpy_util.reorder_fields", ["arr", "ordered_names"], [{"strict": True}, {"strict": False}]),
    ("esutil.numpy_util.combine_fields", ["arrlist"], [{}]),
    ("esutil.numpy_util.copy_fields", ["arr1"], [{}]),
    ("esutil.numpy_util.copy_fields_by_name", ["vals", "names"], [{}]),
    ("esutil.numpy_util.split_fields", ["data"], [{}]),
    ("esutil.numpy_util.compare_arrays", ["arr1", "arr2"], [{}]),
    # byte order
    ("esutil.numpy_util.to_native", ["array"], [{"inplace": False, "keep_dtype": k} for k in B]),
    ("esutil.numpy_util.to_big_endian", ["array"], [{"inplace": False, "keep_dtype": k} for k in B]),
    ("esutil.numpy_util.to_little_endian", ["array"], [{"inplace": False, "keep_dtype": k} for k in B]),
    ("esutil.numpy_util.byteswap", ["array"], [{"inplace": False, "keep_dtype": k} for k in B]),
    ("esutil.numpy_util.is_big_endian", ["array"], [{}]),
    ("esutil.numpy_util.is_little_endian", ["array"], [{}]),
    # matching / de-duplication
    ("esutil.numpy_util.unique", ["arr"], [{"values": v} for v in B]),
    ("esutil.numpy_util.rem_dup", ["arr", "flag"], [{"values": v} for v in B]),
    ("esutil.numpy_util.match", ["arr1input", "arr2input"], [{"presorted": v} for v in B]),
    ("esutil.numpy_util.match_multi", ["arr1input", "arr2input"], [{}]),
    ("esutil.numpy_util.splitarray", ["var_input"], [{}]),
    # histogramming / statistics
    ("esutil.stat.util.Binner.__init__", ["x", "y", "weights"], [{}]),
    ("esutil.stat.util.histogram", ["data", "weights"], [{}]),
    ("esutil.stat.util.wmom", ["arrin", "weights_in"], [{}]),
    ("esutil.stat.util.wmedian", ["arr_in", "weights_in"], [{}]),
    ("esutil.stat.util.sigma_clip", ["arrin", "weights"], [{}]),
    ("esutil.stat.util.interplin", ["vin", "xin", "uin"], [{}]),
    ("esutil.stat.util.get_stats", ["arr_in", "weights"], [{}]),
    ("esutil.stat.util.cov2cor", ["cov"], [{}]),
    ("esutil.stat.util.cor2cov", ["cor", "diagerr"], [{}]),
    ("esutil.stat.util.boxcar_average", ["x"], [{}]),
    # coordinates
    ("esutil.coords.euler", ["ai", "bi"], [{"b1950": v} for v in B]),
    ("esutil.coords.eq2gal", ["ra", "dec"], [{}]),
    ("esutil.coords.gal2eq", ["gal_l", "gal_b"], [{}]),
    ("esutil.coords.eq2ec", ["ra", "dec"], [{}]),
    ("esutil.coords.ec2eq", ["lam", "beta"], [{}]),
    ("esutil.coords.ec2gal", ["lam", "beta"], [{}]),
    ("esutil.coords.gal2ec", ["gal_l", "gal_b"], [{}]),
    ("esutil.coords.eq2xyz", ["ra", "dec"], [{"units": u, "stomp": s} for u in ("deg", "rad") for s in B]),
    ("esutil.coords.xyz2eq", ["xin", "yin", "zin"], [{"units": u, "stomp": s} for u in ("deg", "rad") for s in B]),
    ("esutil.coords.sphdist", ["ra1", "dec1", "ra2", "dec2"], [{}]),
    ("esutil.coords.gcirc", ["ra1deg", "dec1deg", "ra2deg", "dec2deg"], [{"getangle": v} for v in B]),
    ("esutil.coords.eq2sdss", ["ra_in", "dec_in"], [{}]),
    ("esutil.coords.sdss2eq", ["clambda_in", "ceta_in"], [{}]),
    ("esutil.coords.shiftlon", ["lon_input"], [{"shift": None, "wrap": w} for w in B] + [{"shift": NOTNONE, "wrap": w} for w in B]),
    ("esutil.coords.shiftra", ["ra"], [{}]),
    ("esutil.coords.rotate", ["ra", "dec"], [{}]),
    ("esutil.coords.radec2aitoff", ["ra", "dec"], [{}]),
    ("esutil.coords.randsphere", ["ra_range", "dec_range"], [{}]),
    ("esutil.coords.randcap", ["ra", "dec", "rad"], [{}]),
    # WCS
    ("esutil.wcsutil.WCS.__init__", ["wcs"], [{}]),
    ("esutil.wcsutil.WCS.image2sky", ["x", "y"], [{"distort": v} for v in B]),
    ("esutil.wcsutil.WCS.sky2image", ["longitude", "latitude"], [{"distort": d, "find": f} for d in B for f in B]),
    ("esutil.wcsutil.WCS.get_jacobian", ["x", "y"], [{"distort": v} for v in B]),
    ("esutil.wcsutil.wrap_ra_diff", ["dra"], [{}]),
    ("esutil.wcsutil.Apply2DPolynomial", ["a", "x", "y"], [{}]),
    ("esutil.wcsutil.Invert2DPolynomial", ["u", "v", "x", "y"], [{}]),
    # cosmology
    ("esutil.cosmology.cosmology.Cosmo.Dc", ["zmin", "zmax"], [{}]),
    ("esutil.cosmology.cosmology.Cosmo.Dm", ["zmin", "zmax"], [{}]),
    ("esutil.cosmology.cosmology.Cosmo.Da", ["zmin", "zmax"], [{}]),
    ("esutil.cosmology.cosmology.Cosmo.Dl", ["zmin", "zmax"], [{}]),
    ("esutil.cosmology.cosmology.Cosmo.dV", ["z"], [{}]),
    ("esutil.cosmology.cosmology.Cosmo.V", ["zmin", "zmax"], [{}]),
    ("esutil.cosmology.cosmology.Cosmo.distmod", ["z"], [{}]),
    ("esutil.cosmology.cosmology.Cosmo.sigmacritinv", ["zl", "zs"], [{}]),
    ("esutil.cosmology.cosmology.Cosmo.Ez_inverse", ["z"], [{}]),
    ("esutil.cosmology.cosmology.Cosmo.Ezinv_integral", ["zmin", "zmax"], [{}]),
    # HTM
    ("esutil.htm.htm.HTM.lookup_id", ["ra", "dec"], [{}]),
    ("esutil.htm.htm.HTM.intersect", ["ra", "dec", "radius"], [{}]),
    ("esutil.htm.htm.HTM.match", ["ra1", "dec1", "ra2", "dec2", "radius"], [{}]),
    ("esutil.htm.htm.HTM.bincount", ["ra1", "dec1", "ra2", "dec2", "scale", "htmid2", "htmrev2"], [{}]),
    ("esutil.htm.htm.Matcher.__init__", ["ra", "dec"], [{}]),
    ("esutil.htm.htm.Matcher.match", ["ra", "dec", "radius"], [{}]),
    # integration helpers take data arrays too
    ("esutil.integrate.util.QGauss.integrate", ["xvals", "yvals_or_func"], [{}]),
]

# documented in-place APIs reached on purpose: (function holding the sink, parameter) -> reason
EXEMPT_SINK_FUNCS = {
}
MAX_UNRESOLVED = 45


# rules that keep their verdict however the code is laid out (decided by term equality, effect analysis or dominance over
# resolved calls); every other rule of this check is a template rule (vcheck.core.Check.obt)
SEMANTIC = ('E2', 'E2.no-sink')


def run(chk):
    repo = PyRepo()
    chk.set_templates(repo, semantic=SEMANTIC)
    cs = c_summaries()
    eng = effects.Effects(repo, cs)
    chk.explanation = MANIFEST["text"]
    chk.trusted = ["library semantics table (vcheck/effects.py)", "clang 14 AST", "SWIG naming convention", "CPython ast"]
    chk.floor = 150
    n_cases = 0
    for q, params, variants in SCOPE:
        fi = public_func(repo, q)
        chk.analysed_unit(q)
        for flags in variants:
            s = analyse_with_arrays(eng, fi, params, flags)
            for p in params:
                if p not in [x.lstrip("*") for x in fi.params]:
                    raise AnalysisError("parameter %s of %s vanished" % (p, q))
                n_cases += 1
                sites = [st for st in s.mut.get(p, []) if st.kind in ("data", "meta")]
                fl = ",".join("%s=%s" % kv for kv in sorted(flags.items(), key=lambda kv: kv[0]))
                if not sites:
                    chk.ob("E2.no-sink", "%s(%s)%s" % (q, p, "[%s]" % fl if fl else ""), True, fi.where(),
                           "no mutation sink reachable from argument `%s`" % p)
                for st in sites:
                    chk.ob("E2.no-sink", "%s(%s)::%s" % (q, p, st.key()), False, st.where(),
                           "argument `%s` of %s%s can be modified: %s" % (p, q, " [%s]" % fl if fl else "", st.describe()))
        # object state: arguments that escape into self.* in a constructor must not be mutated by any method
        if fi.name == "__init__":
            s = analyse_with_arrays(eng, fi, params, {})
            for p in params:
                for attr in sorted(s.escapes.get(p, ())):
                    for mq, mfi in repo.funcs.items():
                        if mfi.cls == fi.cls and mfi.module is fi.module and mfi.name != "__init__":
                            ms = analyse_attr_root(eng, mfi, attr)
                            sites = [st for st in ms.mut.get(attr, []) if st.kind in ("data", "meta")]
                            for st in sites:
                                chk.ob("E2.no-sink-via-state", "%s(%s)->%s::%s" % (q, p, attr, st.key()), False, st.where(),
                                       "constructor argument `%s` is kept as %s and %s" % (p, attr, st.describe()))
                    chk.ob("E2.state-escape", "%s(%s)->%s" % (q, p, attr), True, fi.where(),
                           "constructor argument `%s` may be kept as %s (no copy on some path); all methods of the class were analysed with that attribute as a caller-owned root" % (p, attr))
    chk.notes["callee_resolution"] = {"resolved_package_or_extension_calls": eng.resolved,
                                      "library_or_builtin_calls": eng.lib_calls,
                                      "unresolved_calls_assumed_pure": eng.unresolved,
                                      "unresolved_names": dict(sorted(eng.unknown.items(), key=lambda kv: -kv[1])[:80]),
                                      "summaries_computed": len(eng.memo)}
    chk.notes["c_entry_points"] = {k.split("esutil.")[-1]: sorted(v["writes"]) for k, v in cs.items() if v["writes"]}
    chk.notes["cases"] = n_cases
    if eng.unresolved > MAX_UNRESOLVED:
        raise AnalysisError("%d unresolved callees inside scoped functions (ceiling %d): a new idiom needs to be looked at"
                            % (eng.unresolved, MAX_UNRESOLVED))
    # zero-expected rule needs a positive example that must fire on every run
    selfcheck(chk, eng)


def public_func(repo, q):
    """the function object the public name `q` is bound to: defined in the named module, or bound there by an import of a
    function defined elsewhere in the package (`from .poly2d import Apply2DPolynomial` keeps esutil.wcsutil.Apply2DPolynomial
    the same callable, so the property still quantifies over it).  Only a `def`/class in the module or an import binding is
    followed; a name rebound by assignment or missing altogether is a vanished anchor."""
    if repo.has(q):
        return repo.func(q)
    mname, _, name = q.rpartition(".")
    m = repo.modules.get(mname)
    if m is not None and name not in m.funcs and name not in m.classes and name not in m.consts \
            and _module_level_import(m, name):
        tgt = repo._follow(q)
        if tgt != q and repo.has(tgt):
            return repo.func(tgt)
    raise AnalysisError("scope anchor %s vanished" % q)


def _module_level_import(m, name):
    """`name` is bound by an import statement executed at module level (also under a module-level if/try), and by nothing
    else there: no assignment, del, def or class of that name"""
    def stmts(body):
        for st in body:
            if isinstance(st, (ast.FunctionDef, ast.AsyncFunctionDef, ast.ClassDef)):
                yield st
                continue
            yield st
            for f in ("body", "orelse", "finalbody"):
                yield from stmts(getattr(st, f, None) or [])
            for h in getattr(st, "handlers", None) or []:
                yield from stmts(h.body)
    found = False
    for st in stmts(m.tree.body):
        if isinstance(st, (ast.Import, ast.ImportFrom)):
            for al in st.names:
                if (al.asname or al.name.split(".")[0]) == name:
                    found = True
        elif isinstance(st, (ast.FunctionDef, ast.AsyncFunctionDef, ast.ClassDef)):
            if st.name == name:
                return False
        else:
            for sub in ast.walk(st):
                if isinstance(sub, ast.Name) and sub.id == name and isinstance(sub.ctx, (ast.Store, ast.Del)):
                    return False
    return found


def analyse_with_arrays(eng, fi, params, flags):
    """top-level analysis: the scope table says these parameters are arrays"""
    an = effects._Analyse(eng, fi, dict(flags))
    orig_run = an.run
    arrs = set(params)
    cfg = an.cfg

    def init_env():
        return {p: {("P", p, "same", p in arrs)} for p in an.params}
    an._init_override = init_env
    return _run_with_init(an, init_env())


def analyse_attr_root(eng, fi, attr):
    an = effects._Analyse(eng, fi, {})
    init = {p: {("P", p, "same", False)} for p in an.params}
    init[attr] = {("P", attr, "same", True)}
    return _run_with_init(an, init)


def _run_with_init(an, init):
    # same driver as _Analyse.run but with a caller-provided initial environment
    cfg, view = an.cfg, an.view
    FRESH = effects.FRESH
    IN = {cfg.entry.id: init}
    order = [n for n in cfg.nodes if view.reachable(n)]
    for _ in range(12):
        changed = False
        for n in order:
            if n.id == cfg.entry.id:
                env = init
            else:
                env = None
                for p in view.pred(n):
                    o = IN.get(("out", p.id))
                    if o is None:
                        continue
                    if env is None:
                        env = {k: set(v) for k, v in o.items()}
                    else:
                        for k, v in o.items():
                            env[k] = (env[k] | v) if k in env else (set(v) | {FRESH})
                        for k in list(env):
                            if k not in o:
                                env[k] = env[k] | {FRESH}
                if env is None:
                    continue
            IN[n.id] = env
            out = an.transfer(n, env)
            if IN.get(("out", n.id)) != out:
                IN[("out", n.id)] = out
                changed = True
        if not changed:
            break
    for n in order:
        env = IN.get(n.id)
        if env is None:
            continue
        an.node_effects(n, dict(env))
        if n.kind == "return" and n.ast.value is not None:
            an.sum.ret |= an.val(n.ast.value, dict(env))
    # attribute escapes at exit
    return an.sum


POSITIVE = '''
import numpy as np
def bad_view_store(a):
    b = np.atleast_1d(a)
    c = b.view(np.ndarray)
    c[0] = 1
def bad_ufunc_out(a):
    t = np.asarray(a)
    np.deg2rad(t, t)
def bad_inplace_op(a):
    a *= 2
def bad_callee(a):
    helper(a)
def helper(z):
    z.byteswap(True)
def good_copy(a):
    b = np.array(a, copy=True)
    b[0] = 1
    c = a.astype('f8')
    c += 1
    d = a[np.where(a > 0)]
    d[0] = 3
'''


def selfcheck(chk, eng):
    """the no-sink rule expects zero findings; these tiny examples must (not) match on every run"""
    import tempfile, os, shutil
    d = tempfile.mkdtemp(prefix="vcheck-pos-")
    try:
        os.makedirs(os.path.join(d, "esutil"))
        with open(os.path.join(d, "esutil", "__init__.py"), "w") as f:
            f.write(POSITIVE)
        r2 = PyRepo(d)
        e2 = effects.Effects(r2, {})
        exp = {"bad_view_store": True, "bad_ufunc_out": True, "bad_inplace_op": True, "bad_callee": True, "good_copy": False}
        for fn, want in exp.items():
            fi = r2.func("esutil." + fn)
            s = analyse_with_arrays(e2, fi, ["a"], {})
            got = bool(s.mut.get("a"))
            if got != want:
                raise AnalysisError("effect-analysis self-check failed on positive example %s: expected sink=%s got %s" % (fn, want, got))
        chk.notes["positive_examples_matched"] = len(exp)
    finally:
        shutil.rmtree(d, ignore_errors=True)
