"""C15 -- non-in-place calls never modify the arrays passed to them.

Flagship of the effect analysis (E2): for every (public function, array
parameter) pair of the scope table the check decides that no mutation sink is
reachable from the parameter through alias chains and resolved callees,
including the C/C++ extension entry points.
"""
import ast

from vcheck import effects, rules
from vcheck.cfg import NOTNONE
from vcheck.core import PyRepo, AnalysisError, norm, call_name, dotted_name, kwarg
from vcheck.ctable import c_summaries

MANIFEST = dict(
    text="Interprocedural may-alias / effect analysis (not a behavioural proof; a sound-by-construction over-approximation of "
         "buffer sharing for the idioms the repository uses): for each of ~120 (public function, array parameter, option "
         "combination) cases it decides, for all inputs at once, that no write (subscript/attribute store, in-place operator, "
         "out= argument, in-place method, C/C++ store through an accessor pointer, fread/fscanf destination) can reach a buffer "
         "that may be shared with the caller's argument, following views, no-copy conversions, tuple packing, object attributes "
         "set by constructors, resolved package callees (summaries specialised on literal option values) and the extension "
         "entry points (summaries computed from the clang AST). Documented in-place APIs are an explicit exemption table.",
    note="Trusted: the library semantics table (which numpy calls return fresh arrays / views / write to out=), SWIG naming "
         "convention, clang AST. Unresolved callees are assumed pure and counted in the evidence; the run fails as analysis-broken "
         "if their number inside scoped functions rises above the hand-confirmed ceiling. Values, dtype and flags identity follow "
         "from 'no sink reachable'; nothing numerical is claimed.",
    technique="static analysis: interprocedural flow-sensitive alias/effect (ownership) analysis over Python ast CFGs with C/C++ effect summaries from the clang AST",
)

# (qualified function, array parameters in scope, option combinations to specialise on)
B = [False, True]
SCOPE = [
    # record files
    ("esutil.recfile.Util.write", ["data"], [{}]),
    ("esutil.recfile.Util.Recfile.write", ["data"], [{"self.is_ascii": False}, {"self.is_ascii": True}]),
    ("esutil.sfile.write", ["data", "outfile"], [{}]),
    ("esutil.sfile.SFile.write", ["data", "header"], [{}]),
    ("esutil.io.write", ["data"], [{}]),
    ("esutil.io.write_rec", ["data"], [{}]),
    ("esutil.recfile.Util.Recfile.read", ["rows", "columns", "fields"], [{}]),
    ("esutil.sfile.SFile.read", ["rows", "columns", "fields"], [{}]),
    # field operations
    ("esutil.numpy_util.extract_fields", ["arr", "keepnames"], [{"strict": True}, {"strict": False}]),
    ("esutil.numpy_util.remove_fields", ["arr", "rmnames"], [{}]),
    ("esutil.numpy_util.add_fields", ["arr", "defaults"], [{}]),
    ("esutil.numpy_util.reorder_fields", ["arr", "ordered_names"], [{"strict": True}, {"strict": False}]),
    ("esutil.numpy_util.combine_fields", ["arrlist"], [{}]),
    ("esutil.numpy_util.copy_fields", ["arr1"], [{}]),
    ("esutil.numpy_util.copy_fields_by_name", ["vals", "names"], [{}]),
    ("esutil.numpy_util.split_fields", ["data"], [{}]),
    ("esutil.numpy_util.compare_arrays", ["arr1", "arr2"], [{}]),
    # byte order
    ("esutil.numpy_util.to_native", ["array"], [{"inplace": False, "keep_dtype": k} for k in B]),
    ("esutil.numpy_util.to_big_endian", ["array"], [{"inplace": False, "keep_dtype": k} for k in B]),
    ("esutil.numpy_util.to_little_endian", ["array"], [{"inplace": False, "keep_dtype": k} for k in B]),
    ("esutil.numpy_util.byteswap", ["array"], [{"inplace": False, "keep_dtype": k} for k in B]),
    ("esutil.numpy_util.is_big_endian", ["array"], [{}]),
    ("esutil.numpy_util.is_little_endian", ["array"], [{}]),
    # matching / de-duplication
    ("esutil.numpy_util.unique", ["arr"], [{"values": v} for v in B]),
    ("esutil.numpy_util.rem_dup", ["arr", "flag"], [{"values": v} for v in B]),
    ("esutil.numpy_util.match", ["arr1input", "arr2input"], [{"presorted": v} for v in B]),
    ("esutil.numpy_util.match_multi", ["arr1input", "arr2input"], [{}]),
    ("esutil.numpy_util.splitarray", ["var_input"], [{}]),
    # histogramming / statistics
    ("esutil.stat.util.Binner.__init__", ["x", "y", "weights"], [{}]),
    ("esutil.stat.util.histogram", ["data", "weights"], [{}]),
    ("esutil.stat.util.wmom", ["arrin", "weights_in"], [{}]),
    ("esutil.stat.util.wmedian", ["arr_in", "weights_in"], [{}]),
    ("esutil.stat.util.sigma_clip", ["arrin", "weights"], [{}]),
    ("esutil.stat.util.interplin", ["vin", "xin", "uin"], [{}]),
    ("esutil.stat.util.get_stats", ["arr_in", "weights"], [{}]),
    ("esutil.stat.util.cov2cor", ["cov"], [{}]),
    ("esutil.stat.util.cor2cov", ["cor", "diagerr"], [{}]),
    ("esutil.stat.util.boxcar_average", ["x"], [{}]),
    ("esutil.stat.util.histogram2d", ["x", "y"], [{}]),
    ("esutil.stat.util.print_stats", ["arr"], [{}]),
    ("esutil.numpy_util.select_percentile", ["x", "perc"], [{"get_ranges": v} for v in B]),
    ("esutil.numpy_util.between", ["arr"], [{}]),
    ("esutil.numpy_util.outside", ["arr"], [{}]),
    ("esutil.numpy_util.arrscl", ["arr"], [{}]),
    # coordinates
    ("esutil.coords.euler", ["ai", "bi"], [{"b1950": v} for v in B]),
    ("esutil.coords.eq2gal", ["ra", "dec"], [{}]),
    ("esutil.coords.gal2eq", ["gal_l", "gal_b"], [{}]),
    ("esutil.coords.eq2ec", ["ra", "dec"], [{}]),
    ("esutil.coords.ec2eq", ["lam", "beta"], [{}]),
    ("esutil.coords.ec2gal", ["lam", "beta"], [{}]),
    ("esutil.coords.gal2ec", ["gal_l", "gal_b"], [{}]),
    ("esutil.coords.eq2xyz", ["ra", "dec"], [{"units": u, "stomp": s} for u in ("deg", "rad") for s in B]),
    ("esutil.coords.xyz2eq", ["xin", "yin", "zin"], [{"units": u, "stomp": s} for u in ("deg", "rad") for s in B]),
    ("esutil.coords.sphdist", ["ra1", "dec1", "ra2", "dec2"], [{}]),
    ("esutil.coords.gcirc", ["ra1deg", "dec1deg", "ra2deg", "dec2deg"], [{"getangle": v} for v in B]),
    ("esutil.coords.eq2sdss", ["ra_in", "dec_in"], [{}]),
    ("esutil.coords.sdss2eq", ["clambda_in", "ceta_in"], [{}]),
    ("esutil.coords.shiftlon", ["lon_input"], [{"shift": None, "wrap": w} for w in B] + [{"shift": NOTNONE, "wrap": w} for w in B]),
    ("esutil.coords.shiftra", ["ra"], [{}]),
    ("esutil.coords.rotate", ["ra", "dec"], [{}]),
    ("esutil.coords.radec2aitoff", ["ra", "dec"], [{}]),
    ("esutil.coords.randsphere", ["ra_range", "dec_range"], [{}]),
    ("esutil.coords.randcap", ["ra", "dec", "rad"], [{}]),
    # WCS
    ("esutil.wcsutil.WCS.__init__", ["wcs"], [{}]),
    ("esutil.wcsutil.WCS.image2sky", ["x", "y"], [{"distort": v} for v in B]),
    ("esutil.wcsutil.WCS.sky2image", ["longitude", "latitude"], [{"distort": d, "find": f} for d in B for f in B]),
    ("esutil.wcsutil.WCS.get_jacobian", ["x", "y"], [{"distort": v} for v in B]),
    ("esutil.wcsutil.wrap_ra_diff", ["dra"], [{}]),
    ("esutil.wcsutil.Apply2DPolynomial", ["a", "x", "y"], [{}]),
    ("esutil.wcsutil.Invert2DPolynomial", ["u", "v", "x", "y"], [{}]),
    # cosmology
    ("esutil.cosmology.cosmology.Cosmo.Dc", ["zmin", "zmax"], [{}]),
    ("esutil.cosmology.cosmology.Cosmo.Dm", ["zmin", "zmax"], [{}]),
    ("esutil.cosmology.cosmology.Cosmo.Da", ["zmin", "zmax"], [{}]),
    ("esutil.cosmology.cosmology.Cosmo.Dl", ["zmin", "zmax"], [{}]),
    ("esutil.cosmology.cosmology.Cosmo.dV", ["z"], [{}]),
    ("esutil.cosmology.cosmology.Cosmo.V", ["zmin", "zmax"], [{}]),
    ("esutil.cosmology.cosmology.Cosmo.distmod", ["z"], [{}]),
    ("esutil.cosmology.cosmology.Cosmo.sigmacritinv", ["zl", "zs"], [{}]),
    ("esutil.cosmology.cosmology.Cosmo.Ez_inverse", ["z"], [{}]),
    ("esutil.cosmology.cosmology.Cosmo.Ezinv_integral", ["zmin", "zmax"], [{}]),
    # HTM
    ("esutil.htm.htm.HTM.lookup_id", ["ra", "dec"], [{}]),
    ("esutil.htm.htm.HTM.intersect", ["ra", "dec", "radius"], [{}]),
    ("esutil.htm.htm.HTM.match", ["ra1", "dec1", "ra2", "dec2", "radius"], [{}]),
    ("esutil.htm.htm.HTM.bincount", ["ra1", "dec1", "ra2", "dec2", "scale", "htmid2", "htmrev2"], [{}]),
    ("esutil.htm.htm.Matcher.__init__", ["ra", "dec"], [{}]),
    ("esutil.htm.htm.Matcher.match", ["ra", "dec", "radius"], [{}]),
    # integration helpers take data arrays too
    ("esutil.integrate.util.QGauss.integrate", ["xvals", "yvals_or_func"], [{}]),
]

# documented in-place APIs reached on purpose: (function holding the sink, parameter) -> reason
EXEMPT_SINK_FUNCS = {
}
MAX_UNRESOLVED = 45


# rules that keep their verdict however the code is laid out (decided by term equality, effect analysis or dominance over
# resolved calls); every other rule of this check is a template rule (vcheck.core.Check.obt)
SEMANTIC = ('E2', 'E2.no-sink')


def run(chk):
    repo = PyRepo()
    chk.set_templates(repo, semantic=SEMANTIC)
    cs = c_summaries()
    eng = EffectsX(repo, cs)
    chk.explanation = MANIFEST["text"]
    chk.trusted = ["library semantics table (vcheck/effects.py)", "clang 14 AST", "SWIG naming convention", "CPython ast"]
    chk.floor = 150
    n_cases = 0
    for q, params, variants in SCOPE:
        fi = public_func(repo, q)
        chk.analysed_unit(q)
        for flags in variants:
            s = analyse_with_arrays(eng, fi, params, flags)
            for p in params:
                if p not in [x.lstrip("*") for x in fi.params]:
                    raise AnalysisError("parameter %s of %s vanished" % (p, q))
                n_cases += 1
                sites = [st for st in s.mut.get(p, []) if st.kind in ("data", "meta")]
                fl = ",".join("%s=%s" % kv for kv in sorted(flags.items(), key=lambda kv: kv[0]))
                if not sites:
                    chk.ob("E2.no-sink", "%s(%s)%s" % (q, p, "[%s]" % fl if fl else ""), True, fi.where(),
                           "no mutation sink reachable from argument `%s`" % p)
                for st in sites:
                    chk.ob("E2.no-sink", "%s(%s)::%s" % (q, p, st.key()), False, st.where(),
                           "argument `%s` of %s%s can be modified: %s" % (p, q, " [%s]" % fl if fl else "", st.describe()))
        # object state: arguments that escape into self.* in a constructor must not be mutated by any method
        if fi.name == "__init__":
            s = analyse_with_arrays(eng, fi, params, {})
            for p in params:
                for attr in sorted(s.escapes.get(p, ())):
                    for mq, mfi in repo.funcs.items():
                        if mfi.cls == fi.cls and mfi.module is fi.module and mfi.name != "__init__":
                            ms = analyse_attr_root(eng, mfi, attr)
                            sites = [st for st in ms.mut.get(attr, []) if st.kind in ("data", "meta")]
                            for st in sites:
                                chk.ob("E2.no-sink-via-state", "%s(%s)->%s::%s" % (q, p, attr, st.key()), False, st.where(),
                                       "constructor argument `%s` is kept as %s and %s" % (p, attr, st.describe()))
                    chk.ob("E2.state-escape", "%s(%s)->%s" % (q, p, attr), True, fi.where(),
                           "constructor argument `%s` may be kept as %s (no copy on some path); all methods of the class were analysed with that attribute as a caller-owned root" % (p, attr))
    chk.notes["callee_resolution"] = {"resolved_package_or_extension_calls": eng.resolved,
                                      "library_or_builtin_calls": eng.lib_calls,
                                      "unresolved_calls_assumed_pure": eng.unresolved,
                                      "unresolved_names": dict(sorted(eng.unknown.items(), key=lambda kv: -kv[1])[:80]),
                                      "summaries_computed": len(eng.memo)}
    chk.notes["c_entry_points"] = {k.split("esutil.")[-1]: sorted(v["writes"]) for k, v in cs.items() if v["writes"]}
    chk.notes["cases"] = n_cases
    if eng.unresolved > MAX_UNRESOLVED:
        raise AnalysisError("%d unresolved callees inside scoped functions (ceiling %d): a new idiom needs to be looked at"
                            % (eng.unresolved, MAX_UNRESOLVED))
    # zero-expected rule needs a positive example that must fire on every run
    selfcheck(chk, eng)


# ---- library semantics the engine table (vcheck/effects.py) does not list; added here through subclassing, the engine
# itself is untouched.  Each entry is a documented property of the library call, not of this repository:
#   * a library function that transforms its input and takes `copy=` works IN PLACE when copy is not true and returns
#     the input object (numpy.nan_to_num(x, copy=False, ...));
#   * keywords that grant the library permission to clobber an input (numpy median/percentile/quantile overwrite_input=,
#     scipy.linalg / scipy.fft overwrite_a= overwrite_b= overwrite_x= ..., scipy.signal overwrite_data=);
#   * ufunc.at(a, idx[, b]) is the unbuffered in-place form of the ufunc; numpy.put_along_axis writes argument 0;
#   * further ufuncs and out-taking reductions whose positional `out` slot the engine does not know;
#   * explicit calls of the in-place special methods (x.__setitem__, x.__iadd__, ...) and unbound ndarray mutators
#     (numpy.ndarray.sort(x));
#   * constructors that wrap an existing buffer without copying (numpy.ma arrays with copy off, as_strided,
#     sliding_window_view, frombuffer, ndarray(buffer=...), memoryview).
COPY_KW_INPLACE = {"nan_to_num": 1}       # function -> positional slot of `copy`; argument 0 is the array
CLOBBER_ARGNAME = {"overwrite_input": "a", "overwrite_a": "a", "overwrite_x": "x", "overwrite_data": "data",
                   "overwrite_ab": "ab", "overwrite_b": "b", "overwrite_y": "y"}
CLOBBER_KW = {"overwrite_input": 0, "overwrite_a": 0, "overwrite_x": 0, "overwrite_data": 0, "overwrite_ab": 0,
              "overwrite_b": 1, "overwrite_y": 1}
MORE_DEST0 = {"put_along_axis"}
MORE_UNARY = {"arcsinh", "arccosh", "arctanh", "cbrt", "exp2", "invert", "bitwise_not", "isinf", "signbit", "positive",
              "spacing", "fix", "conj", "isnat", "asin", "acos", "atan", "asinh", "acosh", "atanh", "bitwise_invert"}
MORE_BINARY = {"logaddexp", "logaddexp2", "float_power", "pow", "nextafter", "heaviside", "fmax", "fmin", "bitwise_xor",
               "logical_xor", "greater_equal", "less_equal", "matmul", "ldexp", "gcd", "lcm", "atan2",
               "bitwise_left_shift", "bitwise_right_shift"}
POSITIONAL_OUT = {"round": 2, "around": 2, "round_": 2, "cumsum": 3, "cumprod": 3, "nancumsum": 3, "nancumprod": 3,
                  "take": 3, "compress": 3, "choose": 2, "dot": 2, "sum": 3, "prod": 3, "mean": 3, "std": 3, "var": 3,
                  "amax": 2, "amin": 2, "max": 2, "min": 2, "outer": 2, "concatenate": 2}
METHOD_POSITIONAL_OUT = {"clip": 2, "round": 1, "cumsum": 2, "cumprod": 2, "take": 2, "compress": 2, "dot": 1,
                         "sum": 2, "prod": 2, "mean": 2, "std": 2, "var": 2, "max": 1, "min": 1, "choose": 1}
INPLACE_DUNDERS = {"__setitem__", "__delitem__", "__iadd__", "__isub__", "__imul__", "__itruediv__", "__ifloordiv__",
                   "__imod__", "__ipow__", "__iand__", "__ior__", "__ixor__", "__ilshift__", "__irshift__", "__imatmul__",
                   "__idiv__", "__setslice__"}
MA_WRAPPERS = {"array": 0, "masked_array": 0, "MaskedArray": 0, "asarray": 0, "asanyarray": 0, "masked_invalid": 0,
               "masked_where": 1, "masked_equal": 0, "masked_values": 0, "masked_greater": 0, "masked_less": 0,
               "masked_inside": 0, "masked_outside": 0, "masked_not_equal": 0, "masked_greater_equal": 0,
               "masked_less_equal": 0, "masked_object": 0, "fix_invalid": 0, "getdata": 0}
MA_NOCOPY_DEFAULT = {"array", "masked_array", "MaskedArray", "asarray", "asanyarray", "getdata"}
BUFFER_WRAPPERS = {"as_strided", "sliding_window_view", "frombuffer"}


class _AnalyseX(effects._Analyse):
    """effects._Analyse plus the library semantics listed above"""

    def _lib(self, c):
        f = c.func
        nm = call_name(c)
        d = dotted_name(f) or ""
        full = self.eng.repo.resolve_name(self.fi.module, d) if d else ""
        return nm, full

    def _copy_flag(self, c, nm):
        """None when the call does not say `copy`; else the literal truth value or 'unknown'"""
        cp = kwarg(c, "copy")
        slot = COPY_KW_INPLACE[nm]
        if cp is None and len(c.args) > slot and not any(isinstance(a, ast.Starred) for a in c.args[:slot + 1]):
            cp = c.args[slot]
        if cp is None:
            return None, None
        if isinstance(cp, ast.Constant):
            return cp, bool(cp.value)
        v = self._flagval(cp)
        return cp, ("unknown" if v is None else v)

    def call_value(self, c, env):
        nm, full = self._lib(c)
        f = c.func
        if full.startswith("numpy.") and c.args and not isinstance(c.args[0], ast.Starred):
            if nm in COPY_KW_INPLACE:
                cp, v = self._copy_flag(c, nm)
                if cp is not None and v is not True:
                    return self._mark_arr(self.val(c.args[0], env)) | {FRESH_TAG}
                return {FRESH_TAG}
            if nm in MORE_UNARY | MORE_BINARY | set(POSITIONAL_OUT):
                o = self._more_out(c, nm)
                if o is not None:
                    return self._mark_arr(self.val(o, env))
            if full.startswith("numpy.ma.") and nm in MA_WRAPPERS and len(c.args) > MA_WRAPPERS[nm]:
                cp = kwarg(c, "copy")
                copies = (nm not in MA_NOCOPY_DEFAULT) if cp is None else (isinstance(cp, ast.Constant) and cp.value is True)
                if not copies:
                    return self._as_view(self.val(c.args[MA_WRAPPERS[nm]], env)) | {FRESH_TAG}
                return {FRESH_TAG}
            if nm in BUFFER_WRAPPERS:
                return self._as_view(self.val(c.args[0], env)) | {FRESH_TAG}
        if full == "numpy.ndarray":
            b = kwarg(c, "buffer") or (c.args[2] if len(c.args) > 2 else None)
            if b is not None:
                return self._as_view(self.val(b, env)) | {FRESH_TAG}
        if isinstance(f, ast.Name) and f.id == "memoryview" and full == "memoryview" and c.args:
            return self._as_view(self.val(c.args[0], env), arr=False)
        return super().call_value(c, env)

    # ---- keyword dictionaries handed to library calls -------------------------------------------------------------
    def _clobber_target(self, c, key):
        """the argument expression a clobber keyword gives the library permission to overwrite"""
        i = CLOBBER_KW[key]
        if i < len(c.args):
            if any(isinstance(a, ast.Starred) for a in c.args[:i + 1]):
                return None
            return c.args[i]
        return kwarg(c, CLOBBER_ARGNAME[key])

    def _dict_expr(self, e, depth=0):
        """(entries, source names) of an expression that builds a keyword dictionary: entries are (constant key, value
        node, description) the expression itself places, source names are the dictionaries it copies/merges/aliases"""
        ent, src = [], set()
        if e is None or depth > 6:
            return ent, src
        if isinstance(e, ast.Name):
            src.add(e.id)
        elif isinstance(e, ast.Dict):
            for k, v in zip(e.keys, e.values):
                if k is None:
                    e2, s2 = self._dict_expr(v, depth + 1)
                    ent += e2
                    src |= s2
                elif isinstance(k, ast.Constant) and isinstance(k.value, str):
                    ent.append((k.value, v, "{%r: %s}" % (k.value, norm(v))))
        elif isinstance(e, ast.Call):
            nm = call_name(e)
            f = e.func
            if isinstance(f, ast.Name) and f.id in ("dict", "OrderedDict") or (nm in ("copy", "deepcopy") and e.args):
                for a in e.args[:1]:
                    e2, s2 = self._dict_expr(a, depth + 1)
                    ent += e2
                    src |= s2
                if isinstance(f, ast.Name):
                    for k in e.keywords:
                        if k.arg is None:
                            e2, s2 = self._dict_expr(k.value, depth + 1)
                            ent += e2
                            src |= s2
                        else:
                            ent.append((k.arg, k.value, "dict(%s=%s)" % (k.arg, norm(k.value))))
            elif isinstance(f, ast.Attribute) and nm == "copy" and not e.args:
                return self._dict_expr(f.value, depth + 1)
        elif isinstance(e, ast.BinOp) and isinstance(e.op, ast.BitOr):
            for x in (e.left, e.right):
                e2, s2 = self._dict_expr(x, depth + 1)
                ent += e2
                src |= s2
        elif isinstance(e, ast.IfExp):
            for x in (e.body, e.orelse):
                e2, s2 = self._dict_expr(x, depth + 1)
                ent += e2
                src |= s2
        elif isinstance(e, ast.BoolOp):
            for x in e.values:
                e2, s2 = self._dict_expr(x, depth + 1)
                ent += e2
                src |= s2
        elif isinstance(e, ast.NamedExpr):
            return self._dict_expr(e.value, depth + 1)
        return ent, src

    def _dict_facts(self):
        """flow-insensitive facts about the dictionaries of this function: name -> entries placed by the function's own
        statements, name -> names whose content may be copied into it"""
        if getattr(self, "_dfacts", None) is not None:
            return self._dfacts
        ents, srcs = {}, {}

        def add(name, ent, src):
            if ent:
                ents.setdefault(name, []).extend(ent)
            if src - {name}:
                srcs.setdefault(name, set()).update(src - {name})

        for x in ast.walk(self.fi.node):
            if isinstance(x, (ast.Assign, ast.AnnAssign)) and x.value is not None:
                tgts = x.targets if isinstance(x, ast.Assign) else [x.target]
                for t in tgts:
                    if isinstance(t, ast.Name):
                        add(t.id, *self._dict_expr(x.value))
                    elif isinstance(t, ast.Subscript) and isinstance(t.value, ast.Name) and \
                            isinstance(t.slice, ast.Constant) and isinstance(t.slice.value, str):
                        add(t.value.id, [(t.slice.value, x.value, "%s = %s" % (norm(t), norm(x.value)))], set())
            elif isinstance(x, ast.NamedExpr) and isinstance(x.target, ast.Name):
                add(x.target.id, *self._dict_expr(x.value))
            elif isinstance(x, ast.AugAssign) and isinstance(x.target, ast.Name) and isinstance(x.op, ast.BitOr):
                add(x.target.id, *self._dict_expr(x.value))
            elif isinstance(x, ast.Call) and isinstance(x.func, ast.Attribute) and isinstance(x.func.value, ast.Name):
                n = x.func.value.id
                if x.func.attr == "setdefault" and len(x.args) == 2 and isinstance(x.args[0], ast.Constant) \
                        and isinstance(x.args[0].value, str):
                    add(n, [(x.args[0].value, x.args[1], norm(x))], set())
                elif x.func.attr == "update":
                    for a in x.args[:1]:
                        add(n, *self._dict_expr(a))
                    for k in x.keywords:
                        if k.arg is None:
                            add(n, *self._dict_expr(k.value))
                        else:
                            add(n, [(k.arg, k.value, norm(x))], set())
        self._dfacts = (ents, srcs)
        return self._dfacts

    def _kwdict_entries(self, e):
        """every (key, value node | None, description) that may be in the dictionary expression `e` because this function
        (or, for its own ** parameter, the analysed package caller) put it there"""
        ents, srcs = self._dict_facts()
        out, names = self._dict_expr(e)
        out = list(out)
        seen = set()
        work = sorted(names)
        kwp = [p[2:] for p in self.fi.params if p.startswith("**")]
        while work:
            n = work.pop()
            if n in seen:
                continue
            seen.add(n)
            out += ents.get(n, [])
            work += sorted(srcs.get(n, ()))
            if n in kwp:
                for fk, fv in sorted(self.flags.items(), key=lambda kv: kv[0]):
                    if fk.startswith("**") and fv is True:
                        out.append((fk[2:], None, "%s=... passed on by the calling package function" % fk[2:]))
        return out

    def _bind(self, c, callee, bound, env):
        binding, cflags = super()._bind(c, callee, bound, env)
        if any(p.startswith("**") for p in callee.params):
            named = {p for p in callee.params if not p.startswith("*")}
            for k in c.keywords:
                if k.arg is not None:
                    if k.arg in CLOBBER_KW and k.arg not in named and self._flagval(k.value) is not False:
                        cflags["**" + k.arg] = True
                else:
                    for key, vnode, how in self._kwdict_entries(k.value):
                        if key in CLOBBER_KW and key not in named and not (vnode is not None and self._flagval(vnode) is False):
                            cflags["**" + key] = True
        return binding, cflags

    def _more_out(self, c, nm):
        o = kwarg(c, "out")
        if o is not None:
            return o
        if any(isinstance(a, ast.Starred) for a in c.args):
            return None
        if nm in MORE_UNARY and len(c.args) >= 2:
            return c.args[1]
        if nm in MORE_BINARY and len(c.args) >= 3:
            return c.args[2]
        slot = POSITIONAL_OUT.get(nm)
        if slot is not None and len(c.args) > slot and not (isinstance(c.args[slot], ast.Constant) and c.args[slot].value is None):
            return c.args[slot]
        return None

    def call_effects(self, c, env, node):
        super().call_effects(c, env, node)
        nm, full = self._lib(c)
        f = c.func
        is_np = full.startswith("numpy.")
        arg0 = c.args[0] if c.args and not isinstance(c.args[0], ast.Starred) else None
        if is_np and arg0 is not None:
            if nm in COPY_KW_INPLACE:
                cp, v = self._copy_flag(c, nm)
                tags = self.val(arg0, env)
                if cp is not None and v is not True:
                    self.record(tags, c, "data", "numpy.%s(%s, copy=%s) works in place" % (nm, norm(arg0), norm(cp)))
                elif cp is None and any(k.arg is None for k in c.keywords) and any(t[0] == "P" for t in tags):
                    raise AnalysisError("effects: numpy.%s(%s, **...) at %s: cannot see whether copy= is switched off"
                                        % (nm, norm(arg0), self.fi.where(c)))
            if nm in MORE_DEST0:
                self.record(self.val(arg0, env), c, "data", "numpy.%s(%s, ...)" % (nm, norm(arg0)))
            if nm == "at" and full.count(".") >= 2 and \
                    full.split(".")[-2] in effects.UNARY_UFUNCS | effects.BINARY_UFUNCS | MORE_UNARY | MORE_BINARY:
                self.record(self.val(arg0, env), c, "data", "%s(%s, ...) (in-place ufunc.at)" % (full, norm(arg0)))
            if nm in (MORE_UNARY | MORE_BINARY | set(POSITIONAL_OUT)) and kwarg(c, "out") is None:
                o = self._more_out(c, nm)
                if o is not None:
                    self.record(self.val(o, env), c, "data", "numpy.%s(... out=%s)" % (nm, norm(o)))
            if full.startswith("numpy.ndarray.") and nm in effects.ND_MUT_METHODS:
                self.record(self.val(arg0, env), c, "data", "numpy.ndarray.%s(%s, ...)" % (nm, norm(arg0)))
            if full == "numpy.ndarray.byteswap":
                ip = c.args[1] if len(c.args) > 1 else kwarg(c, "inplace")
                if ip is not None and self._flagval(ip) is not False:
                    self.record(self.val(arg0, env), c, "data", "numpy.ndarray.byteswap(%s, %s)" % (norm(arg0), norm(ip)))
        # permission-to-clobber keywords of library routines (any library; package callees are analysed by their own body)
        ck = [k for k in c.keywords if k.arg in CLOBBER_KW]
        if ck and self.eng.resolve(self.fi, c, self.localtypes) is None:
            for k in ck:
                if self._flagval(k.value) is False:
                    continue
                tgt = self._clobber_target(c, k.arg)
                if tgt is not None:
                    self.record(self.val(tgt, env), c, "data", "%s(%s, %s=%s) lets the library overwrite its input" % (
                        dotted_name(f) or nm, norm(tgt), k.arg, norm(k.value)))
        # the same permission handed over inside a keyword dictionary (`lib(x, **kw)`): what the caller of THIS function put
        # into its own **kw is the caller's documented choice, but a clobber key this function itself places in the
        # dictionary (literal, dict(...), kw[...] = , setdefault, update, merge; through copies and aliases) is this
        # function's decision to let the library overwrite the argument
        sk = [k for k in c.keywords if k.arg is None]
        if sk and self.eng.resolve(self.fi, c, self.localtypes) is None:
            explicit = {k.arg for k in c.keywords if k.arg is not None}
            for k in sk:
                for key, vnode, how in self._kwdict_entries(k.value):
                    if key not in CLOBBER_KW or key in explicit:
                        continue
                    if vnode is not None and self._flagval(vnode) is False:
                        continue
                    tgt = self._clobber_target(c, key)
                    if tgt is not None:
                        self.record(self.val(tgt, env), c, "data",
                                    "%s(%s, **%s) with %s lets the library overwrite its input" % (
                                        dotted_name(f) or nm, norm(tgt), norm(k.value), how))
        if isinstance(f, ast.Attribute) and not is_np:
            recv = self.val(f.value, env)
            if any(t[0] == "P" for t in recv):
                if nm in INPLACE_DUNDERS:
                    self.record(recv, c, "data", "%s.%s(...)" % (norm(f.value), nm))
                slot = METHOD_POSITIONAL_OUT.get(nm)
                if slot is not None and kwarg(c, "out") is None and len(c.args) > slot and \
                        not any(isinstance(a, ast.Starred) for a in c.args) and \
                        not (isinstance(c.args[slot], ast.Constant) and c.args[slot].value is None):
                    self.record(self.val(c.args[slot], env), c, "data", "%s.%s(... out=%s)" % (
                        norm(f.value), nm, norm(c.args[slot])))


FRESH_TAG = effects.FRESH


class EffectsX(effects.Effects):
    """effects.Effects whose callee summaries are computed with the extended library table"""

    def summary(self, fi, flags=None):
        flags = dict(flags or {})
        key = (fi.qualname, tuple(sorted((k, repr(v)) for k, v in flags.items())))
        if key in self.memo:
            return self.memo[key]
        if key in self.stack:
            return effects.Summary()
        self.stack.append(key)
        try:
            s = _AnalyseX(self, fi, flags).run()
        finally:
            self.stack.pop()
        self.memo[key] = s
        return s


def public_func(repo, q):
    """the function object the public name `q` is bound to: defined in the named module, or bound there by an import of a
    function defined elsewhere in the package (`from .poly2d import Apply2DPolynomial` keeps esutil.wcsutil.Apply2DPolynomial
    the same callable, so the property still quantifies over it).  Only a `def`/class in the module or an import binding is
    followed; a name rebound by assignment or missing altogether is a vanished anchor."""
    if repo.has(q):
        return repo.func(q)
    mname, _, name = q.rpartition(".")
    m = repo.modules.get(mname)
    if m is not None and name not in m.funcs and name not in m.classes and name not in m.consts \
            and _module_level_import(m, name):
        tgt = repo._follow(q)
        if tgt != q and repo.has(tgt):
            return repo.func(tgt)
    raise AnalysisError("scope anchor %s vanished" % q)


def _module_level_import(m, name):
    """`name` is bound by an import statement executed at module level (also under a module-level if/try), and by nothing
    else there: no assignment, del, def or class of that name"""
    def stmts(body):
        for st in body:
            if isinstance(st, (ast.FunctionDef, ast.AsyncFunctionDef, ast.ClassDef)):
                yield st
                continue
            yield st
            for f in ("body", "orelse", "finalbody"):
                yield from stmts(getattr(st, f, None) or [])
            for h in getattr(st, "handlers", None) or []:
                yield from stmts(h.body)
    found = False
    for st in stmts(m.tree.body):
        if isinstance(st, (ast.Import, ast.ImportFrom)):
            for al in st.names:
                if (al.asname or al.name.split(".")[0]) == name:
                    found = True
        elif isinstance(st, (ast.FunctionDef, ast.AsyncFunctionDef, ast.ClassDef)):
            if st.name == name:
                return False
        else:
            for sub in ast.walk(st):
                if isinstance(sub, ast.Name) and sub.id == name and isinstance(sub.ctx, (ast.Store, ast.Del)):
                    return False
    return found


def analyse_with_arrays(eng, fi, params, flags):
    """top-level analysis: the scope table says these parameters are arrays"""
    an = _AnalyseX(eng, fi, dict(flags))
    orig_run = an.run
    arrs = set(params)
    cfg = an.cfg

    def init_env():
        return {p: {("P", p, "same", p in arrs)} for p in an.params}
    an._init_override = init_env
    return _run_with_init(an, init_env())


def analyse_attr_root(eng, fi, attr):
    an = _AnalyseX(eng, fi, {})
    init = {p: {("P", p, "same", False)} for p in an.params}
    init[attr] = {("P", attr, "same", True)}
    return _run_with_init(an, init)


def _run_with_init(an, init):
    # same driver as _Analyse.run but with a caller-provided initial environment
    cfg, view = an.cfg, an.view
    FRESH = effects.FRESH
    IN = {cfg.entry.id: init}
    order = [n for n in cfg.nodes if view.reachable(n)]
    for _ in range(12):
        changed = False
        for n in order:
            if n.id == cfg.entry.id:
                env = init
            else:
                env = None
                for p in view.pred(n):
                    o = IN.get(("out", p.id))
                    if o is None:
                        continue
                    if env is None:
                        env = {k: set(v) for k, v in o.items()}
                    else:
                        for k, v in o.items():
                            env[k] = (env[k] | v) if k in env else (set(v) | {FRESH})
                        for k in list(env):
                            if k not in o:
                                env[k] = env[k] | {FRESH}
                if env is None:
                    continue
            IN[n.id] = env
            out = an.transfer(n, env)
            if IN.get(("out", n.id)) != out:
                IN[("out", n.id)] = out
                changed = True
        if not changed:
            break
    for n in order:
        env = IN.get(n.id)
        if env is None:
            continue
        an.node_effects(n, dict(env))
        if n.kind == "return" and n.ast.value is not None:
            an.sum.ret |= an.val(n.ast.value, dict(env))
    # attribute escapes at exit
    return an.sum


POSITIVE = '''
import numpy as np
def bad_view_store(a):
    b = np.atleast_1d(a)
    c = b.view(np.ndarray)
    c[0] = 1
def bad_ufunc_out(a):
    t = np.asarray(a)
    np.deg2rad(t, t)
def bad_inplace_op(a):
    a *= 2
def bad_callee(a):
    helper(a)
def helper(z):
    z.byteswap(True)
def bad_nan_to_num(a):
    t = np.nan_to_num(np.asarray(a), copy=False, nan=0.0)[::2]
def bad_nan_to_num_then_store(a):
    t = np.nan_to_num(a, False)
    t[0] = 1
def bad_overwrite_input(a):
    m = np.median(np.atleast_1d(a), overwrite_input=True)
def bad_ufunc_at(a):
    np.add.at(a, [0], 1)
def bad_put_along_axis(a):
    np.put_along_axis(a.reshape(1, -1), np.array([[0]]), 0.0, 1)
def bad_dunder(a):
    a.view(np.ndarray).__setitem__(0, 1)
def bad_positional_out(a):
    np.cumsum(a, None, None, a)
def bad_ma_wrapper(a):
    m = np.ma.masked_invalid(a, copy=False)
    m[0] = 0
def bad_clobber_setdefault(a, **keys):
    keys.setdefault("overwrite_input", True)
    return np.percentile(np.asanyarray(a), 50, **keys)
def bad_clobber_dict_copy(a, **keys):
    kw = dict(keys, overwrite_input=True)
    kw2 = kw.copy()
    return np.nanmedian(a, **kw2)
def bad_clobber_store(a, opts=None):
    opts = opts or {}
    opts["overwrite_input"] = True
    return np.quantile(a=np.atleast_1d(a), q=0.5, **opts)
def bad_clobber_inline(a):
    return np.median(a, **{"overwrite_input": True})
def bad_clobber_forwarded(a):
    return pass_keys(a, overwrite_input=True)
def pass_keys(z, **kw):
    return np.percentile(z, 50, **kw)
def good_clobber_caller_choice(a, **keys):
    kw = dict(keys)
    kw["overwrite_input"] = False
    kw.setdefault("axis", 0)
    m = np.percentile(a, 50, **kw)
    n = np.percentile(a, 50, **keys)
    o = np.percentile(np.array(a, copy=True), 50, **{"overwrite_input": True})
    return pass_keys(a, axis=0), pass_keys(a, overwrite_input=False)
def good_library_copies(a):
    t = np.nan_to_num(a)
    t[0] = 1
    u = np.nan_to_num(a, copy=True, nan=0.0)
    u += 1
    m = np.median(a, overwrite_input=False)
    c = np.cumsum(a, None, None, None)
    w = np.ma.masked_invalid(a)
    w[0] = 0
def good_copy(a):
    b = np.array(a, copy=True)
    b[0] = 1
    c = a.astype('f8')
    c += 1
    d = a[np.where(a > 0)]
    d[0] = 3
'''


def selfcheck(chk, eng):
    """the no-sink rule expects zero findings; these tiny examples must (not) match on every run"""
    import tempfile, os, shutil
    d = tempfile.mkdtemp(prefix="vcheck-pos-")
    try:
        os.makedirs(os.path.join(d, "esutil"))
        with open(os.path.join(d, "esutil", "__init__.py"), "w") as f:
            f.write(POSITIVE)
        r2 = PyRepo(d)
        e2 = EffectsX(r2, {})
        exp = {"bad_view_store": True, "bad_ufunc_out": True, "bad_inplace_op": True, "bad_callee": True, "good_copy": False,
               "bad_nan_to_num": True, "bad_nan_to_num_then_store": True, "bad_overwrite_input": True, "bad_ufunc_at": True,
               "bad_put_along_axis": True, "bad_dunder": True, "bad_positional_out": True, "bad_ma_wrapper": True,
               "good_library_copies": False, "bad_clobber_setdefault": True, "bad_clobber_dict_copy": True,
               "bad_clobber_store": True, "bad_clobber_inline": True, "bad_clobber_forwarded": True,
               "good_clobber_caller_choice": False}
        for fn, want in exp.items():
            fi = r2.func("esutil." + fn)
            s = analyse_with_arrays(e2, fi, ["a"], {})
            got = bool(s.mut.get("a"))
            if got != want:
                raise AnalysisError("effect-analysis self-check failed on positive example %s: expected sink=%s got %s" % (fn, want, got))
        chk.notes["positive_examples_matched"] = len(exp)
    finally:
        shutil.rmtree(d, ignore_errors=True)
