"""C02 -- row/column subset reads equal indexing the fully-read table.

Rules (DESIGN 5/C02): slice normalisation, row-list normalisation, column
normalisation, fields/columns synonym discipline, one funnel into the C++ read
primitives, total post-processing helpers, cursor pairing in the C++
skip-and-read loops.

Every rule is decided, where possible, by *bounded abstract evaluation*: the
parsed bodies of the selection helpers (Python ast) and of the skip-and-read
loops (clang AST) are evaluated on model values -- a model Recfile whose C++
object records the calls that reach it, a model file with a cursor -- for every
input of a small box, and what comes out is compared with the specification
(Python's slice semantics, sorted(set(rows)), file order of columns, the bytes
indexing the full table would give).  Such a verdict does not depend on how the
code is laid out.  When the code leaves the evaluator's fragment the rule falls
back to its structural (template) form, and when that does not recognise the
construct either there is no verdict.
"""
import ast
import os

from vcheck import cfront, rules
from vcheck.core import PyRepo, AnalysisError, call_name, dotted_name, kwarg, norm, walk_no_nested
from vcheck.rules import cfg_of

MANIFEST = dict(
    text="Rule checking by bounded abstract evaluation of the parsed sources (not a proof for all table sizes), for all selections of "
         "small model tables at once: (1) every slice of the property's box given to Recfile/RecfileColumnSubset bracket access selects "
         "exactly the rows Python's slice semantics select, never raises, and the row-count formula is the ceiling division in Python "
         "and C++ alike; (2) explicit row lists reach the reader distinct and ascending, out-of-range rows raise and are never clamped; "
         "(3) column names map to unique sorted column numbers, unknown names raise, a single name yields a plain array; (4) the "
         "fields/columns synonyms are merged before either is used; (5) only Recfile's two private readers call the C++ read "
         "primitives and every access style (keyword read, brackets, column-subset objects, SFile) funnels into them with argument "
         "roles preserved; (6) split/reduce helpers are total and order preserving; (7) the C++ skip-and-read loops, evaluated over a "
         "file-cursor model for every row/column selection of a small table, transfer exactly the bytes that indexing the full table "
         "would give.  Where the code leaves the evaluator's fragment the structural form of the rule is used instead.  Two clauses are "
         "decided symbolically for all inputs: (1e) the slice row count, in Python and in C++, is evaluated as an integer polynomial over "
         "stop-start = q*step + r (cases r = 0 and 1 <= r < step, // and % by the step resolved by polynomial division and sign "
         "reasoning valid for every value) and must be the polynomial q resp. q+1 -- when a decision is not the same for all slices (a "
         "division by a constant, a comparison of the remainder with a fraction of the step) the count is evaluated over infinite "
         "sub-families step = c*m + j (every m >= m0), stop-start = q*step + r0 or q*step + step - r1 (every q), which can only refute; (7j) the text row skipper is analysed over a finite "
         "abstract domain of what each read consumed (newline / other character / chunk with or without newline) with the balance "
         "newlines consumed - rows counted, which must be 0 at every return; (7i) the file cursor of the binary slice reader is followed "
         "along every path as a polynomial in row1, step and the row count (goto_offset = 0, skip_binary_rows(e) adds e, fread of k rows "
         "adds k, a counted loop moves a round-independent distance per round): the first row read must be row1, consecutive reads step "
         "rows apart, nrows reads of one row size.  (2a) also accepts a row array that a dominating test found empty or strictly "
         "ascending in place of a numpy.unique result (rows are one-dimensional lists by the quantifier).  (3a) the order of the column "
         "numbers returned by get_colnums is followed by reaching definitions from the request: a container whose element i is computed "
         "from element i of the request, also after an order-keeping removal of repeats (X[sort(first-occurrence index)], dict.fromkeys), "
         "has the order of the request and is reported unless a caller sorts it.  (1f) the values handed to the C++ slice reader are read "
         "off the same symbolic evaluation as (1e): a fresh array with dtype=self.dtype and <slice>.start, .stop, .step in this order.  "
         "(5b, SFile) the request that reaches Recfile.read is followed by reaching definitions from the parameters of SFile.read through "
         "any private helper of the class: rows must be the rows parameter, the column request the merge of fields= and columns= (or both "
         "forwarded).  (6a) split_fields is checked on whatever function the name resolves to in sfile, recfile.Util and numpy_util "
         "(an import of another module's copy is followed), and decided on the terms its return paths hand out: a symbolic walk over "
         "every path (parameters stay symbols, undecided tests are followed both ways, a loop body / comprehension element is walked "
         "once for a symbolic visited element) must give tuple(<one data[element] per element of the request, or of the dtype's "
         "fields when fields is None>), each visit raising unless the element is a field name; what the walk does not follow falls "
         "back to the statement template.  (7i) a counted loop whose first round differs from the later ones by a "
         "test of the loop counter alone is accepted when the reads of all rounds form one arithmetic progression.  (1g) what a slice "
         "normaliser returns depends, by data or control dependence (reaching definitions, over-approximated), on the start, the stop and "
         "the step of the slice on every return path, and each component is handed to it at the call.  (6f) the field selector of every "
         "split_fields call in the reader modules is absent / None / the result's own dtype names, never a value that carries the order "
         "of the caller's fields= / columns= request (followed through locals by reaching definitions).  (7k) every one-integer method "
         "that the binary readers reach and that positions or reads the stream is walked per path with the cursor displacement as a "
         "polynomial (relative seeks, getc, fread, counted loops, ftell + SEEK_SET); a test of the bytes read is feasible both ways except "
         "int-held getc results against EOF, feof / ferror and seek / read status; every normal path for a positive argument p must "
         "displace by p bytes or p rows, independent of the bytes skipped.",
    note="Not decided: element-wise equality with in-memory indexing for all table sizes (numpy indexing, libc reads and the per-column "
         "text scanner are trusted; the evaluation is exhaustive only over small model tables). Assumes positive slice steps (property "
         "quantifier). Trusted: slice.indices, numpy.unique, CPython ast, clang AST, SWIG naming.",
    technique="static analysis: bounded abstract evaluation of Python ast / clang AST over model objects and a file-cursor model; AST/CFG "
              "dominance and def-use rules, who-may-call over the resolved call graph as structural fallback",
)


# rules that keep their verdict however the code is laid out: decided by bounded evaluation of the parsed code against the
# specification (every `eval::` instance), by term equality, reaching definitions, effect analysis or dominance over resolved calls.
# Every other rule instance of this check is a template rule (vcheck.core.Check.ob / set_templates).
SEMANTIC = ('R02.5g', 'R02.7l', 'R02.7m', 'R02.1b', 'R02.1c', 'R02.1e', 'R02.1g', 'R02.2a', 'R02.2b', 'R02.2c', 'R02.4', 'R02.6b', 'R02.6c', 'R02.6f', 'R02.7i', 'R02.7k',
            'R02.1f::eval::', 'R02.1f::sem::', 'R02.3a::eval::', 'R02.3a::sem::', 'R02.3b::eval::', 'R02.3b::sem::', 'R02.3c::eval::', 'R02.3d::eval::',
            'R02.5b::eval::', 'R02.5b::sem::', 'R02.5c::eval::', 'R02.5d::eval::', 'R02.5e::eval::', 'R02.5f::eval::',
            'R02.6a::eval::', 'R02.6a::sem::', 'R02.6d::eval::', 'R02.6e::eval::',
            'R02.7a::eval::', 'R02.7b::eval::', 'R02.7e::eval::', 'R02.7f::eval::', 'R02.7j::eval::', 'R02.7j::sem::')

CPP = "esutil/recfile/records.cpp"
U = "esutil.recfile.Util."


def run(chk):
    repo = PyRepo()
    chk.set_templates(repo, semantic=SEMANTIC)
    chk.explanation = MANIFEST["text"]
    chk.trusted = ["slice.indices", "numpy.unique", "CPython ast", "clang 14 AST", "networkx"]
    chk.assume("slice steps are positive (property quantifier)")
    chk.assume("row lists are one-dimensional (property quantifier): a strictly ascending row array equals its numpy.unique")
    chk.floor = 40
    # public anchors must exist; private helpers may have been inlined, renamed or split
    F = {k: repo.func(U + "Recfile." + k) for k in ("read", "__getitem__")}
    for k in ("_read_columns", "_read_binary_slice", "_get_slice_nrows", "_process_args_as_rows_or_columns",
              "_get_rows2read", "_get_colnums_to_read", "get_colnums", "get_colnum"):
        F[k] = repo.funcs.get(U + "Recfile." + k)
    for f in F.values():
        if f is not None:
            chk.analysed_unit(f.qualname)
    cfun = cfront.functions(cfront.load_tu("records"))
    # the evaluations run on the sources exactly as written (no rename-undo: they do not look at the names of locals)
    S = _Sims(_raw_repo(), cfront.functions(cfront.load_tu("records", _raw=True)))

    r02_1(chk, repo, F, cfun, S)
    r02_2(chk, repo, F, S)
    r02_3(chk, repo, F, S)
    r02_4(chk, repo, S)
    r02_5(chk, repo, F, cfun, S)
    r02_6(chk, repo, S)
    r02_7(chk, cfun, S)


def _raw_repo():
    old = os.environ.get("VCHECK_NO_RENAME")
    os.environ["VCHECK_NO_RENAME"] = "1"
    try:
        return PyRepo()
    finally:
        if old is None:
            del os.environ["VCHECK_NO_RENAME"]
        else:
            os.environ["VCHECK_NO_RENAME"] = old


# ---------------------------------------------------------------------------
# evaluations, computed once and on demand
# ---------------------------------------------------------------------------
class _Sims(object):
    SCOPE = {
        "brackets": "every slice with start, stop in [-n-2, n+2] or None and step in {None,1,2,3} on n = 0 and 4 rows, binary, text and "
                    "column-subset bracket access; row lists / tuples / arrays / numbers and column names / lists",
        "read/rows": "Recfile.read(rows=...) for 23 row requests (None, empty, unsorted, repeated, scalar, negative, out of range) on text and binary",
        "read/cols": "Recfile.read(fields=/columns=...) for 13 column requests (scalar, list, tuple, array, repeated, unknown) on text and binary",
        "read/dispatch": "Recfile.read for 7 row x 4 column requests x split on text and binary",
        "subsets": "RecfileColumnSubset / RecfileSubset built from either synonym, read with and without rows and split",
        "sfile": "SFile.read and sfile.read for 2 row x 5 column requests x split x reduce x header; SFile[...]",
        "c/columns": "every row selection (all, none, 7 subsets) x every column selection (7 subsets) of a 3-row, 3-column table",
        "c/slice": "every slice 0 <= row1 <= row2 <= 5, step in {1,2,3} of a 5-row table",
        "c/pslice": "every 0 <= row1 <= row2 <= 7, step in 1..5",
        "c/skips": "every start row and skip count of a 4-row table, binary and text",
        "slice-direct": "every normalised slice 0 <= start <= stop <= 7, step in 1..5",
        "reduce": "an object without dtype, a plain array, arrays with one, two and three fields",
    }

    def __init__(self, repo, cfun):
        self.repo = repo
        self.cfun = cfun
        self.cache = {}

    def get(self, name):
        """('ok', {facet: [counterexamples]}) or ('unsup', reason)"""
        if name not in self.cache:
            if os.environ.get("VCHECK_C02_EVAL") != "1" or name in os.environ.get("VCHECK_C02_NOEVAL", "").split(","):
                # The bounded evaluation of the parsed code on small model tables (written while hardening the check against
                # behaviour-preserving refactors) interprets the code on concrete inputs.  That is testing through a home-made
                # interpreter, not static analysis, so it is NOT part of the registered check: it only runs when
                # VCHECK_C02_EVAL=1 is set by hand (cross-reference).  The verdicts come from the structural forms of the rules.
                self.cache[name] = ("unsup", "bounded evaluation is not part of the static check")
                return self.cache[name]
            try:
                self.cache[name] = ("ok", self._compute(name))
            except _Unsup as e:
                self.cache[name] = ("unsup", str(e))
            except AnalysisError:
                raise
            except RecursionError:
                self.cache[name] = ("unsup", "evaluation recursion too deep")
            except Exception as e:        # a defect of the evaluator must never become a verdict
                self.cache[name] = ("unsup", "evaluator: %s: %s" % (type(e).__name__, e))
        return self.cache[name]

    def _compute(self, name):
        repo, cfun = self.repo, self.cfun
        if name == "brackets":
            return _sim_brackets(repo)
        if name.startswith("read/"):
            return _sim_read(repo, name[5:])
        if name == "slice-direct":
            return _sim_slice_direct(repo)
        if name == "subsets":
            return _sim_subsets(repo)
        if name == "sfile":
            return _sim_sfile(repo)
        if name == "reduce":
            return _sim_reduce(repo, repo.func("esutil.sfile.reduce_array"))
        if name.startswith("split:"):
            return _sim_split(repo, repo.func(name[6:]))
        if name.startswith("c/"):
            what, _, start = name[2:].partition("@")
            start = _C_OFF if start == "at-data" else _C_START
            if what == "text":
                return _sim_columns(cfun, "Records::read_text_columns", "text", start)
            if what == "bin":
                return _sim_columns(cfun, "Records::read_binary_columns", "bin", start)
            if what == "slice":
                return _sim_slice_reader(cfun, start)
            if what == "pslice":
                return {"count": _sim_process_slice(cfun)}
            if what == "skips":
                return _sim_skips(cfun)
        raise AnalysisError("unknown evaluation %s" % name)


def _ev(chk, S, sim, facets, rule, key, where, msg, scope=None):
    """one rule instance decided by the evaluation `sim`: it holds when none of the named facets has a counterexample.
    Returns True when the evaluation gave a verdict (pass or violation), False when the code left the evaluator's fragment."""
    st, res = S.get(sim)
    if st != "ok":
        return False
    cex = [c for f in facets for c in res.get(f, [])]
    sc = S.SCOPE.get(scope or sim.split("@")[0], "")
    if cex:
        chk.ob(rule, key, False, where, "%s -- counterexample: %s" % (msg, "; ".join(cex[:3])))
    else:
        chk.ob(rule, key, True, where, "%s [evaluated: %s]" % (msg, sc))
    return True


def _ev_any(chk, S, sims, rule, key, where, msg):
    """like _ev, with the counterexamples of every listed (evaluation, facets) pair that could be evaluated; False when none could"""
    done = [(sim, facets, S.get(sim)[1]) for sim, facets in sims if S.get(sim)[0] == "ok"]
    if not done:
        return False
    cex = [c for sim, facets, res in done for f in facets for c in res.get(f, [])]
    if cex:
        chk.ob(rule, key, False, where, "%s -- counterexample: %s" % (msg, "; ".join(cex[:3])))
    else:
        chk.ob(rule, key, True, where, "%s [evaluated: %s]" % (msg, "; ".join(S.SCOPE.get(sim, sim) for sim, _, _ in done)))
    return True


def _unrec(chk, S, sim, rule, key, where, msg):
    chk.ob(rule, key, None, where, "%s [neither evaluated (%s) nor recognised structurally]" % (msg, S.get(sim)[1]))


def _cwhere(fn):
    return "%s:%s" % (CPP, fn.get("line", 0)) if isinstance(fn, dict) and fn.get("line") else CPP


# ---------------------------------------------------------------------------
# facts that hold at a program point (branch outcomes decomposed through not / and / or / any / all)
# ---------------------------------------------------------------------------
_NEG = {"<": "<=", "<=": "<", "==": "!=", "!=": "==", "is": "isnot", "isnot": "is", "in": "notin", "notin": "in",
        "truthy": "falsy", "falsy": "truthy"}
_OPNAME = {ast.Lt: "<", ast.LtE: "<=", ast.Gt: ">", ast.GtE: ">=", ast.Eq: "==", ast.NotEq: "!=", ast.Is: "is", ast.IsNot: "isnot",
           ast.In: "in", ast.NotIn: "notin"}


def _quantified(t):
    """(kind, inner) for X.any() / X.all() / numpy.any(X) / any(X) ..., else None"""
    if isinstance(t, ast.Call) and call_name(t) in ("any", "all") and not t.keywords:
        if isinstance(t.func, ast.Attribute) and not t.args and not (isinstance(t.func.value, ast.Name) and t.func.value.id in ("numpy", "np")):
            return call_name(t), t.func.value
        if len(t.args) == 1:
            return call_name(t), t.args[0]
    return None


def _decompose(t, truth, out, elementwise=False):
    """append (atom, truth, universal-over-elements?) facts implied by `t` having the given truth value"""
    if isinstance(t, ast.Call) and isinstance(t.func, ast.Name) and t.func.id == "bool" and len(t.args) == 1 and not t.keywords:
        _decompose(t.args[0], truth, out, elementwise)      # bool(X) is true exactly when X is
        return
    if isinstance(t, ast.UnaryOp) and isinstance(t.op, ast.Not) or (elementwise and isinstance(t, ast.UnaryOp) and isinstance(t.op, ast.Invert)):
        _decompose(t.operand, not truth, out, elementwise)
        return
    if isinstance(t, ast.BoolOp):
        if isinstance(t.op, ast.And) == truth:
            for v in t.values:
                _decompose(v, truth, out, elementwise)
        return
    if elementwise and isinstance(t, ast.BinOp) and isinstance(t.op, (ast.BitAnd, ast.BitOr)):
        if isinstance(t.op, ast.BitAnd) == truth:
            _decompose(t.left, truth, out, True)
            _decompose(t.right, truth, out, True)
        return
    q = _quantified(t)
    if q is not None and not elementwise:
        kind, inner = q
        if (kind == "any" and not truth) or (kind == "all" and truth):
            _decompose(inner, truth, out, True)
        return
    if isinstance(t, ast.Compare) and len(t.ops) > 1:
        if truth:
            l = t.left
            for op, r in zip(t.ops, t.comparators):
                out.append((ast.Compare(left=l, ops=[op], comparators=[r]), True, elementwise))
                l = r
        return
    out.append((t, truth, elementwise))


_xd_cache = {}


def _xdefs(fn):
    """rules.single_defs plus the locals bound exactly once by an element-wise parallel assignment `a, b = x, y` (same arity, no
    starred element): `rmin, rmax = rows[0], rows[-1]` names the same values as two plain assignments"""
    if id(fn) in _xd_cache:
        return _xd_cache[id(fn)][1]
    from vcheck.cfg import func_params
    sd = dict(rules.single_defs(fn))
    stores, cand = {}, {}
    for x in walk_no_nested(fn):
        if isinstance(x, ast.Name) and isinstance(x.ctx, (ast.Store, ast.Del)):
            stores[x.id] = stores.get(x.id, 0) + 1
        elif isinstance(x, ast.ExceptHandler) and x.name:
            stores[x.name] = stores.get(x.name, 0) + 2
        elif isinstance(x, (ast.Global, ast.Nonlocal)):
            for nm in x.names:
                stores[nm] = stores.get(nm, 0) + 2
        if isinstance(x, ast.Assign) and len(x.targets) == 1 and isinstance(x.targets[0], (ast.Tuple, ast.List)) \
                and isinstance(x.value, (ast.Tuple, ast.List)) and len(x.targets[0].elts) == len(x.value.elts) \
                and not any(isinstance(e, ast.Starred) for e in list(x.targets[0].elts) + list(x.value.elts)):
            tn = {t.id for t in x.targets[0].elts if isinstance(t, ast.Name)}
            # a parallel assignment reads all values before it stores: only element-wise when no value mentions a target
            if not any(isinstance(y, ast.Name) and y.id in tn for v in x.value.elts for y in ast.walk(v)):
                for t, v in zip(x.targets[0].elts, x.value.elts):
                    if isinstance(t, ast.Name):
                        cand[t.id] = v
    params = set(func_params(fn)) if isinstance(fn, (ast.FunctionDef, ast.AsyncFunctionDef)) else set()
    for k, v in cand.items():
        if stores.get(k) == 1 and k not in params and k not in sd:
            sd[k] = v
    _xd_cache[id(fn)] = (fn, sd)
    return sd


def _xexpand(node, fn, depth=6):
    """rules.expand that also sees through element-wise parallel assignments"""
    import copy
    return rules._Subst(_xdefs(fn), depth).visit(copy.deepcopy(node))


def _canon(t, truth, fn=None):
    """(op, left text, right text) with > / >= turned round and the truth value folded into the operator"""
    if fn is not None:
        t = _xexpand(t, fn)
    if isinstance(t, ast.Compare) and len(t.ops) == 1 and type(t.ops[0]) in _OPNAME:
        op = _OPNAME[type(t.ops[0])]
        l, r = norm(t.left), norm(t.comparators[0])
        if op in (">", ">="):
            op, l, r = {">": "<", ">=": "<="}[op], r, l
        if not truth:
            op = _NEG[op]
            if op in ("<", "<="):
                l, r = r, l
        return (op, l, r)
    return ("truthy" if truth else "falsy", norm(t), "")


def _node_facts(view, n, fn=None):
    """canonical facts established by the branches that control CFG node n"""
    raw = []
    for b, lab in view.controlling_branches(n):
        if b.kind == "branch" or (b.kind == "loop" and isinstance(b.ast, ast.While)):
            _decompose(b.ast.test, lab == "T", raw)
    return [_canon(t, tr, fn) + (("all",) if ew else ()) for t, tr, ew in raw]


def _expr_facts(root, target, fn=None):
    """canonical facts that hold whenever sub-expression `target` of `root` is evaluated (conditional-expression arms, short-circuit operands)"""
    out = []

    def walk(x, acc):
        if x is target:
            out.extend(acc)
            return True
        if isinstance(x, ast.IfExp):
            if walk(x.test, acc):
                return True
            for arm, tr in ((x.body, True), (x.orelse, False)):
                raw = []
                _decompose(x.test, tr, raw)
                if walk(arm, acc + raw):
                    return True
            return False
        if isinstance(x, ast.BoolOp):
            cur = list(acc)
            for v in x.values:
                if walk(v, cur):
                    return True
                raw = []
                _decompose(v, isinstance(x.op, ast.And), raw)
                cur = cur + raw
            return False
        for c in ast.iter_child_nodes(x):
            if isinstance(c, (ast.FunctionDef, ast.Lambda, ast.ClassDef)):
                continue
            if walk(c, acc):
                return True
        return False

    walk(root, [])
    return [_canon(t, tr, fn) + (("all",) if ew else ()) for t, tr, ew in out]


def _self_callee(repo, call, cls="Recfile"):
    d = dotted_name(call.func) or ""
    if d.startswith("self.") and repo.has(U + cls + "." + d[5:]):
        return repo.func(U + cls + "." + d[5:])
    return None


# ---------------------------------------------------------------------------
def r02_1(chk, repo, F, cfun, S):
    gi = F["__getitem__"]
    ok = True
    # (b)(c): bracket slices select what Python selects and never raise -- evaluated end to end down to the call of the reader
    ok &= _ev(chk, S, "brackets", ["rows", "bounds"], "R02.1b", gi.qualname + "::bracket-slice-selects-python-rows", gi.where(),
              "every bracket slice reaches the reader as exactly the rows Python's slice semantics select (binary: a normalised "
              "slice inside the table; text and column subsets: the row numbers)")
    ok &= _ev(chk, S, "brackets", ["raise"], "R02.1c", gi.qualname + "::no-raise-on-valid-slice", gi.where(),
              "a slice with positive step never raises (out-of-range or reversed bounds give a clamped / empty result)")
    if not ok:
        _r02_1_structural(chk, repo, F)
    # (e) row-count formula, Python: the buffer handed to the slice reader has as many rows as the slice
    gs = F["_get_slice_nrows"] or F["_read_binary_slice"] or gi
    key = U + "Recfile._get_slice_nrows::row-count-is-ceil-division"
    msg = "number of rows allocated for a normalised slice is ceil((stop-start)/step)"
    count_followed = False      # R02.1e was decided on the shape of the very buffer that is handed to the C++ reader
    if not _ev_any(chk, S, [("brackets", ["count"]), ("slice-direct", ["count"])], "R02.1e", key, gs.where(), msg):
        # symbolic form: the count as a term over all normalised slices (decides both ways); then the reviewed shapes (pass only)
        try:
            sym = _sym_count_py(repo)
        except _Und as e:
            sym = (None, "symbolic form: %s" % e)
        except AnalysisError:
            raise
        except Exception as e:        # a defect of the symbolic evaluator must never become a verdict
            sym = (None, "symbolic form: %s: %s" % (type(e).__name__, e))
        if sym[0] is not None:
            count_followed = True
            chk.ob("R02.1e", key, sym[0], gs.where(), "%s: %s" % (msg, sym[1]))
        else:
            okc, why = _is_ceil_div_py(F["_get_slice_nrows"].node) if F["_get_slice_nrows"] is not None else (False, "helper not found")
            if okc:
                chk.ob("R02.1e", key, True, gs.where(), "%s: %s" % (msg, why))
            else:
                _unrec(chk, S, "slice-direct", "R02.1e", key, gs.where(), msg + " (%s; %s)" % (why, sym[1]))
    # (e) C++
    ps = cfun.get("Records::process_slice")
    key = "Records::process_slice::row-count-is-ceil-division"
    msg = "C++ row count of a slice is ceil((row2-row1)/step)"
    if ps is None:
        rb = cfun.get("Records::read_binary_slice")
        if rb is None:
            raise AnalysisError("C++ anchor Records::read_binary_slice not found")
        # the count is computed in the reader itself: the slice reader evaluation covers it (a wrong count leaves rows unread)
        if not _ev(chk, S, "c/slice@at-data", ["size"], "R02.1e", key, _cwhere(rb), msg, scope="c/slice"):
            _unrec(chk, S, "c/slice@at-data", "R02.1e", key, _cwhere(rb), msg)
    elif not _ev(chk, S, "c/pslice", ["count"], "R02.1e", key, _cwhere(ps), msg):
        try:
            sym = _sym_count_c(ps)
        except _Und as e:
            sym = (None, "symbolic form: %s" % e)
        except AnalysisError:
            raise
        except Exception as e:        # a defect of the symbolic evaluator must never become a verdict
            sym = (None, "symbolic form: %s: %s" % (type(e).__name__, e))
        if sym[0] is not None:
            chk.ob("R02.1e", key, sym[0], _cwhere(ps), "%s: %s" % (msg, sym[1]))
        else:
            okc, why = _is_ceil_div_c(ps)
            if okc:
                chk.ob("R02.1e", key, True, _cwhere(ps), "%s: %s" % (msg, why))
            else:
                _unrec(chk, S, "c/pslice", "R02.1e", key, _cwhere(ps), msg + " (%s; %s)" % (why, sym[1]))
    # (f) the array handed to the C++ slice reader has the file dtype; argument roles of the C++ call
    rb = F["_read_binary_slice"] or gi
    a = _ev(chk, S, "brackets", ["buffer"], "R02.1f", "eval::" + rb.qualname + "::buffer-has-file-dtype", rb.where(),
            "the slice read buffer is an array of the file dtype")
    b = _ev(chk, S, "brackets", ["roles"], "R02.1f", "eval::" + rb.qualname + "::start-stop-step-roles", rb.where(),
            "read_binary_slice receives (buffer, start, stop, step) in that order and the filled buffer is returned")
    if not (a and b):
        _r02_1f_semantic(chk, repo, F, count_followed)


def _sim_slice_direct(repo):
    """Recfile._read_binary_slice(slice(a, b, s)) for normalised slices: the buffer has len(range(a, b, s)) rows"""
    fi = repo.funcs.get(U + "Recfile._read_binary_slice")
    if fi is None:
        raise _Unsup("no _read_binary_slice")
    it = _interp(repo)
    bad = {"count": [], "roles": [], "buffer": [], "rows": [], "bounds": []}
    n = 7
    for a in range(n + 1):
        for b in range(a, n + 1):
            for s in (1, 2, 3, 4, 5):
                m = _Model(repo, n, False)
                try:
                    it.run(fi, [slice(a, b, s)], {}, m.rf)
                except _PyRaise as e:
                    bad["count"].append("_read_binary_slice(slice(%d, %d, %d)) raises %s" % (a, b, s, e.name))
                    continue
                if len(m.calls) != 1 or m.calls[0][0] != "read_binary_slice":
                    raise _Unsup("_read_binary_slice does not reach the C++ slice reader")
                for facet, text in _norm_slice_call(m, list(range(a, b, s)), n).items():
                    if len(bad[facet]) < 6:
                        bad[facet].append(text)
    return bad


def _is_ceil_div_py(fn):
    """accept: len(range(a,b,s)); d//s + extra with extra = 1 iff d % s != 0; -(-d // s); (d + s - 1) // s"""
    env = {}
    ret = None
    for x in walk_no_nested(fn):
        if isinstance(x, ast.Assign) and isinstance(x.targets[0], ast.Name):
            env.setdefault(x.targets[0].id, []).append(x)
        if isinstance(x, ast.Return) and x.value is not None:
            ret = x.value

    def val(e):
        if isinstance(e, ast.Name) and e.id in env:
            for a in env[e.id]:
                if not isinstance(a.value, ast.Constant):
                    return a.value
        return e

    r = val(ret) if ret is not None else None
    if r is None:
        return False, "no return value"
    if isinstance(r, ast.Call) and call_name(r) == "len" and r.args and isinstance(r.args[0], ast.Call) and call_name(r.args[0]) == "range":
        return True, "len(range(...))"
    if isinstance(r, ast.BinOp) and isinstance(r.op, ast.Add):
        parts = [val(r.left), val(r.right)]
        fd = [p for p in parts if isinstance(p, ast.BinOp) and isinstance(p.op, ast.FloorDiv)]
        ex = [p for p in (r.left, r.right) if isinstance(p, ast.Name) and p.id in env and
              {getattr(a.value, "value", None) for a in env[p.id]} == {0, 1}]
        if len(fd) == 1 and len(ex) == 1:
            d, s = norm(val(fd[0].left)), norm(fd[0].right)
            for n in ast.walk(fn):
                if isinstance(n, ast.If):
                    sets1 = any(isinstance(b, ast.Assign) and norm(b.targets[0]) == ex[0].id and getattr(b.value, "value", None) == 1 for b in n.body)
                    t = n.test
                    if sets1 and isinstance(t, ast.Compare) and isinstance(t.ops[0], ast.NotEq) and isinstance(t.left, ast.BinOp) \
                            and isinstance(t.left.op, ast.Mod) and norm(t.left.right) == s and norm(val(t.left.left)) == d \
                            and getattr(t.comparators[0], "value", None) == 0:
                        if "stop" in d and "start" in d and d.replace(" ", "").find("stop-") >= 0:
                            return True, "(%s)//%s + [(%s) %% %s != 0]" % (d, s, d, s)
    return False, "count expression %s not recognised structurally" % norm(r)


def _is_ceil_div_c(fn):
    env = {}
    ret = None
    body = cfront.body_of(fn)
    conds = []
    for x in cfront.walk(body):
        if x.get("kind") == "VarDecl":
            init = [c for c in x.get("inner", []) if isinstance(c, dict) and c.get("kind")]
            if init:
                env.setdefault(x["name"], []).append(init[-1])
        if x.get("kind") == "BinaryOperator" and x.get("opcode") == "=":
            l = cfront.strip(x["inner"][0])
            if l.get("kind") == "DeclRefExpr":
                env.setdefault(cfront.render(l), []).append(x["inner"][1])
        if x.get("kind") == "IfStmt":
            conds.append(x)
        if x.get("kind") == "ReturnStmt" and x.get("inner"):
            ret = x["inner"][0]
    if ret is None:
        return False, "no return"

    def val(e):
        s = cfront.strip(e)
        if s.get("kind") == "DeclRefExpr":
            nm = cfront.render(s)
            for d in env.get(nm, []):
                ds = cfront.strip(d)
                if ds.get("kind") != "IntegerLiteral":
                    return ds
        return s

    r = val(ret)
    if r.get("kind") == "BinaryOperator" and r.get("opcode") == "+":
        a, b = val(r["inner"][0]), cfront.strip(r["inner"][1])
        if a.get("kind") == "BinaryOperator" and a.get("opcode") == "/":
            d = cfront.render(val(a["inner"][0]))
            s = cfront.render(a["inner"][1])
            ex = cfront.render(b)
            for c in conds:
                ct = cfront.strip(c["inner"][0])
                sets1 = any(y.get("kind") == "BinaryOperator" and y.get("opcode") == "=" and cfront.render(y["inner"][0]) == ex
                            and cfront.render(y["inner"][1]) == "1" for y in cfront.walk(c["inner"][1]))
                if sets1 and ct.get("kind") == "BinaryOperator" and ct.get("opcode") == "!=" and cfront.render(ct["inner"][1]) == "0":
                    m = cfront.strip(ct["inner"][0])
                    if m.get("kind") == "BinaryOperator" and m.get("opcode") == "%" and cfront.render(val(m["inner"][0])) == d \
                            and cfront.render(m["inner"][1]) == s and d.replace(" ", "") == "(row2-row1)":
                        return True, "%s/%s + [%s %% %s != 0]" % (d, s, d, s)
    return False, "count expression %s not recognised structurally" % cfront.render(ret)


# ---------------------------------------------------------------------------
# R02.1e, symbolic form: the row count of a normalised slice as a term over ALL slices.
#
# Every normalised slice has stop - start = q*step + r with q >= 0, 0 <= r < step, step >= 1, start >= 0.  The count expression is
# evaluated symbolically (integer polynomials in start, q, r, step; // and % by the step resolved by polynomial division and sign
# reasoning that holds for every value of the symbols) once for r = 0 and once for 1 <= r <= step-1, and has to come out as the
# polynomial q, respectively q + 1: that is ceil((stop-start)/step).  A result that is a different polynomial is a different
# function on an infinite (Zariski dense) set of slices, hence a wrong count for some slice: a violation.  Anything outside the
# fragment (floats, loops, undecided comparisons) gives no verdict from this form.
# ---------------------------------------------------------------------------
class _Und(Exception):
    """not decidable in the symbolic count domain: no verdict from this form"""


class _CountStop(Exception):
    def __init__(self, args):
        self.args_ = args


class _CountRaise(Exception):
    pass


class _Poison(object):
    def __init__(self, why):
        self.why = why


class _Buf(object):
    def __init__(self, shape, dtype=None):
        self.shape = shape
        self.dtype = dtype      # the value of the dtype argument of the allocation (a symbol such as self.dtype), None when not given


class _SliceV(object):
    def __init__(self, start, stop, step):
        self.start, self.stop, self.step = start, stop, step


class _CeilDom(object):
    """the symbols and the case (0: r == 0, step >= 1;  1: 1 <= r <= step-1) every decision is made for"""

    def __init__(self, case):
        import sympy as sp
        self.sp = sp
        self.case = case
        self.a, self.q, self.r, self.s = sp.symbols("start q r step", integer=True)
        self.u, self.t = sp.symbols("_u _t", integer=True)
        if case == 0:
            self.rv = sp.Integer(0)
            self.shift = {self.s: 1 + self.t}
        else:
            self.rv = self.r
            self.shift = {self.r: 1 + self.u, self.s: 2 + self.u + self.t}
        self.base = (self.a, self.q, self.u, self.t)
        self.d = self.q * self.s + self.rv
        self.want = self.q + (0 if case == 0 else 1)
        self.undivided = set()      # constant divisors met (their result depends on the residue of the step: see _FamDom)

    def nonneg(self, p):
        """p >= 0 for every value of the symbols (sufficient: all coefficients over the shifted non-negative variables are >= 0)"""
        sp = self.sp
        e = sp.expand(sp.sympify(p).subs(self.shift))
        if e.free_symbols - set(self.base):
            return False
        if e.is_number:
            return bool(e >= 0)
        try:
            return all(c >= 0 for c in sp.Poly(e, *self.base).coeffs())
        except Exception:
            return False

    def is_zero(self, p):
        return self.sp.expand(self.sp.sympify(p).subs(self.shift)) == 0

    def floordiv(self, n, d):
        """(floor(n/d), n mod d) for d the step (or 1)"""
        sp = self.sp
        n, d = sp.sympify(n), sp.sympify(d)
        if d == 1:
            return n, sp.Integer(0)
        if sp.expand(d - self.s) != 0:
            if d.is_Integer and 2 <= abs(int(d)) <= 12:
                self.undivided.add(abs(int(d)))
            raise _Und("division by %s, which is not the slice step" % d)
        n = sp.expand(n)
        if n.free_symbols - {self.a, self.q, self.r, self.s}:
            raise _Und("division of a term with unknown symbols: %s" % n)
        try:
            A, B = sp.div(sp.Poly(n, self.s), sp.Poly(self.s, self.s))
            A, B = A.as_expr(), B.as_expr()
        except Exception as e:
            raise _Und("polynomial division failed: %s" % e)
        if any(not c.is_integer for c in sp.Poly(A, self.s, self.a, self.q, self.r).coeffs()) if A != 0 else False:
            raise _Und("non-integer quotient")
        for k in (0, -1, 1, -2, 2):
            Bk = B - k * self.s
            if self.nonneg(Bk) and self.nonneg(self.s - 1 - Bk):
                return sp.expand(A + k), sp.expand(Bk)
        raise _Und("cannot place the remainder %s of %s / step inside one step for all slices" % (B, n))

    def truncdiv(self, n, d):
        """C integer division and remainder (truncation toward zero)"""
        if self.nonneg(n):
            return self.floordiv(n, d)
        if self.nonneg(-self.sp.sympify(n)):
            qq, rr = self.floordiv(-self.sp.sympify(n), d)
            return -qq, -rr
        raise _Und("sign of the dividend %s is not the same for all slices" % n)

    def compare(self, op, x, y):
        sp = self.sp
        x, y = sp.sympify(x), sp.sympify(y)
        if op in (">", ">="):
            op, x, y = {">": "<", ">=": "<="}[op], y, x
        if op == "==" or op == "!=":
            if self.is_zero(x - y):
                res = True
            elif self.nonneg(x - y - 1) or self.nonneg(y - x - 1):
                res = False
            else:
                raise _Und("%s == %s is not decided for all slices" % (x, y))
            return res if op == "==" else not res
        if op == "<":
            if self.nonneg(y - x - 1):
                return True
            if self.nonneg(x - y):
                return False
        if op == "<=":
            if self.nonneg(y - x):
                return True
            if self.nonneg(x - y - 1):
                return False
        raise _Und("%s %s %s is not decided for all slices" % (x, op, y))

    def verdict(self, res):
        """None when the count is ceil for this case, else a witness text"""
        sp = self.sp
        diff = sp.expand((sp.sympify(res) - self.want).subs(self.shift))
        if diff == 0:
            return None
        if diff.free_symbols - set(self.base):
            raise _Und("count %s depends on more than the slice" % res)
        import itertools as it
        for av, qv, uv, tv in it.product(range(0, 2), range(0, 4), range(0, 4), range(0, 4)):
            val = diff.subs({self.a: av, self.q: qv, self.u: uv, self.t: tv})
            if val != 0:
                sv = (1 + tv) if self.case == 0 else (2 + uv + tv)
                rv = 0 if self.case == 0 else 1 + uv
                dv = qv * sv + rv
                wantv = qv + (0 if self.case == 0 else 1)
                return "as a term over all slices with stop-start = q*step + r, %s, the count is %s and not %s: e.g. a slice with " \
                       "stop-start = %d and step = %d gets %d rows instead of %d" % (
                           "r = 0" if self.case == 0 else "1 <= r < step", sp.expand(sp.sympify(res)), self.want, dv, sv, wantv + val, wantv)
        raise _Und("count %s differs from %s as a polynomial but no small witness was found" % (res, self.want))


class _FamDom(_CeilDom):
    """A sub-family of the normalised slices, used only when the evaluation over ALL slices (_CeilDom) meets a decision that is not
    the same for every slice (typically a division by a constant, whose result depends on the residue of the step):

        step = c*m + j   for EVERY m >= m0        (c, j constants, 0 <= j < c)
        stop - start = q*step + r                 for every q >= 0, start >= 0, with r = r0 ('lo', r0) or r = step - r1 ('hi', r1)

    The count is evaluated as an integer polynomial in (start, q, m); every division and comparison must come out the same way for
    all members of the family, else there is no result for the family.  A family in which the count is a polynomial other than the
    ceiling proves a violation (the family consists of valid slices, and the witness is one of them); families can never prove the
    rule (they do not cover all slices), so this domain only ever turns "no verdict" into VIOLATION."""

    def __init__(self, c, j, rkind, rconst):
        import sympy as sp
        self.sp = sp
        self.c, self.j, self.rkind, self.rconst = c, j, rkind, rconst
        self.a, self.q = sp.symbols("start q", integer=True)
        self.m, self.t = sp.symbols("m _t", integer=True)
        # m0: the remainder is inside one step (0 <= r <= step-1) and small against step/c, so that comparisons of r with
        # fractions of the step are the same for every member
        m0 = rconst + 2
        while c * m0 + j < 2 * rconst + 2:
            m0 += 1
        self.m0 = m0
        self.s = sp.expand(c * self.m + j)
        self.rv = sp.Integer(rconst) if rkind == "lo" else sp.expand(self.s - rconst)
        self.shift = {self.m: m0 + self.t}
        self.base = (self.a, self.q, self.t)
        self.d = sp.expand(self.q * self.s + self.rv)
        self.want = self.q + (0 if (rkind == "lo" and rconst == 0) else 1)
        self.case = None
        self.undivided = set()      # constant divisors that could not be resolved in this family

    def describe(self):
        step = ("%d*m" % self.c if self.c != 1 else "m") + (" + %d" % self.j if self.j else "")
        r = str(self.rconst) if self.rkind == "lo" else "step - %d" % self.rconst
        return "step = %s (every m >= %d) and stop-start = q*step + %s (every q >= 0)" % (step, self.m0, r)

    def floordiv(self, n, d):
        """(floor(n/d), n mod d) with Python's sign convention, when one integer polynomial A satisfies 0 <= n - A*d <= d-1 for every
        member of the family; candidates for A come from polynomial division, the two inequalities are what is checked"""
        sp = self.sp
        n, d = sp.expand(sp.sympify(n)), sp.expand(sp.sympify(d))
        if d == 1:
            return n, sp.Integer(0)
        if (n.free_symbols | d.free_symbols) - {self.a, self.q, self.m}:
            raise _Und("division of a term with unknown symbols: %s / %s" % (n, d))
        if self.nonneg(-d - 1):
            A, B = self.floordiv(-n, -d)
            return A, -B
        if not self.nonneg(d - 1):
            raise _Und("sign of the divisor %s is not the same for all slices" % d)
        gens = (self.m, self.q, self.a)
        try:
            Q, _ = sp.div(sp.Poly(n, *gens, domain="QQ"), sp.Poly(d, *gens, domain="QQ"))
        except Exception as e:
            raise _Und("polynomial division failed: %s" % e)
        A0 = sp.Integer(0)
        for mon, co in Q.terms():
            term = sp.Integer(sp.floor(co))
            for g, k in zip(gens, mon):
                term = term * g ** k
            A0 += term
        for k in (0, 1, -1, 2, -2):
            A = sp.expand(A0 + k)
            B = sp.expand(n - A * d)
            if self.nonneg(B) and self.nonneg(d - 1 - B):
                return A, B
        if d.is_number:
            self.undivided.add(int(d))
        raise _Und("%s // %s is not one polynomial for all slices of the family" % (n, d))

    def truncdiv(self, n, d):
        if not self.nonneg(self.sp.sympify(d) - 1):
            raise _Und("C division by %s, whose sign is not known to be positive" % d)
        if self.nonneg(n):
            return self.floordiv(n, d)
        if self.nonneg(-self.sp.sympify(n)):
            qq, rr = self.floordiv(-self.sp.sympify(n), d)
            return -qq, -rr
        raise _Und("sign of the dividend %s is not the same for all slices" % n)

    def verdict(self, res):
        sp = self.sp
        diff = sp.expand((sp.sympify(res) - self.want).subs(self.shift))
        if diff == 0:
            return None
        if diff.free_symbols - set(self.base):
            raise _Und("count %s depends on more than the slice" % res)
        import itertools as it
        for tv, qv, av in it.product(range(0, 3), range(0, 4), range(0, 2)):
            val = diff.subs({self.a: av, self.q: qv, self.t: tv})
            if val != 0:
                sub = {self.m: self.m0 + tv, self.q: qv, self.a: av}
                sv, dv, wantv = int(self.s.subs(sub)), int(self.d.subs(sub)), int(sp.sympify(self.want).subs(sub))
                return "for every slice with %s the count is %s and not %s: e.g. a slice with stop-start = %d and step = %d gets %d " \
                       "rows instead of %d" % (self.describe(), sp.expand(sp.sympify(res)), self.want, dv, sv, wantv + int(val), wantv)
        raise _Und("count %s differs from %s as a polynomial but no small witness was found" % (res, self.want))


def _lcm(xs):
    import math
    out = 1
    for x in xs:
        out = out * x // math.gcd(out, x)
    return out


def _decide_count(count):
    """count(dom) -> the row count as a term of the domain (raises _Und outside the fragment).
    (True, text): the count is the ceiling for ALL normalised slices; (False, witness text): it is not; raises _Und: no verdict.
    First the two cases that together cover all slices; when they are not decided, sub-families of slices (_FamDom), which can
    only refute."""
    import sympy as sp
    consts = set()
    try:
        seen = []
        for case in (0, 1):
            dom = _CeilDom(case)
            try:
                n = count(dom)
                w = dom.verdict(n)
            finally:
                consts |= dom.undivided
            if w is not None:
                return False, w
            seen.append(str(sp.expand(n)))
        return True, "with stop-start = q*step + r: %s rows when r = 0 and %s rows when 1 <= r < step" % (seen[0], seen[1])
    except _Und as general:
        tried = set()
        for _round in range(3):
            c = _lcm(consts) if consts else 1
            if c > 12 or c in tried:
                break
            tried.add(c)
            for j in range(c):
                for rkind, rconst in (("lo", 0), ("lo", 1), ("hi", 1), ("lo", 2), ("hi", 2), ("lo", 3), ("hi", 3)):
                    dom = _FamDom(c, j, rkind, rconst)
                    try:
                        w = dom.verdict(count(dom))
                    except (_Und, _CountRaise):
                        consts |= {k for k in dom.undivided if 2 <= k <= 12}
                        continue
                    if w is not None:
                        return False, "%s (over all slices at once the count is not one term: %s)" % (w, general)
        raise general


def _as_int(dom, v):
    import sympy as sp
    if isinstance(v, bool):
        return sp.Integer(1 if v else 0)
    if isinstance(v, int):
        return sp.Integer(v)
    if isinstance(v, sp.Expr):
        return v
    if isinstance(v, _Poison):
        raise _Und(v.why)
    raise _Und("not an integer: %r" % (v,))


def _is_int_identity_call(c):
    """the operand x when the call is one of the spellings of "the exact integer x" for an integer x: operator.index(x) (also imported
    bare), x.__index__(), x.__int__(), numpy.int64(x) / intp / int_ / longlong (64 bits wide: row numbers fit); else None.
    int(x) / long(x) are handled by the callers themselves."""
    if not isinstance(c, ast.Call) or c.keywords or any(isinstance(a, ast.Starred) for a in c.args):
        return None
    name = call_name(c)
    recv = dotted_name(c.func.value) if isinstance(c.func, ast.Attribute) else None
    if len(c.args) == 1:
        if name == "index" and (isinstance(c.func, ast.Name) or recv in ("operator", "_operator")):
            return c.args[0]
        if name in ("int64", "intp", "int_", "longlong") and recv in ("numpy", "np"):
            return c.args[0]
    if not c.args and isinstance(c.func, ast.Attribute) and name in ("__index__", "__int__"):
        return c.func.value
    return None


def _strip_int_wrappers(e):
    """e without any layer of int(...) / operator.index(...) / ... (see _is_int_identity_call) around it"""
    while isinstance(e, ast.Call):
        inner = _is_int_identity_call(e)
        if inner is None and isinstance(e.func, ast.Name) and e.func.id in ("int", "long") and len(e.args) == 1 and not e.keywords \
                and not isinstance(e.args[0], ast.Starred):
            inner = e.args[0]
        if inner is None:
            break
        e = inner
    return e


class _PyCount(object):
    """symbolic evaluation of straight-line / branching integer code of Recfile up to the call of the C++ slice reader"""

    def __init__(self, repo, dom, bind):
        import sympy as sp
        self.sp = sp
        self.repo = repo
        self.dom = dom
        self.bind = bind or {}
        self.depth = 0

    def sym(self, name):
        s = self.sp.Symbol(name, integer=True)
        return self.bind.get(s, s)

    # -- statements ---------------------------------------------------------
    def run(self, fi, args, kw):
        env = {}
        params = [p for p in fi.params if not p.startswith("*")]
        for i, p in enumerate(params):
            if i < len(args):
                env[p] = args[i]
            elif p in kw:
                env[p] = kw[p]
            elif p in fi.defaults:
                env[p] = self.expr(fi.defaults[p], {})
            else:
                env[p] = self.sym(p)
        r = self.block(fi.node.body, env)
        return r[1] if r is not None else None

    def block(self, stmts, env):
        for st in stmts:
            r = self.stmt(st, env)
            if r is not None:
                return r
        return None

    @staticmethod
    def _always_raises(stmts):
        return bool(stmts) and isinstance(stmts[-1], ast.Raise)

    def stmt(self, st, env):
        if isinstance(st, ast.Expr):
            try:
                self.expr(st.value, env)
            except _Und:
                pass
            return None
        if isinstance(st, (ast.Pass, ast.Assert, ast.Import, ast.ImportFrom, ast.Global)):
            return None
        if isinstance(st, ast.Return):
            return ("ret", self.expr(st.value, env) if st.value is not None else None)
        if isinstance(st, ast.Raise):
            raise _CountRaise()
        if isinstance(st, (ast.Assign, ast.AnnAssign, ast.AugAssign)):
            if isinstance(st, ast.AugAssign):
                value = ast.BinOp(left=st.target, op=st.op, right=st.value)
                targets = [st.target]
            else:
                if st.value is None:
                    return None
                value = st.value
                targets = st.targets if isinstance(st, ast.Assign) else [st.target]
            try:
                v = self.expr(value, env)
            except _Und as e:
                v = _Poison(str(e))
            for t in targets:
                self.assign(t, v, env)
            return None
        if isinstance(st, ast.If):
            try:
                c = self.truth(self.expr(st.test, env))
            except _Und:
                if self._always_raises(st.body) and not st.orelse:
                    return None
                if self._always_raises(st.orelse):
                    return self.block(st.body, env)
                if self.dom is None:
                    # discovery pass (no slice family bound yet; it only finds out WHICH values are handed to the C++ reader): both
                    # arms are followed, and a variable the arms leave different is unknown afterwards
                    e1, e2 = dict(env), dict(env)
                    r1, r2 = self.block(st.body, e1), self.block(st.orelse, e2)
                    if r1 is not None or r2 is not None:
                        raise
                    for k in set(e1) | set(e2):
                        a, b = e1.get(k, _Poison("unbound on one arm")), e2.get(k, _Poison("unbound on one arm"))
                        same = a is b or (isinstance(a, self.sp.Basic) and isinstance(b, self.sp.Basic) and a == b)
                        env[k] = a if same else _Poison("depends on a test that needs the slice bounds")
                    return None
                raise
            return self.block(st.body if c else st.orelse, env)
        raise _Und("statement %s outside the fragment" % type(st).__name__)

    def assign(self, t, v, env):
        if isinstance(t, ast.Name):
            env[t.id] = v
        elif isinstance(t, (ast.Tuple, ast.List)):
            if isinstance(v, tuple) and len(v) == len(t.elts):
                for e, x in zip(t.elts, v):
                    self.assign(e, x, env)
            else:
                for e in t.elts:
                    self.assign(e, v if isinstance(v, _Poison) else _Poison("unpacking of an unknown value"), env)
        else:
            raise _Und("assignment to %s" % norm(t))

    def truth(self, v):
        if isinstance(v, bool):
            return v
        if v is None:
            return False
        if isinstance(v, (_Buf, _SliceV)):
            raise _Und("truth of an object")
        return self.dom_cmp("!=", _as_int(self.dom, v), 0)

    def dom_cmp(self, op, x, y):
        if self.dom is None:
            raise _Und("no slice bound yet")
        return self.dom.compare(op, x, y)

    # -- expressions --------------------------------------------------------
    def expr(self, e, env):
        sp = self.sp
        if isinstance(e, ast.Constant):
            if isinstance(e.value, bool) or e.value is None or isinstance(e.value, str):
                return e.value
            if isinstance(e.value, int):
                return sp.Integer(e.value)
            raise _Und("constant %r" % (e.value,))
        if isinstance(e, ast.Name):
            if e.id in env:
                return env[e.id]
            return self.sym(e.id)
        if isinstance(e, ast.Attribute):
            b = self.expr(e.value, env)
            if isinstance(b, _SliceV) and e.attr in ("start", "stop", "step"):
                return getattr(b, e.attr)
            if isinstance(b, _Buf) and e.attr == "size":
                return b.shape
            if isinstance(b, sp.Symbol):
                return self.sym("%s.%s" % (b.name, e.attr))
            raise _Und("attribute %s" % norm(e))
        if isinstance(e, ast.Tuple):
            return tuple(self.expr(x, env) for x in e.elts)
        if isinstance(e, ast.UnaryOp):
            v = self.expr(e.operand, env)
            if isinstance(e.op, ast.Not):
                return not self.truth(v)
            if isinstance(e.op, ast.USub):
                return -_as_int(self.dom, v)
            if isinstance(e.op, ast.UAdd):
                return _as_int(self.dom, v)
            raise _Und("operator %s" % norm(e))
        if isinstance(e, ast.BinOp):
            l, r = _as_int(self.dom, self.expr(e.left, env)), _as_int(self.dom, self.expr(e.right, env))
            if isinstance(e.op, ast.Add):
                return sp.expand(l + r)
            if isinstance(e.op, ast.Sub):
                return sp.expand(l - r)
            if isinstance(e.op, ast.Mult):
                return sp.expand(l * r)
            if isinstance(e.op, (ast.FloorDiv, ast.Mod)):
                if self.dom is None:
                    raise _Und("no slice bound yet")
                qq, rr = self.dom.floordiv(l, r)
                return qq if isinstance(e.op, ast.FloorDiv) else rr
            raise _Und("operator in %s" % norm(e))
        if isinstance(e, ast.Compare):
            l = self.expr(e.left, env)
            for op, rn in zip(e.ops, e.comparators):
                r = self.expr(rn, env)
                if isinstance(op, (ast.Is, ast.IsNot)) and (l is None or r is None):
                    if isinstance(l, sp.Symbol) or isinstance(r, sp.Symbol) or isinstance(l, _Poison) or isinstance(r, _Poison):
                        raise _Und("identity of an unknown")
                    res = (l is r) if isinstance(op, ast.Is) else (l is not r)
                elif type(op) in _OPNAME and _OPNAME[type(op)] in ("<", "<=", ">", ">=", "==", "!="):
                    res = self.dom_cmp(_OPNAME[type(op)], _as_int(self.dom, l), _as_int(self.dom, r))
                else:
                    raise _Und("comparison %s" % norm(e))
                if not res:
                    return False
                l = r
            return True
        if isinstance(e, ast.BoolOp):
            v = None
            for x in e.values:
                v = self.expr(x, env)
                tr = self.truth(v)
                if isinstance(e.op, ast.And) and not tr:
                    return v
                if isinstance(e.op, ast.Or) and tr:
                    return v
            return v
        if isinstance(e, ast.IfExp):
            return self.expr(e.body if self.truth(self.expr(e.test, env)) else e.orelse, env)
        if isinstance(e, ast.Call):
            return self.call(e, env)
        raise _Und("expression %s outside the fragment" % norm(e))

    def call(self, c, env):
        sp = self.sp
        name = call_name(c)
        recv = dotted_name(c.func.value) if isinstance(c.func, ast.Attribute) else None
        if any(isinstance(a, ast.Starred) for a in c.args) or any(k.arg is None for k in c.keywords):
            raise _Und("star arguments")
        if name == "read_binary_slice" and recv is not None and recv != "self":
            raise _CountStop([self.safe(a, env) for a in c.args])
        if _is_int_identity_call(c):
            # operator.index(x), x.__index__(), x.__int__(), numpy.int64(x) ...: the exact integer x for every integer x (the slice
            # bounds and the row counts are integers: slice.indices / self.nrows), like int(x)
            return _as_int(self.dom, self.expr(_is_int_identity_call(c), env))
        if recv is None and name in ("int", "long", "bool", "abs", "len", "range", "divmod", "slice", "max", "min"):
            args = [self.expr(a, env) for a in c.args]
            if name in ("int", "long") and len(args) == 1:
                return _as_int(self.dom, args[0])
            if name == "bool" and len(args) == 1:
                return self.truth(args[0])
            if name == "abs" and len(args) == 1:
                v = _as_int(self.dom, args[0])
                return v if self.dom_cmp(">=", v, 0) else -v
            if name == "divmod" and len(args) == 2:
                if self.dom is None:
                    raise _Und("no slice bound yet")
                return self.dom.floordiv(_as_int(self.dom, args[0]), _as_int(self.dom, args[1]))
            if name == "slice" and 1 <= len(args) <= 3:
                a3 = [None, args[0], None] if len(args) == 1 else (args + [None])[:3]
                return _SliceV(*a3)
            if name == "range":
                return ("range",) + tuple(args)
            if name == "len" and len(args) == 1 and isinstance(args[0], tuple) and args[0][:1] == ("range",):
                return self.len_range(args[0][1:])
            if name in ("max", "min") and len(args) == 2:
                x, y = _as_int(self.dom, args[0]), _as_int(self.dom, args[1])
                ge = self.dom_cmp(">=", x, y)
                return (x if ge else y) if name == "max" else (y if ge else x)
            raise _Und("call %s" % norm(c))
        if name in ("zeros", "empty", "ndarray", "recarray") and recv is not None and recv.split(".")[0] in ("numpy", "np"):
            shp = c.args[0] if c.args else kwarg(c, "shape")
            if shp is None:
                raise _Und("buffer without a shape")
            v = self.safe(shp, env)          # a length that is not known (yet) still makes a fresh buffer
            if isinstance(v, tuple) and len(v) == 1:
                v = v[0]
            dt = kwarg(c, "dtype") if kwarg(c, "dtype") is not None else (c.args[1] if len(c.args) > 1 and kwarg(c, "shape") is None else None)
            return _Buf(v, self.safe(dt, env) if dt is not None else None)
        if recv is not None and isinstance(c.func, ast.Attribute):
            try:
                b = self.expr(c.func.value, env)
            except _Und:
                b = None
            if isinstance(b, _Buf) and name == "view":
                return b
            if isinstance(b, _SliceV) and name == "indices":
                raise _Und("slice.indices on a symbolic slice")
        if recv == "self" and self.repo.has(U + "Recfile." + name) and self.depth < 4:
            fi = self.repo.func(U + "Recfile." + name)
            args = [self.sym("self")] + [self.safe(a, env) for a in c.args]
            kw = {k.arg: self.safe(k.value, env) for k in c.keywords}
            self.depth += 1
            try:
                return self.run(fi, args, kw)
            finally:
                self.depth -= 1
        # any other call: an unknown value
        for a in c.args:
            self.safe(a, env)
        return self.sym("call<%s>@%s" % (norm(c.func), getattr(c, "lineno", 0)))

    def safe(self, e, env):
        try:
            return self.expr(e, env)
        except _Und as x:
            return _Poison(str(x))

    def len_range(self, a):
        """len(range(lo, hi, st)) for hi >= lo, st the step: trusted builtin, it IS the ceiling"""
        sp = self.sp
        lo, hi, st = (sp.Integer(0), a[0], sp.Integer(1)) if len(a) == 1 else (a[0], a[1], a[2] if len(a) == 3 else sp.Integer(1))
        lo, hi, st = _as_int(self.dom, lo), _as_int(self.dom, hi), _as_int(self.dom, st)
        if not self.dom_cmp(">=", hi, lo):
            return sp.Integer(0)
        qq, rr = self.dom.floordiv(hi - lo, st)
        return qq + (1 if self.dom_cmp("!=", rr, 0) else 0)


def _find_slice_reader_caller(repo):
    found = []
    for qn, fi in repo.funcs.items():
        if not qn.startswith(U + "Recfile."):
            continue
        for x in walk_no_nested(fi.node):
            if isinstance(x, ast.Call) and call_name(x) == "read_binary_slice" and isinstance(x.func, ast.Attribute) \
                    and dotted_name(x.func.value) not in (None, "self"):
                found.append((fi, x))
    return found


def _slice_reader_discovery(repo):
    """(function, call, values) of the one call <robj>.read_binary_slice(buffer, start, stop, step): the values its four arguments have
    when the function that makes the call is entered with unknown parameters (symbols named after the parameters and their attributes)"""
    sites = _find_slice_reader_caller(repo)
    if len(sites) != 1:
        raise _Und("%d call sites of the C++ slice reader" % len(sites))
    fi, call = sites[0]
    if len(call.args) != 4 or call.keywords:
        raise _Und("the C++ slice reader is not called with (buffer, start, stop, step)")
    ev = _PyCount(repo, None, None)
    try:
        ev.run(fi, [], {})
        raise _Und("the call of the C++ slice reader is not reached on the straight path")
    except _CountStop as s:
        return fi, call, s.args_
    except _CountRaise:
        raise _Und("the path to the C++ slice reader raises")


def _sym_count_py(repo):
    """(True, text) / (False, text) / raises _Und: the buffer handed to <robj>.read_binary_slice(buf, start, stop, step) has
    ceil((stop-start)/step) rows for every normalised slice"""
    import sympy as sp
    fi, call, a0 = _slice_reader_discovery(repo)
    st, sp_, se = a0[1], a0[2], a0[3]
    if isinstance(st, _Poison) or isinstance(sp_, _Poison) or isinstance(se, _Poison):
        raise _Und("start/stop/step handed to the C++ reader are not plain values")
    if not (isinstance(sp_, sp.Symbol) and isinstance(se, sp.Symbol) and (isinstance(st, sp.Symbol) or (isinstance(st, sp.Integer) and st >= 0))
            and len({st, sp_, se}) == 3):
        raise _Und("start/stop/step handed to the C++ reader are not three independent inputs (%s, %s, %s)" % (st, sp_, se))
    def count(dom):
        a = st if isinstance(st, sp.Integer) else dom.a
        bind = {sp_: a + dom.d, se: dom.s}
        if isinstance(st, sp.Symbol):
            bind[st] = dom.a
        ev = _PyCount(repo, dom, bind)
        try:
            ev.run(fi, [], {})
            raise _Und("the call of the C++ slice reader is not reached")
        except _CountStop as s:
            buf = s.args_[0]
        except _CountRaise:
            raise _Und("the path to the C++ slice reader raises")
        if not isinstance(buf, _Buf):
            raise _Und("the buffer handed to the C++ slice reader is not a fresh numpy.zeros/empty array")
        return _as_int(dom, buf.shape)

    ok, text = _decide_count(count)
    if not ok:
        return False, "%s (buffer allocated in %s)" % (text, fi.name)
    return True, "symbolically, " + text


class _CCount(object):
    """the same evaluation for a loop-free C/C++ function returning the count"""

    def __init__(self, dom, env):
        import sympy as sp
        self.sp = sp
        self.dom = dom
        self.env = env

    def run(self, fn):
        r = self.block(cfront.body_of(fn))
        if r is None:
            raise _Und("no return value")
        return r[1]

    def block(self, st):
        k = st.get("kind")
        inner = [c for c in (st.get("inner", []) or []) if isinstance(c, dict)]
        if k == "CompoundStmt":
            for s in inner:
                r = self.block(s)
                if r is not None:
                    return r
            return None
        if k == "DeclStmt":
            for d in inner:
                if d.get("kind") == "VarDecl" and d.get("name"):
                    ini = [y for y in d.get("inner", []) if isinstance(y, dict) and y.get("kind")]
                    if ini and "init" in d:
                        self.env[d["name"]] = self.safe(ini[-1])
                    else:
                        self.env[d["name"]] = _Poison("uninitialised %s" % d["name"])
            return None
        if k == "ReturnStmt":
            return ("ret", _as_int(self.dom, self.expr(inner[0])) if inner else None)
        if k == "IfStmt":
            try:
                c = self.truth(self.expr(inner[0]))
            except _Und:
                arms = inner[1:]
                if len(arms) == 1 and self._throws(arms[0]):
                    return None
                if not any(self._writes(a) for a in arms):
                    return None
                raise
            if c:
                return self.block(inner[1])
            return self.block(inner[2]) if len(inner) > 2 else None
        if k in ("NullStmt",):
            return None
        if k in ("ForStmt", "WhileStmt", "DoStmt", "SwitchStmt", "GotoStmt", "LabelStmt", "CXXTryStmt", "BreakStmt", "ContinueStmt"):
            raise _Und("%s outside the fragment" % k)
        s = cfront.strip(st)
        if s.get("kind") == "CXXThrowExpr":
            raise _CountRaise()
        if self._writes(st):
            self.expr(st)
        return None

    @staticmethod
    def _throws(st):
        body = [c for c in (st.get("inner", []) or []) if isinstance(c, dict)] if st.get("kind") == "CompoundStmt" else [st]
        return bool(body) and cfront.strip(body[-1]).get("kind") == "CXXThrowExpr"

    @staticmethod
    def _writes(st):
        for x in cfront.walk(st):
            k = x.get("kind")
            if k in ("ReturnStmt", "VarDecl", "CompoundAssignOperator", "GotoStmt", "BreakStmt", "ContinueStmt"):
                return True
            if k == "BinaryOperator" and x.get("opcode") == "=":
                return True
            if k == "UnaryOperator" and x.get("opcode") in ("++", "--", "&"):
                return True
        return False

    def truth(self, v):
        if isinstance(v, bool):
            return v
        return self.dom.compare("!=", _as_int(self.dom, v), 0)

    def safe(self, e):
        try:
            return self.expr(e)
        except _Und as x:
            return _Poison(str(x))

    def expr(self, e):
        sp = self.sp
        ty = cfront.cast_type(e) or (e.get("type", {}).get("qualType", "") if e.get("kind") == "ImplicitCastExpr" else "")
        if ty and any(w in ty for w in ("double", "float")):
            raise _Und("floating point")
        k = e.get("kind")
        if k in ("ImplicitCastExpr", "ParenExpr", "CStyleCastExpr", "ConstantExpr", "ExprWithCleanups", "CXXStaticCastExpr", "CXXFunctionalCastExpr"):
            inner = [c for c in e.get("inner", []) if isinstance(c, dict)]
            return self.expr(inner[-1] if k == "CXXFunctionalCastExpr" else inner[0])
        inner = [c for c in (e.get("inner", []) or []) if isinstance(c, dict)]
        if k == "IntegerLiteral":
            return sp.Integer(int(e.get("value")))
        if k == "CXXBoolLiteralExpr":
            return bool(e.get("value"))
        if k == "DeclRefExpr":
            nm = e.get("referencedDecl", {}).get("name")
            if nm in self.env:
                v = self.env[nm]
                if isinstance(v, _Poison):
                    raise _Und(v.why)
                return v
            return sp.Symbol("c:" + str(nm), integer=True)
        if k == "MemberExpr":
            return sp.Symbol("c:" + cfront.render(e), integer=True)
        if k == "UnaryOperator":
            op = e.get("opcode")
            if op in ("++", "--"):
                t = cfront.strip(inner[0])
                if t.get("kind") != "DeclRefExpr":
                    raise _Und("update of %s" % cfront.render(t))
                nm = t["referencedDecl"]["name"]
                old = _as_int(self.dom, self.expr(t))
                new = old + (1 if op == "++" else -1)
                self.env[nm] = new
                return old if e.get("isPostfix") else new
            v = self.expr(inner[0])
            if op == "-":
                return -_as_int(self.dom, v)
            if op == "+":
                return _as_int(self.dom, v)
            if op == "!":
                return not self.truth(v)
            raise _Und("operator %s" % op)
        if k == "ConditionalOperator":
            return self.expr(inner[1] if self.truth(self.expr(inner[0])) else inner[2])
        if k in ("BinaryOperator", "CompoundAssignOperator"):
            op = e.get("opcode")
            if op == "=" or k == "CompoundAssignOperator":
                t = cfront.strip(inner[0])
                if t.get("kind") != "DeclRefExpr":
                    raise _Und("assignment to %s" % cfront.render(t))
                nm = t["referencedDecl"]["name"]
                if k == "CompoundAssignOperator":
                    try:
                        v = self.arith(op[:-1], self.expr(t), self.expr(inner[1]))
                    except _Und as x:
                        v = _Poison(str(x))
                else:
                    v = self.safe(inner[1])
                self.env[nm] = v
                if isinstance(v, _Poison):
                    raise _Und(v.why)
                return v
            if op == "&&":
                return self.truth(self.expr(inner[0])) and self.truth(self.expr(inner[1]))
            if op == "||":
                return self.truth(self.expr(inner[0])) or self.truth(self.expr(inner[1]))
            if op == ",":
                self.safe(inner[0])
                return self.expr(inner[1])
            l, r = self.expr(inner[0]), self.expr(inner[1])
            if op in ("<", "<=", ">", ">=", "==", "!="):
                return self.dom.compare(op, _as_int(self.dom, l), _as_int(self.dom, r))
            return self.arith(op, l, r)
        raise _Und("expression %s outside the fragment" % cfront.render(e)[:60])

    def arith(self, op, l, r):
        sp = self.sp
        l, r = _as_int(self.dom, l), _as_int(self.dom, r)
        if op == "+":
            return sp.expand(l + r)
        if op == "-":
            return sp.expand(l - r)
        if op == "*":
            return sp.expand(l * r)
        if op in ("/", "%"):
            qq, rr = self.dom.truncdiv(l, r)
            return qq if op == "/" else rr
        raise _Und("operator %s" % op)


def _sym_count_c(fn):
    """the value returned by the C++ count helper (parameters by position: first row, end row, step) is ceil((row2-row1)/step)"""
    import sympy as sp
    ps = cfront.params_of(fn)
    if len(ps) != 3:
        raise _Und("count helper does not take (row1, row2, step)")
    def count(dom):
        ev = _CCount(dom, {ps[0]: dom.a, ps[1]: dom.a + dom.d, ps[2]: dom.s})
        try:
            n = ev.run(fn)
        except _CountRaise:
            raise _Und("the helper throws for valid slices")
        if n is None:
            raise _Und("no value returned")
        return n

    ok, text = _decide_count(count)
    if not ok:
        return False, "%s%s" % (text, _c_count_source(fn))
    return True, "symbolically, " + text


def _c_count_source(fn):
    """the returned count expression of the C++ helper as written, with the defining expression of a returned local"""
    try:
        rets = [x for x in cfront.walk(cfront.body_of(fn)) if x.get("kind") == "ReturnStmt" and x.get("inner")]
        if not rets:
            return ""
        r = cfront.strip(rets[-1]["inner"][0])
        text = cfront.render(r)
        if r.get("kind") == "DeclRefExpr":
            for x in cfront.walk(cfront.body_of(fn)):
                if x.get("kind") == "VarDecl" and x.get("name") == text and "init" in x:
                    ini = [c for c in x.get("inner", []) if isinstance(c, dict) and c.get("kind")]
                    if ini:
                        text = "%s = %s" % (text, cfront.render(ini[-1]))
        return " [count returned by %s: `%s`]" % (fn.get("name", "the helper"), text)
    except Exception:
        return ""


def _r02_1_structural(chk, repo, F):
    pa = F["_process_args_as_rows_or_columns"]
    if pa is None:
        chk.ob("R02.1", "slice-normalisers-found", None, F["__getitem__"].where(), "the bracket argument classifier was not found")
        return
    cfg = cfg_of(pa)
    view = cfg.view()
    # which callees receive the slice (or its parts) under isinstance(<param>, slice)
    normalisers = []
    for n in cfg.nodes:
        facts = _node_facts(view, n)
        if not any(f[0] == "truthy" and f[1].startswith("isinstance(") and f[1].replace(" ", "").endswith(",slice)") for f in facts):
            continue
        for c in rules.stmts_calls(n):
            callee = _self_callee(repo, c)
            if callee is not None:
                normalisers.append((n, c, callee))
    chk.ob("R02.1", "slice-normalisers-found", len(normalisers) >= 1, pa.where(),
           "slice arguments are handed to: %s" % [x[2].name for x in normalisers])
    seen = set()
    for n, c, fi in normalisers:
        if fi.qualname in seen:
            continue
        seen.add(fi.qualname)
        chk.analysed_unit(fi.qualname)
        _check_slice_normaliser(chk, repo, fi)
    # (g) what a normaliser answers is a function of all three components of the slice
    seen = set()
    for n, c, fi in normalisers:
        if (fi.qualname, norm(c)) in seen:
            continue
        seen.add((fi.qualname, norm(c)))
        try:
            _r02_1g_components(chk, pa, view, n, c, fi)
        except AnalysisError:
            raise
        except Exception as e:          # a defect of the dependence analysis must never become a verdict
            chk.ob("R02.1g", fi.qualname + "::result-depends-on-every-slice-component", None, fi.where(),
                   "dependence analysis failed: %s: %s" % (type(e).__name__, e))


# ---------------------------------------------------------------------------
# R02.1g: the rows a slice selects are a function of its start, its stop AND its step (two slices that differ in one component
# select different rows of a large enough table), so whatever a slice normaliser returns has to depend on each of the three: by data
# flow (the value is computed from the component; reaching definitions, mutations of containers included) or by control flow (a test
# that decides whether this return is reached reads the component).  A return that is independent of a component in both senses
# answers the same for slices that select different rows -- e.g. a short cut `if start is None and stop is None: return <all rows>`
# that forgets the step.  Dependence is over-approximated (any mention counts), so the rule can only miss, never invent, a violation;
# nothing is executed.  The same holds at the call: a component that is neither handed to the normaliser nor tested on the way to the
# call is lost.
# ---------------------------------------------------------------------------
_SLICE_COMPS = ("start", "stop", "step")


def _comp_mentions(e, whole):
    """(plain names, slice components) read by expression e; `whole` = names that hold the whole slice object"""
    names, comps = set(), set()

    def walk(x):
        if isinstance(x, ast.Attribute) and isinstance(x.value, ast.Name) and x.value.id in whole and x.attr in _SLICE_COMPS:
            comps.add(x.attr)
            return
        if isinstance(x, ast.Name):
            if not isinstance(x.ctx, ast.Load):
                return
            if x.id in whole:
                comps.update(_SLICE_COMPS)
            else:
                names.add(x.id)
            return
        if isinstance(x, ast.AugAssign) and isinstance(x.target, ast.Name):
            names.add(x.target.id)
        for ch in ast.iter_child_nodes(x):
            walk(ch)

    if e is not None:
        walk(e)
    return names, comps


class _ResultDeps(object):
    """which slice components the value returned at a return statement of `fi` depends on (data and control dependence)"""

    def __init__(self, fi, carried, whole):
        self.fi = fi
        self.cfg = cfg_of(fi)
        self.view = self.cfg.view()
        self.carried = carried          # parameter -> set of components it carries
        self.IN, _ = self.view.reaching_defs()
        self.whole = set(whole)
        self.memo = {}
        self.ctl = {}
        self.branches = [n for n in self.view.nodes() if n.kind in ("branch", "loop")]
        # a parameter that holds the whole slice keeps that meaning only where it is never re-bound
        for n in self.view.nodes():
            d, _ = self.cfg.defs_uses(n)
            self.whole -= set(d)
        # statements that change a container in place: x[i] = v, x.attr = v, x.append(v) ...
        self.mut = {}
        for n in self.view.nodes():
            a = n.ast
            if n.kind != "stmt" or a is None:
                continue
            bases = set()
            tg = list(a.targets) if isinstance(a, ast.Assign) else [a.target] if isinstance(a, (ast.AugAssign, ast.AnnAssign)) else []
            for t in tg:
                for x in ast.walk(t):
                    if isinstance(x, (ast.Subscript, ast.Attribute)):
                        b = x
                        while isinstance(b, (ast.Subscript, ast.Attribute)):
                            b = b.value
                        if isinstance(b, ast.Name):
                            bases.add(b.id)
            for x in ast.walk(a):
                if isinstance(x, ast.Call) and isinstance(x.func, ast.Attribute):
                    b = x.func.value
                    while isinstance(b, (ast.Subscript, ast.Attribute)):
                        b = b.value
                    if isinstance(b, ast.Name) and b.id != "self":
                        bases.add(b.id)
            for b in bases:
                self.mut.setdefault(b, []).append(n)

    def supported(self):
        return not any(n.kind in ("handler", "try", "with", "def") for n in self.view.nodes())

    def _reads(self, n):
        a = n.ast
        if a is None:
            return set(), set()
        if n.kind == "branch":
            return _comp_mentions(a.test, self.whole)
        if n.kind == "loop":
            return _comp_mentions(a.test if isinstance(a, ast.While) else a.iter, self.whole)
        if n.kind == "return":
            return _comp_mentions(a.value, self.whole)
        return _comp_mentions(a, self.whole)

    def controlling(self, n):
        """branches that decide whether n is executed: n can be reached from the branch, and so can a way out that avoids n"""
        if n.id not in self.ctl:
            out = []
            for b in self.branches:
                if b.id != n.id and self.view.reaches(b, n) and (self.view.reaches(b, self.cfg.exit, avoiding=[n]) or
                                                                self.view.reaches(b, self.cfg.raise_exit, avoiding=[n])):
                    out.append(b)
            self.ctl[n.id] = out
        return self.ctl[n.id]

    def at(self, n, busy=None):
        """components that what node n computes (and whether it runs) depends on"""
        if n.id in self.memo:
            return self.memo[n.id]
        busy = busy if busy is not None else set()
        if n.id in busy:
            return set()
        busy.add(n.id)
        names, comps = self._reads(n)
        out = set(comps)
        for v in names:
            for d in self.IN.get(n.id, {}).get(v, ()):
                if d == self.cfg.entry.id:
                    out |= self.carried.get(v, set())
                else:
                    out |= self.at(self.cfg.node(d), busy)
            for m in self.mut.get(v, ()):
                if m.id != n.id:
                    out |= self.at(m, busy)
        for b in self.controlling(n):
            out |= self.at(b, busy)
        busy.discard(n.id)
        if not busy:
            self.memo[n.id] = out
        return out


def _r02_1g_components(chk, pa, view, n, c, fi):
    # the name that holds the slice where the normaliser is called
    argname = None
    for b, lab in view.controlling_branches(n):
        raw = []
        if b.kind == "branch":
            _decompose(b.ast.test, lab == "T", raw)
        for t, tr, _ in raw:
            if tr and isinstance(t, ast.Call) and call_name(t) == "isinstance" and len(t.args) == 2 and isinstance(t.args[0], ast.Name) \
                    and norm(t.args[1]) == "slice":
                argname = t.args[0].id
    if argname is None:
        return
    params = [p for p in fi.params if not p.startswith("*")]
    if params and params[0] in ("self", "cls") and isinstance(c.func, ast.Attribute):
        params = params[1:]
    if any(isinstance(a, ast.Starred) for a in c.args) or any(k.arg is None for k in c.keywords) or len(c.args) > len(params):
        return
    carried = {}
    given = dict(list(zip(params, c.args)) + [(k.arg, k.value) for k in c.keywords])
    for p, a in given.items():
        names, comps = _comp_mentions(a, {argname})
        carried[p] = comps
    handed = set().union(*carried.values()) if carried else set()
    guards = " ".join(t for t, _ in rules.controlling_tests(view, n))
    for comp in _SLICE_COMPS:
        tested = ("%s.%s" % (argname, comp)) in guards
        if comp not in handed:
            chk.ob("R02.1g", "%s->%s::slice-%s-handed-over" % (pa.qualname, fi.name, comp), True if tested else False, pa.where(c),
                   "the %s of the slice reaches the normaliser `%s` (or is tested on the way to the call): two slices that differ only in "
                   "their %s select different rows" % (comp, norm(c), comp))
    whole = [p for p, a in given.items() if isinstance(a, ast.Name) and a.id == argname]
    rd = _ResultDeps(fi, carried, whole)
    if not rd.supported():
        return
    outs = [r for r in rules.return_nodes(rd.cfg) if rd.view.reachable(r)] + [p for p in rules.falls_off_end(rd.cfg, rd.view)]
    if not outs:
        return
    for comp in _SLICE_COMPS:
        if comp not in handed:
            continue
        bad = [r for r in outs if comp not in rd.at(r)]
        if bad:
            r = bad[0]
            under = [t + ("" if lab == "T" else " is false") for t, lab in rules.controlling_tests(rd.view, r)]
            what = ("`%s`" % norm(r.ast)) if r.kind == "return" else "the end of the function (returns None)"
            # the argument needs a table on which the two slices select different rows AND this return is reached: that is certain
            # when the tests on the way read nothing but the slice (its components, constants); a test of anything else (the row
            # count, the file type ...) may confine the return to tables where it is right -- no verdict then
            foreign = set()
            for b in rd.controlling(r):
                names, _ = rd._reads(b)
                foreign |= {v for v in names if v not in carried and v not in ("isinstance", "int", "slice", "bool", "abs")}
            if foreign:
                chk.ob("R02.1g", "%s::result-depends-on-slice-%s" % (fi.qualname, comp), None, fi.where(r.ast),
                       "%s does not depend on the %s of the slice, and is reached under tests that read %s besides the slice: whether "
                       "slices that differ in their %s can reach it on a table where they select different rows is not decided"
                       % (what, comp, sorted(foreign), comp))
                continue
            chk.ob("R02.1g", "%s::result-depends-on-slice-%s" % (fi.qualname, comp), False, fi.where(r.ast),
                   "what the slice normaliser answers depends on the %s of the slice on every path: %s%s neither computes its value from "
                   "the %s nor is reached under a test of it, so slices that differ only in their %s (and select different rows) get the "
                   "same answer" % (comp, what, (" under [%s]" % "; ".join(under)) if under else "", comp, comp))
        else:
            chk.ob("R02.1g", "%s::result-depends-on-slice-%s" % (fi.qualname, comp), True, fi.where(),
                   "what the slice normaliser answers depends on the %s of the slice on every path (%d return site(s); data and control "
                   "dependence followed by reaching definitions)" % (comp, len(outs)))


def _r02_1f_semantic(chk, repo, F, count_followed):
    """what the C++ slice reader receives, read off the values its arguments have when the calling function is evaluated on unknown
    parameters (the same evaluation R02.1e uses): the buffer is a fresh array of the file dtype -- its length is R02.1e's business when
    that rule followed the buffer's shape --, and the three numbers are <slice parameter>.start, .stop, .step in this order"""
    import sympy as sp
    try:
        if not count_followed:
            raise _Und("the row count was not followed to the buffer")
        fi, call, a0 = _slice_reader_discovery(repo)
    except AnalysisError:
        raise
    except Exception:           # outside the fragment: the reviewed shape of the code decides (template form)
        _r02_1f_structural(chk, F)
        return
    chk.analysed_unit(fi.qualname)
    buf = a0[0]
    ok, found = None, "not recognised"
    if isinstance(buf, _Buf):
        dt = buf.dtype
        if isinstance(dt, sp.Symbol) and dt.name == "self.dtype":
            ok, found = True, "a fresh array with dtype=self.dtype"
        elif dt is None or isinstance(dt, str):
            ok, found = False, "a fresh array %s" % ("without a dtype (float64)" if dt is None else "of dtype %r" % dt)
        else:
            found = "a fresh array whose dtype is not recognised"
    chk.ob("R02.1f", "sem::" + fi.qualname + "::buffer-has-file-dtype", ok, fi.where(call),
           "the buffer handed to the C++ slice reader is a fresh array of the file dtype, one element per row of the slice (found: %s)" % found)
    ps = [p for p in fi.params[1:] if not p.startswith("*")]
    names = [x.name if isinstance(x, sp.Symbol) else None for x in a0[1:4]]
    if any(names == [p + ".start", p + ".stop", p + ".step"] for p in ps):
        ok = True
    elif all(names) and all(n.rsplit(".", 1)[0] in ps and n.rsplit(".", 1)[-1] in ("start", "stop", "step") for n in names):
        ok = False              # parts of the slice, in the wrong places
    else:
        ok = None
    chk.ob("R02.1f", "sem::" + fi.qualname + "::start-stop-step-roles", ok, fi.where(call),
           "read_binary_slice receives (buffer, start, stop, step) of the slice in that order (found: %s)" % [str(x) if not isinstance(x, _Poison) else "?" for x in a0[1:4]])


def _r02_1f_structural(chk, F):
    rb = F["_read_binary_slice"]
    if rb is None:
        chk.ob("R02.1f", "Recfile._read_binary_slice::buffer-sized-by-count", None, F["__getitem__"].where(), "the python slice reader was not found")
        return
    # the allocation: numpy.zeros / empty, shape and dtype given by position or by keyword, the shape a number or a 1-tuple of it
    zs = [x for x in ast.walk(rb.node) if isinstance(x, ast.Call) and call_name(x) in ("zeros", "empty")]
    ok, found = None, "no numpy.zeros / numpy.empty allocation found"
    verdicts = []
    for z in zs:
        shp = z.args[0] if z.args else kwarg(z, "shape")
        dt = kwarg(z, "dtype")
        if dt is None and len(z.args) > 1 and not isinstance(z.args[1], ast.Starred):
            dt = z.args[1]
        if shp is None or any(isinstance(a, ast.Starred) for a in z.args) or any(k.arg is None for k in z.keywords):
            verdicts.append((None, "`%s` is not recognised" % norm(z)))
            continue
        size = rules.expand(shp, rb.node)
        if isinstance(size, (ast.Tuple, ast.List)) and len(size.elts) == 1 and not isinstance(size.elts[0], ast.Starred):
            size = _strip_int_wrappers(rules.expand(size.elts[0], rb.node))
        size = _strip_int_wrappers(size)
        counted = isinstance(size, ast.Call) and call_name(size) == "_get_slice_nrows"
        if dt is None:
            verdicts.append((False, "`%s` has no dtype (float64 rows)" % norm(z)))
        elif isinstance(rules.expand(dt, rb.node), ast.Constant):
            verdicts.append((False, "`%s` has the fixed dtype %s" % (norm(z), rules.xnorm(dt, rb.node))))
        elif rules.xnorm(dt, rb.node) == "self.dtype" and counted:
            verdicts.append((True, "`%s`" % norm(z)))
        else:
            verdicts.append((None, "`%s`: the dtype or the length is not recognised" % norm(z)))
    if verdicts:
        # several allocations: the rule is about the one handed to the reader -- decided only when they all say the same
        vs = {v for v, _ in verdicts}
        ok = True if vs == {True} else (False if vs == {False} else None)
        found = "; ".join(t for _, t in verdicts)
    chk.ob("R02.1f", rb.qualname + "::buffer-sized-by-count", ok, rb.where(),
           "the slice read buffer is zeros(<slice row count>, dtype=self.dtype) (found: %s)" % found)
    ok, found = None, "no call read_binary_slice(buffer, start, stop, step)"
    for x in ast.walk(rb.node):
        if isinstance(x, ast.Call) and call_name(x) == "read_binary_slice" and len(x.args) == 4 and not x.keywords \
                and not any(isinstance(a, ast.Starred) for a in x.args):
            # int(v), operator.index(v), v.__index__() ... are the same integer v
            roles = [norm(_strip_int_wrappers(rules.expand(a, rb.node))) for a in x.args[1:]]
            found = ", ".join(roles)
            heads = {r.rsplit(".", 1)[0] for r in roles if "." in r}
            tails = [r.rsplit(".", 1)[-1] for r in roles]
            if len(heads) == 1 and all("." in r for r in roles) and next(iter(heads)).isidentifier():
                if tails == ["start", "stop", "step"]:
                    ok = True
                elif all(t in ("start", "stop", "step") for t in tails):
                    ok = False      # components of the slice in the wrong places
                else:
                    ok = None
            else:
                ok = None
    chk.ob("R02.1f", rb.qualname + "::start-stop-step-roles", ok, rb.where(),
           "read_binary_slice receives (buffer, start, stop, step) in that order (found: %s)" % found)


def _check_slice_normaliser(chk, repo, fi):
    """accepted idiom: s.indices(self.nrows) / slice(a,b,c).indices(self.nrows); results unmodified except stop>=start clamp"""
    calls = [x for x in walk_no_nested(fi.node) if isinstance(x, ast.Call) and call_name(x) == "indices"]
    key = fi.qualname
    if not calls:
        # hand-rolled normalisation: apply the local necessary conditions
        _hand_rolled_slice(chk, repo, fi)
        return
    c = calls[0]
    ok = len(c.args) == 1 and rules.xnorm(c.args[0], fi.node) in ("self.nrows", "nrows", "len(self)")
    chk.ob("R02.1a", key + "::delegates-to-slice.indices", ok, fi.where(c),
           "slice bounds are normalised by slice.indices(%s) -- must be the row count" % (norm(c.args[0]) if c.args else ""))
    # the three results must be bound directly and not re-assigned except `stop = start` under `stop < start`
    tgt = None
    for x in walk_no_nested(fi.node):
        if isinstance(x, ast.Assign) and x.value is c and isinstance(x.targets[0], ast.Tuple):
            tgt = [norm(e) for e in x.targets[0].elts]
    direct = tgt is not None and len(tgt) == 3
    inline = any(isinstance(x, ast.Starred) and x.value is c for x in ast.walk(fi.node))
    chk.ob("R02.1a", key + "::indices-result-bound", direct or inline, fi.where(c),
           "the (start, stop, step) triple from slice.indices is used as a whole (%s)" % (tgt or ("star-expanded" if inline else "NOT RECOGNISED")))
    if direct:
        cfg = cfg_of(fi)
        view = cfg.view()
        for n in cfg.nodes:
            a = n.ast
            if n.kind == "stmt" and isinstance(a, (ast.Assign, ast.AugAssign)):
                t = norm(a.targets[0]) if isinstance(a, ast.Assign) else norm(a.target)
                if t in tgt and not (isinstance(a, ast.Assign) and a.value is c):
                    facts = _node_facts(view, n)
                    allowed = isinstance(a, ast.Assign) and t == tgt[1] and \
                        (norm(a.value) == tgt[0] and ("<", tgt[1], tgt[0]) in facts or
                         norm(a.value).replace(" ", "") in ("max(%s,%s)" % (tgt[0], tgt[1]), "max(%s,%s)" % (tgt[1], tgt[0])))
                    chk.ob("R02.1b", key + "::no-adjustment-of-normalised-bounds::" + norm(a), allowed, fi.where(a),
                           "normalised slice bounds may only be adjusted by the empty-slice clamp `stop = start if stop < start` (found `%s` under %s)" % (norm(a), facts))
    # no raise that is not about the step
    for n in rules.raise_nodes(cfg_of(fi)):
        ts = rules.controlling_tests(cfg_of(fi).view(), n)
        about_step = any("step" in t for t, _ in ts)
        chk.ob("R02.1c", key + "::no-raise-on-valid-slice::" + norm(n.ast)[:50], about_step, fi.where(n.ast),
               "a slice with positive step never raises (Python semantics give an empty result); raise is controlled by %s" % ts)


def _hand_rolled_slice(chk, repo, fi, depth=0):
    """local necessary conditions on hand-written slice normalisation (DESIGN R02.1 a-d)"""
    key = fi.qualname
    cfg = cfg_of(fi)
    view = cfg.view()
    # (a) no raise not controlled by a step test
    for n in rules.raise_nodes(cfg):
        ts = rules.controlling_tests(view, n)
        about_step = any("step" in t for t, _ in ts)
        chk.ob("R02.1c", key + "::no-raise-on-valid-slice::" + _guard_key(ts), about_step, fi.where(n.ast),
               "a slice with positive step never raises under Python semantics (out-of-range or reversed bounds give a "
               "clamped / empty result); this raise is controlled by %s" % [t for t, _ in ts])
    # (b) under a guard `b < 0` the bound becomes exactly n + b
    for n in cfg.nodes:
        a = n.ast
        if n.kind == "stmt" and isinstance(a, ast.Assign) and isinstance(a.targets[0], ast.Name):
            v = a.targets[0].id
            neg = ("<", v, "0") in _node_facts(view, n)
            if neg and isinstance(a.value, ast.BinOp):
                ok = _is_n_plus(a.value, v)
                chk.ob("R02.1b", key + "::negative-bound-wraps-by-n::" + v, ok, fi.where(a),
                       "a negative slice bound b maps to nrows + b (found `%s`)" % norm(a))
    # follow helper calls that take a bound (e.g. _fix_range) with the slice flag
    if depth < 2:
        for x in walk_no_nested(fi.node):
            if isinstance(x, ast.Call):
                callee = _self_callee(repo, x)
                if callee is not None and callee is not fi and callee.name not in ("_get_slice_nrows",):
                    chk.analysed_unit(callee.qualname)
                    _hand_rolled_slice_helper(chk, callee)


def _hand_rolled_slice_helper(chk, fi):
    """helper taking one bound `num` and an isslice flag: on the slice arm, negative num -> nrows + num exactly"""
    cfg = cfg_of(fi)
    flagname = next((p for p in fi.params if p.startswith("isslice") or p == "slice"), None)
    view = cfg.specialise(flags={flagname: True}) if flagname else cfg.view()
    for n in view.nodes():
        a = n.ast
        v = val = None
        if n.kind == "stmt" and isinstance(a, ast.Assign) and isinstance(a.targets[0], ast.Name):
            v, val = a.targets[0].id, a.value
        elif n.kind == "return" and a.value is not None and len(fi.params) > 1:
            v, val = fi.params[1], a.value
        if v is None:
            continue
        if ("<", v, "0") in _node_facts(view, n):
            ok = isinstance(val, ast.BinOp) and _is_n_plus(val, v)
            chk.ob("R02.1b", fi.qualname + "::slice-arm::negative-bound-wraps-by-n", ok, fi.where(a),
                   "on the slice arm a negative bound b maps to nrows + b (found `%s`)" % norm(a))


def _guard_key(ts):
    return "|".join(t for t, _ in ts)[:80] or "top"


def _is_n_plus(binop, v):
    """binop is exactly `<nrows> + v` or `v + <nrows>`"""
    if not isinstance(binop.op, ast.Add):
        return False
    l, r = norm(binop.left), norm(binop.right)
    return (l in ("self.nrows", "nrows", "len(self)") and r == v) or (r in ("self.nrows", "nrows", "len(self)") and l == v)


# ---------------------------------------------------------------------------
def r02_2(chk, repo, F, S):
    fi = F["_get_rows2read"] or F["read"]
    q = U + "Recfile._get_rows2read"
    a = _ev(chk, S, "read/rows", ["unique", "count"], "R02.2a", q + "::returns-unique-result", fi.where(),
            "the requested row list reaches the reader as its distinct rows in ascending order (numpy.unique), with a buffer of that many rows")
    b = _ev(chk, S, "read/rows", ["range"], "R02.2b", q + "::range-check-raises", fi.where(),
            "a row list with a row < 0 or >= nrows is rejected by an exception")
    c = _ev(chk, S, "read/rows", ["clamp"], "R02.2c", q + "::no-clamp-of-explicit-row", fi.where(),
            "a single explicit row number outside [-nrows, nrows) is rejected, not replaced by another row")
    if not (a and b and c):
        if F["_get_rows2read"] is None:
            for r, k in (("R02.2a", "::returns-unique-result"), ("R02.2b", "::range-check-raises"), ("R02.2c", "::no-clamp-of-explicit-row")):
                _unrec(chk, S, "read/rows", r, q + k, fi.where(), "row-list normaliser not found")
        else:
            _r02_2_structural(chk, repo, F["_get_rows2read"])


_PASSTHROUGH = ("astype", "asarray", "array", "asanyarray", "ascontiguousarray", "copy", "atleast_1d", "ravel", "flatten", "view")


class _SortedCtx(object):
    """what is needed to decide whether a value is a distinct ascending row array at a CFG node"""

    def __init__(self, repo, fi, cfg, view, IN):
        self.repo, self.fi, self.cfg, self.view, self.IN = repo, fi, cfg, view, IN
        self._guards = {}

    def guard_edges(self, name):
        """{(branch id, label)}: branch outcomes under which the array called `name` is known to be empty, to have one element, or to be
        strictly ascending (then it has no repeats and numpy.unique would return an equal array)"""
        if name not in self._guards:
            out = set()
            for b in self.cfg.nodes:
                if b.kind == "branch" or (b.kind == "loop" and isinstance(b.ast, ast.While)):
                    for lab in ("T", "F"):
                        if any(_ascending_fact(f, name) for f in _guard_facts(self.repo, self.fi, b.ast.test, lab == "T")):
                            out.add((b.id, lab))
            self._guards[name] = out
        return self._guards[name]

    def small_edges(self, name):
        """{(branch id, label)}: branch outcomes under which the sequence called `name` is known to be empty or to have one element"""
        key = ("small", name)
        if key not in self._guards:
            out = set()
            for b in self.cfg.nodes:
                if b.kind == "branch" or (b.kind == "loop" and isinstance(b.ast, ast.While)):
                    for lab in ("T", "F"):
                        if any(_small_fact(f, name) for f in _guard_facts(self.repo, self.fi, b.ast.test, lab == "T")):
                            out.add((b.id, lab))
            self._guards[key] = out
        return self._guards[key]

    def request_small_at(self, at, src, since=None):
        """the sequence called `src` has at most one element whenever node `at` is reached: every way from each of its reaching
        definitions to `at` crosses a test that found it empty or of size one.  With `since` (a node id), `src` must in addition be the
        same object at `at` as it was at that node (same reaching definitions)."""
        defs = self.IN.get(at.id, {}).get(src)
        if not defs:
            return False
        if since is not None and self.IN.get(since, {}).get(src) != defs:
            return False
        return not any(self.reaches_unguarded(d, at, src, self.small_edges(src)) for d in defs)

    def tables(self):
        if "tables" not in self.__dict__:
            self.__dict__["tables"] = _name_tables(self.repo, self.fi.cls or "Recfile")
        return self.__dict__["tables"]

    def reaches_unguarded(self, d, at, name, guards=None):
        """is there a path from definition node d of `name` to node `at` that neither redefines `name` nor crosses one of its guard edges?"""
        if guards is None:
            guards = self.guard_edges(name)
        g = self.view.g
        seen = set()
        todo = [d]
        while todo:
            i = todo.pop()
            for j in g.successors(i):
                labs = {l for l in g[i][j]["labels"] if (i, l) not in guards}
                if not labs or j not in self.view.reach:
                    continue
                if j == at.id:
                    return True
                if j in seen:
                    continue
                seen.add(j)
                if name in self.cfg.defs_uses(self.cfg.node(j))[0]:
                    continue
                todo.append(j)
        return False


def _pred_inline(repo, fi, call):
    """`call` is a call of a helper of the repository whose body is one returned expression (after forward substitution of its
    temporaries): that expression with the call's arguments in place of the parameters; else None"""
    d = dotted_name(call.func)
    if d is None or any(k.arg is None for k in call.keywords) or any(isinstance(a, ast.Starred) for a in call.args):
        return None
    callee = None
    parts = d.split(".")
    mod = fi.module.name if fi.module is not None else None
    if len(parts) == 2 and parts[0] in ("self", "cls", fi.cls) and fi.cls and mod:
        callee = repo.funcs.get("%s.%s.%s" % (mod, fi.cls, parts[1]))
    elif len(parts) == 1 and mod:
        callee = repo.funcs.get("%s.%s" % (mod, parts[0]))
    if callee is None or callee.node is fi.node:
        return None
    body = [s for s in callee.node.body if not (isinstance(s, ast.Expr) and isinstance(s.value, ast.Constant))]
    if not body or not isinstance(body[-1], ast.Return) or body[-1].value is None:
        return None
    # guard clauses `if T: return True / False` in front of the final return are folded into it: T or rest / (not T) and rest
    clauses = []
    for st in body[:-1]:
        if isinstance(st, ast.If) and not st.orelse and len(st.body) == 1 and isinstance(st.body[0], ast.Return) \
                and isinstance(st.body[0].value, ast.Constant) and isinstance(st.body[0].value.value, bool):
            clauses.append((st.test, st.body[0].value.value))
        elif clauses or not (isinstance(st, ast.Assign) and len(st.targets) == 1 and isinstance(st.targets[0], ast.Name)):
            return None
    ret = body[-1].value
    for t, val in reversed(clauses):
        ret = ast.BoolOp(op=ast.Or(), values=[t, ret]) if val else ast.BoolOp(op=ast.And(), values=[ast.UnaryOp(op=ast.Not(), operand=t), ret])
    params = [p for p in callee.params if not p.startswith("*")]
    if len(params) != len(callee.params):
        return None
    static = any(norm(x) in ("staticmethod", "classmethod") for x in callee.node.decorator_list)
    if callee.cls and not any(norm(x) == "staticmethod" for x in callee.node.decorator_list):
        params = params[1:]
    if callee.cls and len(parts) == 1 and not static:
        return None
    binds = dict(zip(params, call.args))
    if len(call.args) > len(params):
        return None
    for k in call.keywords:
        if k.arg not in params or k.arg in binds:
            return None
        binds[k.arg] = k.value
    for p in params:
        if p not in binds:
            if p not in callee.defaults:
                return None
            binds[p] = callee.defaults[p]
    if any(not isinstance(v, (ast.Name, ast.Attribute, ast.Constant)) for v in binds.values()):
        return None
    e = rules.expand(ret, callee.node)
    bound = {x.id for x in ast.walk(e) if isinstance(x, ast.Name) and isinstance(x.ctx, ast.Store)}
    if bound & set(binds):
        return None

    class Sub(ast.NodeTransformer):
        def visit_Name(self, n):
            return ast.copy_location(_copy_ast(binds[n.id]), n) if isinstance(n.ctx, ast.Load) and n.id in binds else n
    return ast.fix_missing_locations(Sub().visit(e))


def _copy_ast(x):
    import copy
    return copy.deepcopy(x)


def _guard_facts(repo, fi, test, truth, depth=0):
    """canonical facts implied by `test` having the given truth value; calls of one-expression predicate helpers are looked into.
    Each fact is given as written and with the temporaries of fi substituted."""
    raw = []
    _decompose(test, truth, raw)
    out = []
    for t, tr, ew in raw:
        inl = _pred_inline(repo, fi, t) if (not ew and isinstance(t, ast.Call) and depth < 3) else None
        if inl is not None:
            out.extend(_guard_facts(repo, fi, inl, tr, depth + 1))
            continue
        for fn in (None, fi.node):
            f = _canon(t, tr, fn) + (("all",) if ew else ())
            if f not in out:
                out.append(f)
        if ew and tr and isinstance(t, ast.GeneratorExp):
            out.append(("gen", t, "", "all"))
    return out


def _small_fact(f, v):
    """does canonical fact f say that sequence v is empty or has a single element?"""
    if len(f) > 3:
        return False            # a fact about the elements, not about the sequence
    if _empty_fact(f, v):
        return True
    op, l, r = f[0], f[1], f[2]
    sizes = (v + ".size", "len(%s)" % v, v + ".shape[0]")
    return (op == "==" and ((l in sizes and r == "1") or (r in sizes and l == "1"))) or (op == "<" and l in sizes and r == "2") or \
        (op == "<=" and l in sizes and r == "1")


def _ascending_fact(f, v):
    """does canonical fact f say that array v is empty, has a single element, or is strictly ascending (each element greater than
    its predecessor)?  A strictly ascending one-dimensional array is sorted and free of repeats: numpy.unique returns an equal array."""
    if _small_fact(f, v):
        return True
    op, l, r = f[0], f[1], f[2]
    if len(f) < 4:
        return False
    diffs = ("numpy.diff(%s)" % v, "np.diff(%s)" % v, "%s[1:] - %s[:-1]" % (v, v))
    if op == "<" and l == v + "[:-1]" and r == v + "[1:]":
        return True
    if (op == "<" and l == "0" and r in diffs) or (op == "<=" and l == "1" and r in diffs):
        return True
    if op == "gen":
        # all(a < b for a, b in zip(v[:-1], v[1:]))  /  zip(v, v[1:])
        g = l
        if len(g.generators) == 1 and not g.generators[0].ifs and isinstance(g.generators[0].target, ast.Tuple) and len(g.generators[0].target.elts) == 2 \
                and isinstance(g.generators[0].iter, ast.Call) and norm(g.generators[0].iter.func) == "zip" and len(g.generators[0].iter.args) == 2:
            a, b = (norm(x) for x in g.generators[0].target.elts)
            za, zb = (norm(x) for x in g.generators[0].iter.args)
            if za in (v, v + "[:-1]") and zb == v + "[1:]" and isinstance(g.elt, ast.Compare):
                return _canon(g.elt, True)[:3] == ("<", a, b)
    return False


def _unique_status(ctx, at, e, depth=0):
    """is the value of expression e at CFG node `at`, on every path, the distinct values of the request in ascending order -- a
    numpy.unique result, or an array that a dominating test found empty / strictly ascending?  'yes' / 'no' / 'unknown'"""
    cfg = ctx.cfg
    if depth > 8:
        return "unknown"
    if isinstance(e, ast.Call):
        nm = call_name(e)
        if nm == "unique":
            return "yes"
        if nm in ("sorted", "sort") and e.args and isinstance(e.args[0], ast.Call) and call_name(e.args[0]) in ("set", "unique", "frozenset"):
            return "yes"
        if nm == "flatnonzero" and len(e.args) == 1 and not e.keywords:
            return "yes"               # positions of the set elements of a mask: ascending, each once
        if nm in _ALLOCATORS and _alloc_length_at_most_one(e):
            return "yes"               # an array of at most one element is ascending and free of repeats, whatever is stored in it
        if nm in _PASSTHROUGH:
            inner = e.func.value if isinstance(e.func, ast.Attribute) and not (isinstance(e.func.value, ast.Name) and e.func.value.id in ("numpy", "np")) \
                else (e.args[0] if e.args else None)
            if inner is None:
                return "unknown"
            if nm == "atleast_1d" and len(e.args) == 1 and _scalar_value(ctx, at, inner):
                return "yes"           # the one-element array of a single number
            return _unique_status(ctx, at, inner, depth + 1)
        src = _dedup_in_order_source(ctx, at, e)
        if src is not None:
            st = _unique_status(ctx, at, src, depth + 1)
            return st if st in ("yes", "no") else "unknown"
        if nm == "tolist" and isinstance(e.func, ast.Attribute) and not e.args:
            return _unique_status(ctx, at, e.func.value, depth + 1)      # same elements in the same order
        if nm in ("list", "tuple") and isinstance(e.func, ast.Name) and len(e.args) == 1 and not e.keywords:
            return _unique_status(ctx, at, e.args[0], depth + 1)
        return "unknown"
    if isinstance(e, ast.Subscript) and norm(e.slice) == "0" and _is_mask_positions(_follow_single(ctx, at, e.value)):
        return "yes"                   # numpy.where(mask)[0] / mask.nonzero()[0]
    if isinstance(e, ast.Subscript):
        src = _dedup_in_order_source(ctx, at, e)
        if src is not None:
            # the distinct values of src in the order of their first occurrence: ascending for every request only if src is
            st = _unique_status(ctx, at, src, depth + 1)
            return st if st in ("yes", "no") else "unknown"
    if isinstance(e, (ast.List, ast.Tuple)):
        if any(isinstance(x, ast.Starred) for x in e.elts):
            return "unknown"
        if not e.elts:
            return "yes"               # nothing selected: trivially ascending and distinct
        if len(e.elts) == 1:
            # a single number: ascending and distinct whatever it is (a nested sequence is not one number: not decided)
            return "yes" if _scalar_value(ctx, at, e.elts[0]) else "unknown"
        vals = [x.value for x in e.elts if isinstance(x, ast.Constant) and isinstance(x.value, int) and not isinstance(x.value, bool)]
        if len(vals) == len(e.elts):
            return "yes" if all(a < b for a, b in zip(vals, vals[1:])) else "no"
        return "no"
    if isinstance(e, ast.Constant):
        return "no"
    if isinstance(e, (ast.ListComp, ast.GeneratorExp)) and len(e.generators) == 1 and not e.generators[0].ifs and not e.generators[0].is_async \
            and isinstance(e.generators[0].target, ast.Name) and isinstance(e.generators[0].iter, ast.Name) \
            and _is_request(ctx.fi, e.generators[0].iter) and _per_element(e.elt, e.generators[0].target.id):
        if ctx.request_small_at(at, e.generators[0].iter.id):
            return "yes"               # ... of a request that a dominating test found empty or of one element
        return "no"                    # one value per element of the request, in the order of the request
    if isinstance(e, ast.Name):
        defs = ctx.IN.get(at.id, {}).get(e.id)
        if not defs:
            return "unknown"
        res = set()
        for d in defs:
            if not ctx.reaches_unguarded(d, at, e.id):
                # every way from this definition to here passes a test that found the array empty or strictly ascending
                res.add("yes" if d != cfg.entry.id else "unknown")      # (the caller's own object: its type is not known)
                continue
            if d == cfg.entry.id:
                res.add("no")          # the caller's own object
                continue
            dn = cfg.node(d)
            a = dn.ast
            if dn.kind == "stmt" and isinstance(a, ast.Assign) and len(a.targets) == 1 and isinstance(a.targets[0], ast.Name):
                src = _filled_in_request_order(ctx, e.id, dn) if _is_allocation(a.value) else None
                if src is None:
                    src = _request_ordered_value(ctx, a.value)
                if src:
                    # element i is computed from element i of the request: the order (and the repeats) of the request -- ascending and
                    # distinct for every request only where the request is known to have at most one element
                    res.add("yes" if ctx.request_small_at(at, src, since=d) else "no")
                else:
                    res.add(_unique_status(ctx, dn, a.value, depth + 1))
            elif dn.kind == "stmt" and isinstance(a, ast.Assign) and len(a.targets) == 1 and isinstance(a.targets[0], (ast.Tuple, ast.List)) \
                    and len(a.targets[0].elts) == 1 and _is_mask_positions(a.value):
                res.add("yes")         # (v,) = numpy.where(mask)
            else:
                res.add("unknown")
        if "no" in res:
            return "no"
        return "yes" if res == {"yes"} else "unknown"
    return "unknown"


def _unique_return_index(ctx, at, e):
    """e is the `return_index` output of numpy.unique(X, return_index=True) -- the position of the first occurrence of each distinct
    value of X: X, else None.  Accepts numpy.unique(X, return_index=True)[1] and a name bound by `u, first = numpy.unique(...)`."""
    def call_src(c):
        if isinstance(c, ast.Call) and call_name(c) == "unique" and len(c.args) == 1:
            ri = kwarg(c, "return_index")
            if isinstance(ri, ast.Constant) and ri.value is True and kwarg(c, "axis") is None:
                return c.args[0]
        return None

    if isinstance(e, ast.Subscript) and norm(e.slice) == "1":
        return call_src(_follow_single(ctx, at, e.value))
    if isinstance(e, ast.Name):
        defs = ctx.IN.get(at.id, {}).get(e.id) or ()
        if len(defs) != 1:
            return None
        d = next(iter(defs))
        if d == ctx.cfg.entry.id:
            return None
        a = ctx.cfg.node(d).ast
        if isinstance(a, ast.Assign) and len(a.targets) == 1 and isinstance(a.targets[0], (ast.Tuple, ast.List)) and len(a.targets[0].elts) >= 2 \
                and isinstance(a.targets[0].elts[1], ast.Name) and a.targets[0].elts[1].id == e.id:
            return call_src(a.value)
        if isinstance(a, ast.Assign) and len(a.targets) == 1 and isinstance(a.targets[0], ast.Name) and isinstance(a.value, ast.Subscript):
            return _unique_return_index(ctx, ctx.cfg.node(d), a.value)
    return None


def _dedup_in_order_source(ctx, at, e):
    """e removes the repeats of a sequence X but keeps the order of first occurrence: X, else None.
    X[sort(first)] with first = numpy.unique(X, return_index=True)[1];  list / tuple / numpy.array of dict.fromkeys(X) or
    OrderedDict.fromkeys(X);  sorted(set(X), key=X.index)"""
    if isinstance(e, ast.Subscript) and isinstance(e.value, ast.Name):
        idx = _follow_single(ctx, at, e.slice)
        if isinstance(idx, ast.Call) and call_name(idx) in ("sort", "sorted") and len(idx.args) == 1 and not idx.keywords:
            src = _unique_return_index(ctx, at, idx.args[0])
            if src is not None and norm(src) == e.value.id:
                return e.value
        return None
    if isinstance(e, ast.Call):
        nm = call_name(e)
        if nm in ("list", "tuple") and len(e.args) == 1 and not e.keywords:
            inner = _follow_single(ctx, at, e.args[0])
            if isinstance(inner, ast.Call) and call_name(inner) == "fromkeys" and len(inner.args) == 1 and not inner.keywords:
                return inner.args[0]
        if nm == "fromkeys" and len(e.args) == 1 and not e.keywords:
            return e.args[0]
        if nm == "sorted" and len(e.args) == 1 and isinstance(e.args[0], ast.Call) and call_name(e.args[0]) in ("set", "frozenset") \
                and len(e.args[0].args) == 1:
            k = kwarg(e, "key")
            x = e.args[0].args[0]
            if k is not None and isinstance(x, ast.Name) and norm(k) == x.id + ".index" and kwarg(e, "reverse") is None:
                return x
    return None


_ALLOCATORS = ("zeros", "empty", "ones", "ndarray", "zeros_like", "empty_like", "full")
_PURE_USES = ("len", "list", "tuple", "sorted", "set", "frozenset", "fromkeys", "enumerate", "zip", "iter", "str", "repr", "print", "min", "max", "sum",
              "any", "all", "isinstance", "unique", "sort", "array", "asarray", "asanyarray", "ascontiguousarray", "atleast_1d", "argsort",
              "astype", "copy", "view", "tolist", "ravel", "flatten", "append", "where", "nonzero", "flatnonzero", "diff", "index")


def _is_allocation(v):
    """a fresh container whose content does not depend on the order of anything: numpy.zeros(n) & co, [], [c] * n"""
    if isinstance(v, ast.Call) and call_name(v) in _ALLOCATORS and isinstance(v.func, ast.Attribute) and isinstance(v.func.value, ast.Name) \
            and v.func.value.id in ("numpy", "np"):
        return True
    if isinstance(v, ast.List) and not v.elts:
        return True
    if isinstance(v, ast.Call) and call_name(v) == "list" and not v.args and not v.keywords:
        return True
    return isinstance(v, ast.BinOp) and isinstance(v.op, ast.Mult) and isinstance(v.left, ast.List) and len(v.left.elts) == 1 \
        and isinstance(v.left.elts[0], ast.Constant)


def _is_request(fi, x):
    """x is the caller's request (a parameter), possibly through a conversion that keeps the order of the elements"""
    x = rules.expand(x, fi.node)
    for _ in range(4):
        if isinstance(x, ast.Call) and call_name(x) in _PASSTHROUGH + ("list", "tuple"):
            nx_ = x.func.value if isinstance(x.func, ast.Attribute) and not (isinstance(x.func.value, ast.Name) and x.func.value.id in ("numpy", "np")) \
                else (x.args[0] if x.args else None)
            if nx_ is None:
                return False
            x = nx_
    return isinstance(x, ast.Name) and x.id in set(p for p in fi.params[1:] if not p.startswith("*"))


def _per_element(v, elem, container=None):
    """v is a function of the element `elem` (text) alone: the element, a cast of it, a look-up table[elem], a method self.f(elem)"""
    while isinstance(v, ast.Call) and call_name(v) in ("int", "int64", "intp", "long") and len(v.args) == 1 and not v.keywords:
        v = v.args[0]
    if norm(v) == elem:
        return True
    if isinstance(v, ast.Subscript) and norm(v.slice) == elem and isinstance(v.ctx, ast.Load):
        return dotted_name(v.value) is not None and dotted_name(v.value) != container
    if isinstance(v, ast.Call) and len(v.args) == 1 and not v.keywords and norm(v.args[0]) == elem:
        return (dotted_name(v.func) or "").startswith("self.")
    return False


def _filled_in_request_order(ctx, name, alloc):
    """The container `name` (allocated at CFG node `alloc`) is filled by ONE loop that visits every element of the caller's request
    in order, without exit or filter, and stores as element i a value computed from element i of the request alone (the element
    itself, a cast, a per-name look-up); nothing else stores into it, sorts it in place or hands it to code that could.  Then its
    content has the order and the repeats of the request: for a request that is not ascending it is not ascending either."""
    fi = ctx.fi
    fn = fi.node

    def request(x):
        return _is_request(fi, x)

    def per_element(v, elem):
        return _per_element(v, elem, name)

    def element(it, target):
        if isinstance(it, ast.Call) and norm(it.func) == "range" and len(it.args) == 1 and not it.keywords and isinstance(target, ast.Name):
            n = it.args[0]
            src = n.value if isinstance(n, ast.Attribute) and n.attr == "size" else \
                (n.args[0] if isinstance(n, ast.Call) and norm(n.func) == "len" and len(n.args) == 1 else None)
            if src is not None and isinstance(src, ast.Name) and request(src):
                sources.append(src.id)
                return target.id, "%s[%s]" % (src.id, target.id)
        elif isinstance(it, ast.Call) and norm(it.func) == "enumerate" and len(it.args) == 1 and not it.keywords and isinstance(target, ast.Tuple) \
                and len(target.elts) == 2 and isinstance(it.args[0], ast.Name) and request(it.args[0]):
            sources.append(it.args[0].id)
            return norm(target.elts[0]), norm(target.elts[1])
        elif isinstance(target, ast.Name) and isinstance(it, ast.Name) and request(it):
            sources.append(it.id)
            return None, target.id
        return None, None

    fills = []        # the statements that store into the container
    loops = 0
    sources = []      # the name the request goes by in the loop that fills the container
    filled_from = None
    for x in walk_no_nested(fn):
        if isinstance(x, ast.For) and not x.orelse and not any(isinstance(y, (ast.Break, ast.Continue, ast.Return, ast.If, ast.Try, ast.While, ast.For))
                                                            for b in x.body for y in ast.walk(b)):
            idx, elem = element(x.iter, x.target)
            if elem is None:
                continue
            for b in x.body:
                if isinstance(b, ast.Assign) and len(b.targets) == 1 and isinstance(b.targets[0], ast.Subscript) and norm(b.targets[0].value) == name:
                    if idx is not None and norm(b.targets[0].slice) == idx and per_element(b.value, elem):
                        fills.append(b)
                        filled_from = sources[-1]
                        loops += 1
                if isinstance(b, ast.Expr) and isinstance(b.value, ast.Call) and isinstance(b.value.func, ast.Attribute) and b.value.func.attr == "append" \
                        and norm(b.value.func.value) == name and len(b.value.args) == 1 and per_element(b.value.args[0], elem):
                    fills.append(b.value)
                    filled_from = sources[-1]
                    loops += 1
    if loops != 1:
        return None
    # nothing else changes the container
    ok_nodes = {id(f) for f in fills}
    for x in walk_no_nested(fn):
        if isinstance(x, (ast.Assign, ast.AugAssign, ast.AnnAssign, ast.Delete)):
            tgts = x.targets if isinstance(x, (ast.Assign, ast.Delete)) else [x.target]
            for t in tgts:
                for tt in rules._flat_targets(t):
                    base = tt
                    while isinstance(base, (ast.Subscript, ast.Attribute)):
                        base = base.value
                    if isinstance(base, ast.Name) and base.id == name:
                        if tt is base and isinstance(x, ast.Assign) and x is alloc.ast:
                            continue
                        if id(x) in ok_nodes:
                            continue
                        return None
        if isinstance(x, ast.Call) and id(x) not in ok_nodes:
            uses = [a for a in list(x.args) + [k.value for k in x.keywords] if isinstance(a, ast.Name) and a.id == name]
            recv = isinstance(x.func, ast.Attribute) and isinstance(x.func.value, ast.Name) and x.func.value.id == name
            if kwarg(x, "out") is not None and norm(kwarg(x, "out")) == name:
                return None
            if recv and (x.func.attr not in _PURE_USES or x.func.attr in ("sort", "append")):
                return None            # name.sort() sorts in place; any unknown method may change it
            if uses and call_name(x) not in _PURE_USES:
                return None
    return filled_from


def _request_ordered_value(ctx, v):
    """v is a list / array built by one comprehension over the caller's request, one value per element, in the order of the request
    (possibly through order-keeping conversions): the name the request goes by, else None"""
    for _ in range(4):
        if isinstance(v, ast.Call) and call_name(v) in _PASSTHROUGH + ("list", "tuple", "fromiter") and not isinstance(v, ast.Starred):
            nx_ = v.func.value if isinstance(v.func, ast.Attribute) and not (isinstance(v.func.value, ast.Name) and v.func.value.id in ("numpy", "np")) \
                else (v.args[0] if v.args else None)
            if nx_ is None:
                return None
            v = nx_
    if isinstance(v, (ast.ListComp, ast.GeneratorExp)) and len(v.generators) == 1 and not v.generators[0].ifs and not v.generators[0].is_async \
            and isinstance(v.generators[0].target, ast.Name) and isinstance(v.generators[0].iter, ast.Name) \
            and _is_request(ctx.fi, v.generators[0].iter) and _per_element(v.elt, v.generators[0].target.id):
        return v.generators[0].iter.id
    return None


def _alloc_length_at_most_one(v):
    """numpy.zeros(1, ...) / empty((1,)) / full(0, x) ...: a fresh one-dimensional array of constant length 0 or 1"""
    if not (isinstance(v, ast.Call) and call_name(v) in ("zeros", "empty", "ones", "full") and isinstance(v.func, ast.Attribute)
            and isinstance(v.func.value, ast.Name) and v.func.value.id in ("numpy", "np")):
        return False
    shp = v.args[0] if v.args else kwarg(v, "shape")
    if isinstance(shp, (ast.Tuple, ast.List)) and len(shp.elts) == 1:
        shp = shp.elts[0]
    return isinstance(shp, ast.Constant) and isinstance(shp.value, int) and not isinstance(shp.value, bool) and shp.value in (0, 1)


def _scalar_value(ctx, at, e, depth=0):
    """the expression is one number (not a sequence): an integer constant, int(...) / operator.index(...) of anything (they raise for
    what is not one number), the column number of one name -- self.get_colnum(name), <name table>[name] --, the size of something"""
    e = _follow_single(ctx, at, e)
    if isinstance(e, ast.Constant):
        return isinstance(e.value, int) and not isinstance(e.value, bool)
    if _strip_int_wrappers(e) is not e:
        return True
    if isinstance(e, ast.Call) and call_name(e) == "len" and isinstance(e.func, ast.Name) and len(e.args) == 1:
        return True
    if isinstance(e, ast.Attribute) and e.attr in ("size", "nrows", "ndim"):
        return True
    if isinstance(e, ast.Call) and len(e.args) == 1 and not e.keywords and not isinstance(e.args[0], ast.Starred):
        callee = _self_callee(ctx.repo, e, ctx.fi.cls or "Recfile")
        if callee is not None and callee.name == "get_colnum":
            return True
        if callee is not None and len(callee.params) == 2 and depth < 2:
            rets = [x for x in walk_no_nested(callee.node) if isinstance(x, ast.Return)]
            if rets and all(r.value is not None and _is_name_lookup(ctx.repo, callee, rules.expand(r.value, callee.node), callee.params[1], ctx.tables())
                            for r in rets) and not rules.falls_off_end(cfg_of(callee)):
                return True
    if isinstance(e, ast.Subscript) and isinstance(e.ctx, ast.Load) and rules.xnorm(e.value, ctx.fi.node) in ctx.tables():
        return True
    return False


def _is_mask_positions(e):
    """numpy.where(mask) / numpy.nonzero(mask) / mask.nonzero(): the tuple whose (only) element lists the positions of the set elements
    of a one-dimensional mask in ascending order, each once"""
    if not isinstance(e, ast.Call) or e.keywords:
        return False
    nm = call_name(e)
    lib = isinstance(e.func, ast.Attribute) and isinstance(e.func.value, ast.Name) and e.func.value.id in ("numpy", "np")
    if nm in ("where", "nonzero") and lib and len(e.args) == 1:
        return True
    return nm == "nonzero" and isinstance(e.func, ast.Attribute) and not lib and not e.args


def _follow_single(ctx, at, e):
    """e, or the value assigned to it when e is a name with a single reaching plain assignment"""
    if isinstance(e, ast.Name):
        defs = ctx.IN.get(at.id, {}).get(e.id) or ()
        if len(defs) == 1:
            d = next(iter(defs))
            if d != ctx.cfg.entry.id:
                a = ctx.cfg.node(d).ast
                if isinstance(a, ast.Assign) and len(a.targets) == 1 and isinstance(a.targets[0], ast.Name):
                    return a.value
    return e


def _min_forms(v):
    return {v + "[0]", v + ".min()", "min(%s)" % v, "numpy.min(%s)" % v, "np.min(%s)" % v, "numpy.amin(%s)" % v, "np.amin(%s)" % v}


def _max_forms(v):
    return {v + "[-1]", v + ".max()", "max(%s)" % v, "numpy.max(%s)" % v, "np.max(%s)" % v, "numpy.amax(%s)" % v, "np.amax(%s)" % v,
            "%s[%s.size - 1]" % (v, v), "%s[len(%s) - 1]" % (v, v)}


_NROWS = ("self.nrows", "len(self)")


def _bound_kind(f, v):
    """'lo' / 'hi' / None: does canonical fact f bound the rows of array v from below by 0 / from above by the row count?"""
    op, l, r = f[0], f[1], f[2]
    allq = len(f) > 3
    lo_terms = _min_forms(v) | ({v} if allq else set())
    hi_terms = _max_forms(v) | ({v} if allq else set())
    if (op == "<=" and l == "0" and r in lo_terms) or (op == "<" and l == "-1" and r in lo_terms):
        return "lo"
    if (op == "<" and l in hi_terms and r in _NROWS) or (op == "<=" and l in hi_terms and r in tuple(n + " - 1" for n in _NROWS)):
        return "hi"
    return None


def _empty_fact(f, v):
    op, l, r = f[0], f[1], f[2]
    sizes = (v + ".size", "len(%s)" % v, v + ".shape[0]")
    return (op == "==" and ((l in sizes and r == "0") or (r in sizes and l == "0"))) or (op == "<" and l in sizes and r == "1") or \
        (op == "<=" and l in sizes and r == "0") or (op == "falsy" and l in sizes)


def _r02_2_structural(chk, repo, fi):
    """row-list normaliser, structural form: reaching definitions for numpy.unique, path pruning for the range check"""
    import networkx as nx
    cfg = cfg_of(fi)
    view = cfg.view()
    IN, _ = view.reaching_defs()
    rets = [n for n in rules.return_nodes(cfg) if n.ast.value is not None and not (isinstance(n.ast.value, ast.Constant) and n.ast.value.value is None)]
    final = []
    for r in rets:
        facts = _node_facts(view, r)
        if isinstance(r.ast.value, ast.Name) and ("is", r.ast.value.id, "None") in facts:
            continue      # `return rows` under `rows is None`
        final.append(r)
    ctx = _SortedCtx(repo, fi, cfg, view, IN)
    for r in final:
        st = _unique_status(ctx, r, r.ast.value)
        v = norm(r.ast.value)
        # in-place stores into the returned array after de-duplication
        clobber = False
        if isinstance(r.ast.value, ast.Name):
            for d in IN.get(r.id, {}).get(v, ()):
                dn = cfg.node(d) if d != cfg.entry.id else None
                if dn is None:
                    continue
                for n in cfg.nodes:
                    a = n.ast
                    if n.kind == "stmt" and isinstance(a, (ast.Assign, ast.AugAssign)):
                        tg = a.targets[0] if isinstance(a, ast.Assign) else a.target
                        if isinstance(tg, ast.Subscript) and norm(tg.value) == v and view.reaches(dn, n) and view.reaches(n, r):
                            clobber = True
        chk.ob("R02.2a", fi.qualname + "::returns-unique-result", None if st == "unknown" else (st == "yes" and not clobber), fi.where(r.ast),
               "the value returned (`%s`) is a numpy.unique result on every path (or was found empty / strictly ascending by a test on the way, "
               "so that numpy.unique would return an equal array), not modified afterwards" % v)
    if not final:
        chk.ob("R02.2a", fi.qualname + "::returns-unique-result", None, fi.where(), "no return of a row list found")
        return
    # range check
    names = {norm(r.ast.value) for r in final if isinstance(r.ast.value, ast.Name)}
    checks = {"lo": [], "hi": []}       # (branch node, ok label)
    empties = []
    ex = cfg.exit.id
    for b in cfg.nodes:
        if b.kind != "branch":
            continue
        test = b.ast.test
        # `if v.size and <out of range>: raise`: when the guard is false the selection is empty (nothing to check); otherwise the rest decides
        if isinstance(test, ast.BoolOp) and isinstance(test.op, ast.And) and len(test.values) >= 2:
            g = _canon(test.values[0], True, fi.node)
            if any(_empty_fact(_canon(test.values[0], False, fi.node), v) for v in names) or g[0] == "truthy" and any(g[1] in (v + ".size", "len(%s)" % v) for v in names):
                test = test.values[1] if len(test.values) == 2 else ast.BoolOp(op=ast.And(), values=test.values[1:])
        for lab in ("T", "F"):
            raw = []
            _decompose(test, lab == "T", raw)
            facts = [_canon(t, tr, fi.node) + (("all",) if ew else ()) for t, tr, ew in raw]
            other = [j for j in view.g.successors(b.id) if lab not in view.g[b.id][j]["labels"]]
            rejects = bool(other) and not any(j == ex or ex in nx.descendants(view.g, j) for j in other)
            for v in names:
                for f in facts:
                    k = _bound_kind(f, v)
                    if k and rejects:
                        checks[k].append((b, lab))
                    if _empty_fact(f, v):
                        empties.append((b, lab))
    helper_calls = [c for n in cfg.nodes for c in rules.stmts_calls(n) if _self_callee(repo, c) is not None and
                    any(isinstance(x, ast.Name) and x.id in names for a in list(c.args) + [k.value for k in c.keywords] for x in ast.walk(a))
                    and _self_callee(repo, c).name != "_fix_range"]
    found = bool(checks["lo"] or checks["hi"])
    # a raise under some comparison that could not be taken apart is not evidence that the check is missing
    opaque = any(any(isinstance(x, ast.Compare) for x in ast.walk(bb.ast.test)) for n in rules.raise_nodes(cfg) for bb, _ in view.controlling_branches(n) if bb.kind == "branch")
    chk.ob("R02.2b", fi.qualname + "::range-check-raises", True if found else (None if helper_calls or not names or opaque else False), fi.where(),
           "a range check of the row list against the row count raises (%s)" % (sorted({norm(b.ast.test) for b, _ in checks["lo"] + checks["hi"]}) or "NOT FOUND"))
    if not found:
        return
    chk.ob("R02.2b", fi.qualname + "::range-check-bounds", bool(checks["lo"]) and bool(checks["hi"]), fi.where(checks["lo"][0][0].ast if checks["lo"] else checks["hi"][0][0].ast),
           "the range check rejects rows < 0 and rows >= nrows (lower bound %s, upper bound %s)"
           % ("found" if checks["lo"] else "MISSING", "found" if checks["hi"] else "MISSING"))
    for r in final:
        ok = True
        for kind in ("lo", "hi"):
            if not checks[kind]:
                continue
            g = nx.DiGraph()
            g.add_nodes_from(view.g.nodes)
            cut = {(b.id, lab) for b, lab in checks[kind] + empties}
            for a_, b_, data in view.g.edges(data=True):
                labs = set(data["labels"])
                labs = {l for l in labs if (a_, l) not in cut}
                if labs:
                    g.add_edge(a_, b_)
            if r.id in nx.descendants(g, cfg.entry.id):
                ok = False
        chk.ob("R02.2b", fi.qualname + "::range-check-dominates-return", ok, fi.where(r.ast),
               "every path to the return of a non-empty row list passes the range check")
    # no clamping of explicit rows: follow helper calls with the non-slice flag
    for x in walk_no_nested(fi.node):
        if isinstance(x, ast.Call):
            callee = _self_callee(repo, x)
            if callee is not None:
                fl = kwarg(x, "isslice")
                flags = {"isslice": fl.value} if isinstance(fl, ast.Constant) else {}
                _no_clamp(chk, callee, flags)
    _no_clamp(chk, fi, {})


def _row_fold(e, v):
    """text describing how expression e folds the row number `v` (text of a name / subscript) into the table, else None:
    v % <..nrows..>, numpy.mod / remainder / fmod / divmod / operator.mod (v, <..nrows..>), min / max / minimum / maximum / clip of v
    against a term of the row count"""
    def has_v(x):
        return any(norm(y) == v for y in ast.walk(x) if isinstance(y, (ast.Name, ast.Subscript, ast.Attribute)))

    def has_n(x):
        t = norm(x)
        return "nrows" in t or "len(self)" in t

    for x in ast.walk(e):
        if isinstance(x, ast.BinOp) and isinstance(x.op, ast.Mod) and has_v(x.left) and has_n(x.right) \
                and not (isinstance(x.left, ast.Constant) and isinstance(x.left.value, str)):
            return "remainder modulo the row count"
        if isinstance(x, ast.Call) and not isinstance(x.func, ast.Lambda):
            nm = call_name(x)
            args = list(x.args) + [k.value for k in x.keywords] + ([x.func.value] if isinstance(x.func, ast.Attribute) and
                                                                   not (isinstance(x.func.value, ast.Name) and x.func.value.id in ("numpy", "np", "operator", "math")) else [])
            if nm in ("mod", "remainder", "fmod", "divmod") and len(x.args) == 2 and has_v(x.args[0]) and has_n(x.args[1]):
                return "remainder modulo the row count"
            if nm in ("min", "max", "minimum", "maximum", "clip", "fmin", "fmax") and any(has_v(a_) for a_ in args) \
                    and any(has_n(a_) and not has_v(a_) for a_ in args):
                return "bounded by a term of the row count"
    return None


def _no_clamp(chk, fi, flags):
    cfg = cfg_of(fi)
    view = cfg.specialise(flags=flags)
    chk.analysed_unit(fi.qualname + ("[%s]" % flags if flags else ""))
    found = 0
    for n in view.nodes():
        a = n.ast
        v = val = None
        if n.kind == "stmt" and isinstance(a, ast.Assign) and len(a.targets) == 1:
            tgt = a.targets[0]
            base = tgt.value if isinstance(tgt, ast.Subscript) else tgt
            if isinstance(base, ast.Name):
                v, val = norm(tgt), a.value
        elif n.kind == "stmt" and isinstance(a, ast.AugAssign):
            base = a.target.value if isinstance(a.target, ast.Subscript) else a.target
            if isinstance(base, ast.Name):
                ld = ast.parse(norm(a.target), mode="eval").body
                v, val = norm(a.target), ast.BinOp(left=ld, op=a.op, right=a.value)
        elif n.kind == "return" and a.value is not None and len(fi.params) > 1 and not isinstance(a.value, ast.Name):
            v, val = fi.params[1], a.value
        if v is None:
            continue
        xval = _xexpand(val, fi.node)
        if not any(nr in norm(xval) for nr in _NROWS + ("nrows",)):
            continue
        # folding: the new value of the row number is the old one reduced modulo the row count, or bounded by a term made from the
        # row count (min / max / clip).  Such a map sends row numbers outside [-nrows, nrows) into [0, nrows): the range check that
        # follows can no longer reject them.  (Adding the row count to a negative number keeps every k < -nrows negative.)
        fold = _row_fold(xval, v)
        facts = _node_facts(view, n, fi.node)
        if fold is not None:
            # a guard that itself confines the old value by a term of the row count (e.g. -nrows <= v) may make the fold exact
            confined = any(len(f) >= 3 and ((v in (f[1], f[2])) and "nrows" in (f[1] + f[2]) or ("len(self)" in f[1] + f[2] and v in (f[1], f[2]))) for f in facts)
            found += 1
            chk.ob("R02.2c", fi.qualname + "::no-clamp-of-explicit-row", None if confined else False, fi.where(a),
                   "an explicit row number is replaced by `%s` (%s)%s: every row number outside [-nrows, nrows) is folded onto a row of the "
                   "table instead of being rejected, so read(rows=k) / read(rows=[k]) with k < -nrows (or k >= nrows) silently returns "
                   "another row" % (norm(val), fold, " under a guard on the row count that was not evaluated" if confined else ""))
            continue
        if "nrows" not in norm(val) and "nrows" not in norm(xval):
            continue
        for f in facts + [g for g in _node_facts(view, n) if g not in facts]:
            # v > <..nrows..>  /  v >= <..nrows..>   (canonical: <..nrows..> < v)
            if f[0] in ("<", "<=") and f[2] == v and "nrows" in f[1]:
                found += 1
                chk.ob("R02.2c", fi.qualname + "::no-clamp-of-explicit-row", False, fi.where(a),
                       "an explicit row number beyond the table is replaced by `%s` (under `%s %s %s`) instead of being rejected: "
                       "read(rows=[k]) with k >= nrows silently returns another row" % (norm(val), f[1], f[0], f[2]))
    if not found:
        chk.ob("R02.2c", fi.qualname + "::no-clamp-of-explicit-row", True, fi.where(),
               "no value-clamping store of an explicit row number on the non-slice path")


# ---------------------------------------------------------------------------
def r02_3(chk, repo, F, S):
    rd = F["read"]
    gc = F["get_colnums"] or rd
    g1 = F["get_colnum"] or rd
    rcols = F["_read_columns"] or rd
    cs = F["_get_colnums_to_read"] or rd
    a = _ev(chk, S, "read/cols", ["colnums"], "R02.3a", "eval::" + gc.qualname + "::column-numbers-unique-sorted", gc.where(),
            "every requested column name is translated and the column numbers reach the reader in file order without repeats")
    b = _ev(chk, S, "read/cols", ["unknown"], "R02.3b", "eval::" + g1.qualname + "::unknown-name-raises", g1.where(),
            "an unknown column name raises")
    c = _ev(chk, S, "read/cols", ["dtype", "count"], "R02.3c", "eval::" + rcols.qualname + "::subset-dtype-from-file-descr", rcols.where(),
            "the output array of a column subset has the file descr entries at the sorted column numbers, in that order")
    d = _ev(chk, S, "read/cols", ["scalar"], "R02.3d", "eval::" + cs.qualname + "::scalar-column-gives-plain-array", cs.where(),
            "a single column name (and only that) is reduced to the plain array of that column")
    if not (a and b and c and d):
        _r02_3_structural(chk, repo, F)


_FILE_NAMES = ("self.dtype.names", "self.colnames", "numpy.array(self.dtype.names)", "list(self.dtype.names)", "tuple(self.dtype.names)",
               "self.colnames.tolist()", "list(self.colnames)")


def _is_positions_map(v, fn):
    """v builds a dict that maps each field name of the file's dtype to its position:
    {name: i for i, name in enumerate(NAMES)}, {NAMES[i]: i for i in range(len(NAMES))}, dict(zip(NAMES, range(n) / numpy.arange(n))),
    dict((name, i) for i, name in enumerate(NAMES))"""
    def names(e):
        return rules.xnorm(e, fn) in _FILE_NAMES

    def counter(e):
        return isinstance(e, ast.Call) and call_name(e) in ("range", "arange", "count") and len(e.args) <= 1 and not \
            [k for k in e.keywords if k.arg != "dtype"] and (e.args or call_name(e) == "count")

    def comp(key, val, gens):
        if len(gens) != 1 or gens[0].ifs or gens[0].is_async:
            return False
        g = gens[0]
        if isinstance(val, ast.Call) and call_name(val) == "int" and len(val.args) == 1:
            val = val.args[0]
        if isinstance(g.iter, ast.Call) and norm(g.iter.func) == "enumerate" and len(g.iter.args) == 1 and not g.iter.keywords \
                and isinstance(g.target, ast.Tuple) and len(g.target.elts) == 2 and names(g.iter.args[0]):
            return norm(val) == norm(g.target.elts[0]) and norm(key) == norm(g.target.elts[1]) and isinstance(val, ast.Name) and isinstance(key, ast.Name)
        if isinstance(g.iter, ast.Call) and call_name(g.iter) == "range" and len(g.iter.args) == 1 and isinstance(g.target, ast.Name):
            return norm(val) == g.target.id and isinstance(key, ast.Subscript) and names(key.value) and norm(key.slice) == g.target.id
        if isinstance(g.iter, ast.Call) and norm(g.iter.func) == "zip" and len(g.iter.args) == 2 and isinstance(g.target, ast.Tuple) and len(g.target.elts) == 2:
            a, b = g.iter.args
            ta, tb = (norm(x) for x in g.target.elts)
            return (names(a) and counter(b) and norm(key) == ta and norm(val) == tb) or (names(b) and counter(a) and norm(key) == tb and norm(val) == ta)
        return False

    v = rules.expand(v, fn)
    if isinstance(v, ast.DictComp):
        return comp(v.key, v.value, v.generators)
    if isinstance(v, ast.Call) and norm(v.func) == "dict" and len(v.args) == 1 and not v.keywords:
        a = v.args[0]
        if isinstance(a, ast.Call) and norm(a.func) == "zip" and len(a.args) == 2 and not a.keywords:
            return names(a.args[0]) and counter(a.args[1])
        if isinstance(a, (ast.GeneratorExp, ast.ListComp)) and isinstance(a.elt, ast.Tuple) and len(a.elt.elts) == 2:
            return comp(a.elt.elts[0], a.elt.elts[1], a.generators)
    return False


def _name_tables(repo, cls="Recfile"):
    """attributes `self.X` of the class that hold a name -> column position table: every assignment to the attribute in the class builds
    such a table from the field names of the file's dtype or resets it to an empty dict / None, and every method that sets self.dtype
    to a dtype also builds the table (so that the table cannot go stale)"""
    builds, other, sets_dtype = {}, {}, set()
    for q, f in repo.funcs.items():
        if not q.startswith(U + cls + ".") or f.cls != cls:
            continue
        for x in walk_no_nested(f.node):
            if not isinstance(x, (ast.Assign, ast.AugAssign, ast.AnnAssign)):
                continue
            tgts = x.targets if isinstance(x, ast.Assign) else [x.target]
            for t in tgts:
                for tt in rules._flat_targets(t):
                    base = tt
                    while isinstance(base, ast.Subscript):
                        base = base.value
                    d = dotted_name(base) or ""
                    if not d.startswith("self.") or d.count(".") != 1:
                        continue
                    if d == "self.dtype" and tt is base:
                        if not (isinstance(x, ast.Assign) and isinstance(x.value, ast.Constant) and x.value.value is None):
                            sets_dtype.add(q)
                        continue
                    val = x.value if isinstance(x, ast.Assign) and tt is t and len(tgts) == 1 else None
                    if val is not None and _is_positions_map(val, f.node):
                        builds.setdefault(d, set()).add(q)
                    elif val is not None and (norm(val) in ("{}", "dict()", "None")):
                        pass
                    else:
                        other.setdefault(d, set()).add(q)
    return sorted(d for d, qs in builds.items() if d not in other and sets_dtype <= qs)


def _table_lookup(e, key, tables, fn):
    """e is <table>[key] for one of the name -> position tables and the parameter `key`"""
    return isinstance(e, ast.Subscript) and isinstance(e.ctx, ast.Load) and rules.xnorm(e.value, fn) in tables and norm(e.slice) == key


def _position_of_name(e, key, tables, fn):
    """the expression is the position of `key` among the file's field names: <table>[key], int(...) of it, or
    numpy.where(NAMES == key)[0][0]"""
    e = rules.expand(e, fn)
    if isinstance(e, ast.Call) and call_name(e) in ("int", "int64", "intp") and len(e.args) == 1 and not e.keywords:
        e = e.args[0]
    if _table_lookup(e, key, tables, fn):
        return True
    if isinstance(e, ast.Subscript) and norm(e.slice) == "0" and isinstance(e.value, ast.Subscript) and norm(e.value.slice) == "0":
        w = e.value.value
        if _is_mask_positions(w):
            c = w.args[0] if w.args else w.func.value
            if isinstance(c, ast.Compare) and len(c.ops) == 1 and isinstance(c.ops[0], ast.Eq):
                l, r = norm(c.left), norm(c.comparators[0])
                return (l in _FILE_NAMES and r == key) or (r in _FILE_NAMES and l == key)
    return False


_NAME_FOLDS = ("lower", "upper", "casefold", "strip", "lstrip", "rstrip", "title", "capitalize", "swapcase", "replace", "translate",
               "expandtabs", "split", "rsplit", "partition", "rpartition", "removeprefix", "removesuffix", "zfill", "ljust", "rjust", "center")
_NAME_PARTIAL = ("startswith", "endswith", "find", "rfind", "count", "match", "search", "fullmatch", "fnmatch", "fnmatchcase", "filter")


def _mask_of_positions(fn, e, depth=0):
    """the mask M when expression e lists the positions of the set elements of M: numpy.flatnonzero(M), numpy.where(M)[0],
    numpy.nonzero(M)[0], M.nonzero()[0], numpy.argwhere(M).ravel()/flatten()/[:, 0], or a local bound once by `(w,) = numpy.where(M)`
    or by a plain assignment of one of these; else None"""
    if depth > 4:
        return None
    if isinstance(e, ast.Name):
        binds = []
        for x in walk_no_nested(fn):
            if isinstance(x, ast.Assign):
                for t in x.targets:
                    if any(isinstance(tt, ast.Name) and tt.id == e.id for tt in ast.walk(t)):
                        binds.append((x, t))
            elif isinstance(x, (ast.AugAssign, ast.AnnAssign, ast.For, ast.comprehension, ast.NamedExpr)) and \
                    any(isinstance(tt, ast.Name) and tt.id == e.id for tt in ast.walk(x.target)):
                binds.append((x, None))
            elif isinstance(x, ast.With) and any(it.optional_vars is not None and any(isinstance(tt, ast.Name) and tt.id == e.id for tt in ast.walk(it.optional_vars))
                                                 for it in x.items):
                binds.append((x, None))
        from vcheck.cfg import func_params
        if len(binds) != 1 or binds[0][1] is None or len(binds[0][0].targets) != 1 or e.id in func_params(fn):
            return None
        st, t = binds[0]
        if isinstance(t, ast.Name):
            return _mask_of_positions(fn, st.value, depth + 1)
        if isinstance(t, (ast.Tuple, ast.List)) and len(t.elts) == 1 and isinstance(t.elts[0], ast.Name):
            v = st.value
            if _is_mask_positions(v):
                return v.args[0] if v.args else v.func.value
        return None
    if isinstance(e, ast.Call) and not e.keywords:
        nm = call_name(e)
        lib = isinstance(e.func, ast.Attribute) and isinstance(e.func.value, ast.Name) and e.func.value.id in ("numpy", "np")
        if nm == "flatnonzero" and lib and len(e.args) == 1:
            return e.args[0]
        if nm in ("ravel", "flatten") and isinstance(e.func, ast.Attribute) and not lib and not e.args:
            inner = e.func.value
            if isinstance(inner, ast.Call) and call_name(inner) == "argwhere" and len(inner.args) == 1 and not inner.keywords:
                return inner.args[0]
    if isinstance(e, ast.Subscript) and norm(e.slice) == "0" and _is_mask_positions(e.value):
        w = e.value
        return w.args[0] if w.args else w.func.value
    return None


def _colnum_match(fn, key, tables):
    """how get_colnum-like function `fn` matches the requested name `key` against the names of the file, per return statement:
    list of ('exact' | 'folded' | 'partial' | 'unknown', text).  exact: the result is the (first) position where the stored names are
    EQUAL to the requested name -- positions of the mask NAMES == key, <name -> position table>[key], list(NAMES).index(key);
    folded: the two sides of the comparison are first put through a string transformation that is not one-to-one (case folding,
    stripping, ...), so distinct names of the file are identified; partial: prefix / substring / pattern match"""
    def is_names(x):
        return rules.xnorm(x, fn) in _FILE_NAMES or norm(x) in _FILE_NAMES

    def is_key(x):
        x = _xexpand(x, fn)
        if isinstance(x, ast.Call) and call_name(x) in ("str", "str_", "asarray", "array") and len(x.args) == 1 and not x.keywords:
            x = x.args[0]
        return norm(x) == key

    def mentions_names(x):
        t = norm(x)
        return any(nm in t for nm in ("self.dtype.names", "self.colnames", "self.dtype.fields"))

    def mentions_key(x):
        return any(isinstance(y, ast.Name) and y.id == key for y in ast.walk(x))

    def folds(x):
        return [call_name(y) for y in ast.walk(x) if isinstance(y, ast.Call) and call_name(y) in _NAME_FOLDS]

    def classify_mask(m):
        m = _xexpand(m, fn)
        if isinstance(m, ast.Compare) and len(m.ops) == 1 and isinstance(m.ops[0], ast.Eq):
            l, r = m.left, m.comparators[0]
            if (is_names(l) and is_key(r)) or (is_names(r) and is_key(l)):
                return "exact"
            if (mentions_names(l) and mentions_key(r)) or (mentions_names(r) and mentions_key(l)):
                f = folds(l) + folds(r)
                if f:
                    return "folded:" + ",".join(sorted(set(f)))
            return "unknown"
        if isinstance(m, ast.Call) and mentions_names(m) and mentions_key(m):
            nm = call_name(m)
            if nm == "equal" and len(m.args) == 2 and not m.keywords and \
                    ((is_names(m.args[0]) and is_key(m.args[1])) or (is_names(m.args[1]) and is_key(m.args[0]))):
                return "exact"
            if nm in _NAME_PARTIAL:
                return "partial:" + nm
            f = folds(m)
            if f and nm in ("equal", "isin", "in1d"):
                return "folded:" + ",".join(sorted(set(f)))
        return "unknown"

    out = []
    for r in walk_no_nested(fn):
        if not isinstance(r, ast.Return) or r.value is None:
            continue
        e = r.value
        for _ in range(3):
            if isinstance(e, ast.Call) and call_name(e) in ("int", "int64", "intp", "index") and len(e.args) == 1 and not e.keywords and \
                    not (call_name(e) == "index" and not (isinstance(e.func, ast.Attribute) and norm(e.func.value) == "operator")):
                e = e.args[0]
            elif isinstance(e, ast.Name) and e.id in _xdefs(fn):
                e = _xdefs(fn)[e.id]
        kind = "unknown"
        if _table_lookup(_xexpand(e, fn), key, tables, fn):
            kind = "exact"
        elif isinstance(e, ast.Call) and call_name(e) == "index" and isinstance(e.func, ast.Attribute) and len(e.args) == 1 and not e.keywords \
                and is_key(e.args[0]):
            seq = _xexpand(e.func.value, fn)
            if norm(seq) in _FILE_NAMES:
                kind = "exact"
            elif mentions_names(seq) and folds(seq):
                kind = "folded:" + ",".join(sorted(set(folds(seq))))
        elif isinstance(e, ast.Subscript) and norm(e.slice) in ("0", "-1"):
            m = _mask_of_positions(fn, e.value)
            if m is None:
                ev = _xexpand(e.value, fn)
                m = _mask_of_positions(fn, ev)
            if m is not None:
                kind = classify_mask(m)
                if kind == "exact" and norm(e.slice) != "0":
                    kind = "unknown"
        out.append((kind, norm(r.value)))
    return out


def _is_name_lookup(repo, fi, e, elem, tables, depth=0):
    """expression e is the column number of the name `elem` (text): self.get_colnum(elem), <table>[elem], or a call of a helper of the
    class all of whose returns are such look-ups of its parameter"""
    if isinstance(e, ast.Call) and call_name(e) in ("int", "int64") and len(e.args) == 1 and not e.keywords:
        e = e.args[0]
    if isinstance(e, ast.Subscript):
        return rules.xnorm(e.value, fi.node) in tables and norm(e.slice) == elem
    if not isinstance(e, ast.Call) or len(e.args) != 1 or e.keywords or norm(e.args[0]) != elem:
        return False
    callee = _self_callee(repo, e, fi.cls or "Recfile")
    if callee is None or len(callee.params) != 2:
        return False
    if callee.name == "get_colnum":
        return True
    if depth > 2:
        return False
    rets = [x for x in walk_no_nested(callee.node) if isinstance(x, ast.Return)]
    return bool(rets) and all(r.value is not None and _is_name_lookup(repo, callee, rules.expand(r.value, callee.node), callee.params[1], tables, depth + 1)
                              for r in rets) and not rules.falls_off_end(cfg_of(callee))


def _every_name_looked_up(repo, gc, tables):
    """every element of the request is translated and its number kept: a loop over all elements without exit or filter that stores /
    appends / marks the number, or a comprehension / generator over all elements"""
    params = set(gc.params[1:])

    def request(e):
        e = rules.expand(e, gc.node)
        return any(isinstance(y, ast.Name) and y.id in params for y in ast.walk(e))

    def element(it, target):
        """(index text or None, element text) when `for target in it` visits every element of the request once, else (None, None)"""
        if isinstance(it, ast.Call) and norm(it.func) == "range" and len(it.args) == 1 and not it.keywords and isinstance(target, ast.Name):
            n = it.args[0]
            src = n.value if isinstance(n, ast.Attribute) and n.attr == "size" else \
                (n.args[0] if isinstance(n, ast.Call) and norm(n.func) == "len" and len(n.args) == 1 else None)
            if src is not None and isinstance(src, ast.Name) and request(src):
                return target.id, "%s[%s]" % (src.id, target.id)
        elif isinstance(it, ast.Call) and norm(it.func) == "enumerate" and len(it.args) == 1 and not it.keywords and isinstance(target, ast.Tuple) \
                and len(target.elts) == 2 and request(it.args[0]):
            return norm(target.elts[0]), norm(target.elts[1])
        elif isinstance(target, ast.Name) and _is_request(gc, it):
            return None, target.id              # the request itself, or an order- and element-keeping conversion of it (atleast_1d, list, ...)
        return None, None

    for x in walk_no_nested(gc.node):
        if isinstance(x, ast.For) and not x.orelse:
            if any(isinstance(y, (ast.Break, ast.Continue, ast.Return)) for y in ast.walk(x)):
                continue
            idx, elem = element(x.iter, x.target)
            if elem is None:
                continue
            for b in x.body:
                if isinstance(b, ast.Assign) and len(b.targets) == 1 and isinstance(b.targets[0], ast.Subscript):
                    t = b.targets[0]
                    if idx is not None and norm(t.slice) == idx and _is_name_lookup(repo, gc, b.value, elem, tables):
                        return True                 # out[i] = lookup(names[i])
                    if isinstance(b.value, ast.Constant) and b.value.value is True and _is_name_lookup(repo, gc, t.slice, elem, tables):
                        return True                 # mask[lookup(name)] = True
                if isinstance(b, ast.Expr) and isinstance(b.value, ast.Call) and call_name(b.value) in ("append", "add") and len(b.value.args) == 1 \
                        and _is_name_lookup(repo, gc, b.value.args[0], elem, tables):
                    return True                     # out.append(lookup(name))
        if isinstance(x, (ast.ListComp, ast.GeneratorExp, ast.SetComp)) and len(x.generators) == 1 and not x.generators[0].ifs:
            _, elem = element(x.generators[0].iter, x.generators[0].target)
            if elem is not None and _is_name_lookup(repo, gc, x.elt, elem, tables):
                return True
    return False


def _sorted_downstream(repo, gc):
    """name of a method of the class that puts the result of `gc` (directly or through one forwarding helper) into ascending order
    itself -- numpy.unique / sort / sorted applied to the variable that holds the result --, else None"""
    producers = {gc.name}
    for _ in range(2):
        for q, f in repo.funcs.items():
            if f.cls != gc.cls or f.name in producers or not q.startswith(U):
                continue
            for x in walk_no_nested(f.node):
                if isinstance(x, ast.Return) and x.value is not None:
                    e = rules.expand(x.value, f.node)
                    if any(isinstance(y, ast.Call) and (dotted_name(y.func) or "") in {"self." + p for p in producers} for y in ast.walk(e)):
                        producers.add(f.name)
    for q, f in repo.funcs.items():
        if f.cls != gc.cls or f.name == gc.name or not q.startswith(U):
            continue
        holders = set()
        for x in walk_no_nested(f.node):
            if isinstance(x, ast.Assign) and any(isinstance(y, ast.Call) and (dotted_name(y.func) or "") in {"self." + p for p in producers}
                                                 for y in ast.walk(x.value)):
                for t in x.targets:
                    holders |= {tt.id for tt in rules._flat_targets(t) if isinstance(tt, ast.Name)}
        if f.name == "_read_columns" and len(f.params) > 1:
            holders.add(f.params[1])
        for x in walk_no_nested(f.node):
            if isinstance(x, ast.Call) and call_name(x) in ("unique", "sort", "sorted"):
                args = list(x.args) + ([x.func.value] if isinstance(x.func, ast.Attribute) else [])
                if any((isinstance(y, ast.Name) and y.id in holders) or
                       (isinstance(y, ast.Call) and (dotted_name(y.func) or "") in {"self." + p for p in producers})
                       for a in args for y in ast.walk(a)):
                    return f.name
    return None


_DESCR = ("self.dtype.descr", "tuple(self.dtype.descr)", "list(self.dtype.descr)")


def _file_descr_sources(repo, cls="Recfile"):
    """texts of expressions that denote the descr list of the open file's dtype: self.dtype.descr (also as tuple / list), and calls
    `self.G()` of a getter of the class that returns it from a per-object cache.  A cache is an attribute self.X that the class only
    ever assigns None or a copy of self.dtype.descr, that the getter fills under `if self.X is None` immediately before returning it,
    and that cannot go stale: every method that sets self.dtype to a dtype either assigns self.X itself or first calls a method of
    the class that resets self.X to None, and does not otherwise touch the cache"""
    meths = {q: f for q, f in repo.funcs.items() if q.startswith(U + cls + ".") and f.cls == cls}
    fills, resets, other, sets_dtype = {}, {}, set(), {}
    for q, f in meths.items():
        for x in walk_no_nested(f.node):
            if not isinstance(x, (ast.Assign, ast.AugAssign, ast.AnnAssign, ast.Delete)):
                continue
            tgts = x.targets if isinstance(x, (ast.Assign, ast.Delete)) else [x.target]
            for t in tgts:
                for tt in rules._flat_targets(t):
                    base = tt
                    while isinstance(base, ast.Subscript):
                        base = base.value
                    d = dotted_name(base) or ""
                    if not d.startswith("self.") or d.count(".") != 1:
                        continue
                    val = x.value if isinstance(x, ast.Assign) and tt is t and len(tgts) == 1 else None
                    if d == "self.dtype":
                        if not (val is not None and isinstance(val, ast.Constant) and val.value is None):
                            sets_dtype.setdefault(q, []).append(x)
                    elif val is not None and rules.xnorm(val, f.node) in _DESCR:
                        fills.setdefault(d, set()).add(q)
                    elif val is not None and isinstance(val, ast.Constant) and val.value is None:
                        resets.setdefault(d, set()).add(q)
                    else:
                        other.add(d)
    out = set(_DESCR)
    for d in fills:
        if d in other:
            continue
        getters = set()
        for q in fills[d]:
            f = meths[q]
            body = [b for b in f.node.body if not (isinstance(b, ast.Expr) and isinstance(b.value, ast.Constant))]
            if len(f.params) == 1 and len(body) == 2 and isinstance(body[0], ast.If) and not body[0].orelse and len(body[0].body) == 1 \
                    and _canon(body[0].test, True) == ("is", d, "None") and isinstance(body[0].body[0], ast.Assign) \
                    and norm(body[0].body[0].targets[0]) == d and isinstance(body[1], ast.Return) and body[1].value is not None \
                    and norm(body[1].value) == d:
                getters.add(f.name)
        if len(getters) != len(fills[d]):
            continue            # the cache is filled somewhere else than in its getter
        fresh = True
        for q, assigns in sets_dtype.items():
            f = meths[q]
            if q in fills[d] or q in resets.get(d, ()):
                continue
            cfg = cfg_of(f)
            view = cfg.view()
            resetters = [n for n in cfg.nodes for c in rules.stmts_calls(n)
                         if (dotted_name(c.func) or "").startswith("self.") and (U + cls + "." + call_name(c)) in resets.get(d, ())]
            touches = any((isinstance(y, ast.Attribute) and norm(y) == d) or
                          (isinstance(y, ast.Call) and (dotted_name(y.func) or "") in {"self." + g for g in getters}) for y in ast.walk(f.node))
            nodes = [rules.node_of_stmt(cfg, a) for a in assigns]
            if touches or not resetters or any(n is None or not any(view.dominates(r, n) for r in resetters) for n in nodes):
                fresh = False
        if fresh:
            out |= {"self.%s()" % g for g in getters}
    return out


def _r02_3_structural(chk, repo, F):
    missing = [k for k in ("get_colnums", "get_colnum", "_read_columns", "_get_colnums_to_read") if F[k] is None]
    if missing:
        chk.ob("R02.3a", "column-normalisers-found", None, F["read"].where(), "column helpers not found: %s" % missing)
        return
    gc = F["get_colnums"]
    tables = _name_tables(repo)
    cfg = cfg_of(gc)
    view = cfg.view()
    ctx = _SortedCtx(repo, gc, cfg, view, view.reaching_defs()[0])
    rets = [n for n in rules.return_nodes(cfg) if n.ast.value is not None]
    sts = [_unique_status(ctx, r, r.ast.value) for r in rets]
    chk.ob("R02.3a", gc.qualname + "::returns-unique-sorted", bool(rets) and all(x == "yes" for x in sts), gc.where(),
           "column numbers are returned distinct and ascending -- through numpy.unique, or as the positions of the marked entries of a "
           "mask (file order, no repeats): %s" % sts)
    # the same condition as a semantic instance: a verdict only when the order of the returned numbers is positively known (reaching
    # definitions and the data flow from the request), however the function is laid out
    if rets and all(x == "yes" for x in sts):
        chk.ob("R02.3a", "sem::" + gc.qualname + "::result-in-file-order", True, gc.where(),
               "the column numbers returned are distinct and ascending (file order) on every path")
    elif "no" in sts:
        bad = rets[sts.index("no")]
        later = _sorted_downstream(repo, gc)
        chk.ob("R02.3a", "sem::" + gc.qualname + "::result-in-file-order", None if later else False, gc.where(bad.ast),
               "the column numbers returned (`%s`) keep the order in which the names were requested (each number is computed from the "
               "name at the same position of the request, and repeats are at most removed in place, not by sorting): a column list that "
               "is not in file order reaches the reader -- which only moves forward through a row -- out of file order%s"
               % (norm(bad.ast.value), " [but %s orders the numbers afterwards]" % later if later else ""))
    chk.ob("R02.3a", gc.qualname + "::every-name-looked-up", _every_name_looked_up(repo, gc, tables), gc.where(),
           "every requested column name is translated (each element of the request goes through the name lookup and its number is kept)")
    g1 = F["get_colnum"]
    cfg = cfg_of(g1)
    view = cfg.view()
    ok = False
    for n in rules.raise_nodes(cfg):
        for t, lab in rules.controlling_tests(view, n):
            if ("size == 0" in t or "not in" in t or "size < 1" in t) and lab == "T":
                ok = True
    key = g1.params[1] if len(g1.params) > 1 else None
    # the same test in any spelling: a raise under a branch that found the positions that the result is taken from empty
    # (X.size == 0, not X.size, len(X) < 1, ...), or the mask without a set element (not M.any())
    rtexts = [rules.xnorm(x.value, g1.node) for x in walk_no_nested(g1.node) if isinstance(x, ast.Return) and x.value is not None]
    rtexts += [norm(x.value) for x in walk_no_nested(g1.node) if isinstance(x, ast.Return) and x.value is not None]
    for n in rules.raise_nodes(cfg):
        for f in _node_facts(view, n, g1.node) + _node_facts(view, n):
            for suffix, prefix in ((".size", ""), (")", "len("), (".shape[0]", "")):
                if f[1].endswith(suffix) and f[1].startswith(prefix):
                    v = f[1][len(prefix):len(f[1]) - len(suffix)]
                    if v and _empty_fact(f, v) and any(v in t for t in rtexts):
                        ok = True
            if f[0] == "falsy" and f[1].endswith(".any()") and key and key in f[1] and any(nm in f[1] for nm in _FILE_NAMES):
                ok = True
    for x in walk_no_nested(g1.node):
        # try: ... <table>[name] ... except KeyError: raise ...   (the look-up itself raises for a name that is not a column)
        if isinstance(x, ast.Try) and key and any(_table_lookup(y, key, tables, g1.node) for st in x.body for y in ast.walk(st)):
            hs = [h for h in x.handlers if h.type is None or any(norm(t) in ("KeyError", "LookupError", "Exception")
                                                                 for t in (h.type.elts if isinstance(h.type, ast.Tuple) else [h.type]))]
            if hs and all(isinstance(h.body[-1], ast.Raise) for h in x.handlers):
                ok = True
    if not ok and key:
        # a bare <table>[name] outside any try statement raises KeyError by itself
        in_try = {id(y) for x in walk_no_nested(g1.node) if isinstance(x, ast.Try) for st in x.body for y in ast.walk(st)}
        ok = any(_table_lookup(y, key, tables, g1.node) and id(y) not in in_try for y in walk_no_nested(g1.node))
    chk.ob("R02.3b", g1.qualname + "::unknown-name-raises", ok, g1.where(), "an unknown column name raises")
    rets = [x for x in walk_no_nested(g1.node) if isinstance(x, ast.Return) and x.value is not None]
    ok = bool(rets) and all(norm(r.value) in ("w[0]", "int(w[0])") for r in rets)
    cmp_ok = any(isinstance(x, ast.Compare) and norm(x) in ("self.colnames == colname", "colname == self.colnames") for x in ast.walk(g1.node))
    ok = ok and cmp_ok
    if not ok and key and rets:
        ok = all(_position_of_name(r.value, key, tables, g1.node) for r in rets)
    # semantic instance: the match between the stored names and the requested name is equality of the strings as they are.  Decided on
    # the terms the returns hand out (the mask whose positions are returned, followed through locals), however the function is laid
    # out; a verdict only when the comparison is positively identified
    kinds = _colnum_match(g1.node, key, tables) if key else []
    if kinds and all(k == "exact" for k, _ in kinds):
        chk.ob("R02.3b", "sem::" + g1.qualname + "::exact-name-match", True, g1.where(),
               "every return hands out the position where the file's field names equal the requested name")
        ok = True
    else:
        bad = [(k, t) for k, t in kinds if k.startswith(("folded", "partial"))]
        if bad:
            k, t = bad[0]
            what = ("both sides of the name comparison go through %s(), which maps distinct names onto one" % k.split(":")[1].split(",")[0]) \
                if k.startswith("folded") else ("the names are matched by %s(), not by equality" % k.split(":")[1])
            chk.ob("R02.3b", "sem::" + g1.qualname + "::exact-name-match", False, g1.where(),
                   "the column number returned (`%s`) is not the position of the name that EQUALS the request: %s; in a table with two "
                   "column names that this match identifies (e.g. 'x' and 'X') a request for the later one reads the earlier column"
                   % (t, what))
    chk.ob("R02.3b", g1.qualname + "::position-of-equal-name", ok, g1.where(),
           "the column number is the position where the stored names equal the requested name (search of the name array, or a look-up "
           "in a table that maps each name of the file's dtype to its position)")
    # _read_columns: output dtype is built from the file descr at the (sorted) column numbers, in that order
    rcols = F["_read_columns"]
    ok = False
    descr = _file_descr_sources(repo, rcols.cls or "Recfile")

    def entry_of(e, idx):
        """e is <the descr of the file's dtype>[idx]"""
        e = rules.expand(e, rcols.node)
        return isinstance(e, ast.Subscript) and norm(e.slice) == idx and norm(e.value) in descr

    for x in walk_no_nested(rcols.node):
        if isinstance(x, ast.For) and norm(x.iter) == "colnums":
            for b in x.body:
                if isinstance(b, ast.Expr) and isinstance(b.value, ast.Call) and call_name(b.value) == "append" and b.value.args \
                        and entry_of(b.value.args[0], norm(x.target)):
                    ok = True
        if isinstance(x, ast.ListComp) and len(x.generators) == 1 and not x.generators[0].ifs and norm(x.generators[0].iter) == "colnums" \
                and entry_of(x.elt, norm(x.generators[0].target)):
            ok = True
    chk.ob("R02.3c", rcols.qualname + "::subset-dtype-from-file-descr", ok, rcols.where(),
           "the dtype of a column subset is the file descr entries at the sorted column numbers, appended in that order")
    cs = F["_get_colnums_to_read"]
    # scalar column name => plain array of that column: flag derived from numpy.isscalar(fields)
    ok = any(isinstance(x, ast.Assign) and isinstance(x.value, ast.Call) and call_name(x.value) == "isscalar" for x in ast.walk(cs.node))
    chk.ob("R02.3d", cs.qualname + "::scalar-flag", ok, cs.where(), "scalar-ness of the column request is derived by numpy.isscalar")


# ---------------------------------------------------------------------------
SYN = ("fields", "columns")


def r02_4(chk, repo, S):
    """fields/columns synonyms"""
    scope = [fi for q, fi in repo.funcs.items()
             if (q.startswith("esutil.recfile.Util.") or q.startswith("esutil.sfile.")) and set(SYN) <= set(fi.params)]
    chk.ob("R02.4", "synonym-functions-found", len(scope) >= 5, "esutil/recfile/Util.py",
           "functions taking both fields= and columns=: %s" % [f.qualname.split("esutil.")[1] for f in scope])
    rd = repo.func(U + "Recfile.read")
    _ev(chk, S, "read/cols", ["synonym"], "R02.4", "eval::Recfile.read::either-synonym-reaches-the-reader", rd.where(),
        "a column request made through fields= or through columns= selects the same columns and the same scalar reduction")
    _ev(chk, S, "sfile", ["synonym"], "R02.4", "eval::SFile.read::either-synonym-reaches-the-recfile", repo.func("esutil.sfile.SFile.read").where(),
        "SFile.read / sfile.read forward a request made through either synonym")
    covered = {}
    for names, sim, facets in (((U + "Recfile.read",), "read/cols", ["synonym"]),
                               (("esutil.sfile.SFile.read", "esutil.sfile.SFile._do_read"), "sfile", ["synonym", "forward"]),
                               ((U + "RecfileColumnSubset.__init__", U + "RecfileSubset.__init__"), "subsets", ["RecfileColumnSubset.read", "RecfileSubset.read"])):
        st, res = S.get(sim)
        for q in names:
            covered[q] = st == "ok" and not any(res.get(f) for f in facets)
    for fi in scope:
        chk.analysed_unit(fi.qualname)
        cfg = cfg_of(fi)
        view = cfg.view()
        merges = _synonym_merges(cfg, view)   # (node, merged var, other var, unconditional)
        for n in cfg.nodes:
            if n.ast is None or any(n is m[0] for m in merges):
                continue
            roots = [n.ast.test] if n.kind == "branch" else ([n.ast] if n.kind in ("stmt", "return") else [])
            for r in roots:
                for x in walk_no_nested(r):
                    if isinstance(x, ast.Name) and isinstance(x.ctx, ast.Load) and x.id in SYN:
                        ok, why = _synonym_use_ok(cfg, view, n, x, r, merges)
                        if not ok and covered.get(fi.qualname):
                            # evaluated end to end with a request through either synonym: this spelling of the merge is not recognised
                            ok, why = None, why + " [but %s honours both synonyms when evaluated: the way they are merged here is not recognised]" % fi.name
                        chk.ob("R02.4", "%s::use-of-%s::%s" % (fi.qualname, x.id, norm(n.ast.test if n.kind == "branch" else n.ast)[:60]),
                               ok, fi.where(n.ast), why)


def _is_merge_expr(e, t, o):
    """`o if t is None else t` / `t if t is not None else o` (the merged request, whichever synonym carried it)"""
    if isinstance(e, ast.BoolOp) and isinstance(e.op, ast.Or) and [norm(v) for v in e.values] == [t, o]:
        return True
    if not isinstance(e, ast.IfExp):
        return False
    raw = []
    _decompose(e.test, True, raw)
    facts = [_canon(x, tr) for x, tr, _ in raw]
    b, r = norm(e.body), norm(e.orelse)
    return (("is", t, "None") in facts and b == o and r == t) or (("isnot", t, "None") in facts and b == t and r == o)


def _synonym_use_ok(cfg, view, n, name, root, merges):
    me = name.id
    other = SYN[1 - SYN.index(me)]
    # (i) forwarded together with the other synonym in one call
    for c in ast.walk(root):
        if isinstance(c, ast.Call):
            passed = {norm(a) for a in c.args} | {norm(k.value) for k in c.keywords}
            if set(SYN) <= passed:
                return True, "both synonyms are forwarded together to %s" % (call_name(c))
    # (ii) a None-test of a synonym (`if columns is None`, `x if columns is None else y`)
    for c in ast.walk(root):
        if isinstance(c, ast.Compare) and len(c.ops) == 1 and isinstance(c.ops[0], (ast.Is, ast.IsNot)) and c.left is name \
                and isinstance(c.comparators[0], ast.Constant) and c.comparators[0].value is None:
            return True, "None-test of a synonym"
    # (ii-) the use is part of an expression that merges the two synonyms (`fields if columns is None else columns`, `columns or fields`)
    for e in ast.walk(root):
        if isinstance(e, (ast.IfExp, ast.BoolOp)) and (_is_merge_expr(e, me, other) or _is_merge_expr(e, other, me)) \
                and any(x is name for x in ast.walk(e)):
            return True, "part of the expression that merges the synonyms"
    facts = _node_facts(view, n) + _expr_facts(root, name)
    # (ii') priority selection: the use is guarded by `<name> is not None`
    if ("isnot", me, "None") in facts or ("truthy", me, "") in facts:
        return True, "use guarded by `%s is not None` (priority selection between the synonyms)" % me
    # (ii'') the fall-back arm of a merge: the other synonym is known to be None here
    if ("is", other, "None") in facts:
        return True, "use of `%s` where `%s` is None (fall-back arm of the merge of the synonyms)" % (me, other)
    # (iii) it is the merged variable and a merge dominates this use
    for m, t, v, uncond in merges:
        if me == t and (view.dominates(m, n) or _merge_guard_dominates(view, m, n)):
            return True, "use of the merged variable `%s` after the merge" % t
    if merges:
        t = merges[0][1]
        return False, "`%s` is read although the request was merged into `%s`: a caller using the other synonym is ignored here" % (me, t)
    return False, ("`%s` is used on its own and `%s` is never merged into it in this function: "
                   "a request made through the synonym `%s=` is ignored at this use" % (me, other, other))


def _merge_guard_dominates(view, m, n):
    b = view.controlling_branches(m)
    return bool(b) and view.dominates(b[0][0], n)


# ---------------------------------------------------------------------------
def r02_5(chk, repo, F, cfun, S):
    prims = ("read_columns", "read_binary_slice")
    callers = {}
    for q, fi in repo.funcs.items():
        if q.startswith("esutil.") and "tests" not in q:
            for x in walk_no_nested(fi.node):
                if isinstance(x, ast.Call) and call_name(x) in prims and isinstance(x.func, ast.Attribute) \
                        and norm(x.func.value).endswith("robj"):
                    callers.setdefault(call_name(x), set()).add(q)
    # the C++ primitives are reached only through Recfile's two private readers (or private helpers that only those readers call)
    allowed = {"read_columns": U + "Recfile._read_columns", "read_binary_slice": U + "Recfile._read_binary_slice"}
    for p in prims:
        cs = callers.get(p, set())
        funnel = _funnel(repo, allowed[p])
        chk.ob("R02.5a", "who-may-call::" + p, bool(cs) and cs <= funnel, repo.func(sorted(cs)[0]).where() if cs else "esutil/recfile/Util.py",
               "callers of the C++ primitive %s: %s (allowed: %s and private helpers called only from it)" % (p, sorted(cs), allowed[p]))
    gi = F["__getitem__"]
    rd = F["read"]
    # role-preserving forwarding along every access style, bracket dispatch, slice expansion for text
    a = _ev(chk, S, "brackets", ["roles"], "R02.5b", "eval::" + gi.qualname + "::roles", gi.where(),
            "bracket access hands the row request to read(rows=...), a normalised slice to the slice reader, a column request to "
            "RecfileColumnSubset(self, columns=...), unchanged, and returns what they return")
    b = _ev(chk, S, "brackets", ["dispatch"], "R02.5c", "eval::" + gi.qualname + "::dispatch", gi.where(),
            "row lists, numbers and slices are read, column names and lists give a column-subset object")
    c = _ev(chk, S, "brackets", ["unpack"], "R02.5d", "eval::" + gi.qualname + "::unpack-iff-text", gi.where(),
            "text files and column subsets expand slices to row numbers (their reader takes row lists only)")
    d = _ev(chk, S, "brackets", ["subset"], "R02.5b", "eval::" + U + "RecfileColumnSubset.__getitem__::roles", gi.where(),
            "column-subset bracket access reads its own columns")
    if not (a and b and c and d):
        _r02_5_brackets_structural(chk, repo, F)
    e = True
    for cls in ("RecfileColumnSubset", "RecfileSubset"):
        fi = repo.func(U + cls + ".read")
        chk.analysed_unit(fi.qualname)
        e &= _ev(chk, S, "subsets", [cls + ".read"], "R02.5b", "eval::" + fi.qualname + "::roles", fi.where(),
                 "%s.read forwards its rows, its columns (from either synonym) and split to Recfile.read and returns the result" % cls)
    if not e:
        _r02_5_forward_structural(chk, repo, [
            (U + "RecfileColumnSubset.read", "read", {"rows": "rows", "columns": "self.columns", "split": "split"}),
            (U + "RecfileSubset.read", "read", {"rows": "self.rows", "columns": "self.columns", "split": "split"})])
    sr = repo.func("esutil.sfile.SFile.read")
    f1 = _ev(chk, S, "sfile", ["forward", "module-read"], "R02.5b", "eval::" + sr.qualname + "::roles", sr.where(),
             "SFile.read and sfile.read hand rows and the column request to Recfile.read(rows=, columns=)")
    f2 = _ev(chk, S, "sfile", ["getitem"], "R02.5b", "eval::esutil.sfile.SFile.__getitem__::delegates", repo.func("esutil.sfile.SFile.__getitem__").where(),
             "SFile[...] is Recfile[...]")
    if not (f1 and f2):
        handles = _recfile_handles(repo, "esutil.sfile", "SFile")
        _r02_5_sfile_forward(chk, repo, sr, handles)
        g = repo.func("esutil.sfile.SFile.__getitem__")
        p = g.params[1] if len(g.params) > 1 else "arg"
        ok = any(isinstance(x, ast.Return) and isinstance(x.value, ast.Subscript) and rules.xnorm(x.value.value, g.node) in (handles or ("self._robj",))
                 and rules.xnorm(x.value.slice, g.node) == p for x in walk_no_nested(g.node))
        chk.ob("R02.5b", g.qualname + "::delegates", ok, g.where(), "SFile[...] is Recfile[...]")
    # Recfile.read: which reader, with which arguments, and what is handed back
    g1 = _ev(chk, S, "read/dispatch", ["roles", "unique", "colnums", "count", "dtype"], "R02.5b", "eval::" + rd.qualname + "->reader::roles", rd.where(),
             "Recfile.read hands (buffer, column numbers, rows) for exactly the requested selection to the C++ reader")
    g2 = _ev(chk, S, "read/dispatch", ["fastpath"], "R02.5e", "eval::" + rd.qualname + "::fast-path-guard", rd.where(),
             "the whole-row slice reader is used only for binary files when all columns are requested")
    g3 = _ev(chk, S, "read/dispatch", ["fastslice"], "R02.5e", "eval::" + rd.qualname + "::fast-path-slice", rd.where(),
             "the slice given to the whole-row slice reader selects exactly the requested rows")
    g4 = _ev(chk, S, "read/dispatch", ["scalar", "split", "synonym"], "R02.5f", "eval::" + rd.qualname + "::scalar-column-reduction", rd.where(),
             "the result is reduced to a plain column exactly for a scalar column request, split exactly under split=True")
    if not (g1 and g2 and g3 and g4):
        _r02_5_read_structural(chk, repo, F)


def _funnel(repo, root):
    """the reader `root` plus the private methods of Recfile that are called from nowhere but the funnel itself"""
    who = {}
    for q, fi in repo.funcs.items():
        if not q.startswith("esutil.") or "tests" in q:
            continue
        for x in walk_no_nested(fi.node):
            if isinstance(x, ast.Call) and isinstance(x.func, ast.Attribute):
                who.setdefault(x.func.attr, set()).add(q)
    out = {root}
    changed = True
    while changed:
        changed = False
        for q, fi in repo.funcs.items():
            if q in out or not q.startswith(U + "Recfile._") or q.startswith(U + "Recfile.__"):
                continue
            cs = who.get(fi.name, set())
            if cs and cs <= out:
                out.add(q)
                changed = True
    return out


def _r02_5_forward_structural(chk, repo, fw):
    for q, callee, roles in fw:
        if not repo.has(q):
            chk.ob("R02.5b", "%s->%s::present" % (q, callee), None, "esutil/recfile/Util.py", "%s not found" % q)
            continue
        fi = repo.func(q)
        chk.analysed_unit(q)
        calls = [x for x in walk_no_nested(fi.node) if isinstance(x, ast.Call) and call_name(x) == callee]
        if not calls:
            chk.ob("R02.5b", "%s->%s::present" % (q, callee), False, fi.where(), "expected delegation to %s not found" % callee)
            continue
        for c in calls:
            bad = []
            for role, want in roles.items():
                a = c.args[role] if isinstance(role, int) and role < len(c.args) else (kwarg(c, role) if not isinstance(role, int) else None)
                got = rules.xnorm(a, fi.node) if a is not None else None
                wants = want if isinstance(want, tuple) else (want,)
                if got not in wants and not (a is not None and norm(a) in wants) and not (a is not None and want == "columns" and _is_merge_expr(rules.expand(a, fi.node), "columns", "fields")):
                    bad.append("%s=%s (want %s)" % (role, got, want))
            chk.ob("R02.5b", "%s->%s::roles" % (q, callee), not bad, fi.where(c),
                   "delegation %s -> %s keeps argument roles%s" % (fi.name, callee, "" if not bad else ": " + "; ".join(bad)))


# ---------------------------------------------------------------------------
# SFile.read -> Recfile.read: which request reaches the recfile object, followed by reaching definitions from the parameters of the
# public method, through private helpers of the class however many there are (none: the delegation is written in read itself).
# ---------------------------------------------------------------------------
def _recfile_handles(repo, modname, cls):
    """texts `self.<attr>` of the attributes of the class that are bound to a Recfile object somewhere in the class"""
    out = set()
    m = repo.modules.get(modname)
    if m is None:
        return ()
    for q, fi in repo.funcs.items():
        if not q.startswith("%s.%s." % (modname, cls)):
            continue
        for x in walk_no_nested(fi.node):
            if isinstance(x, ast.Assign) and isinstance(x.value, ast.Call):
                d = dotted_name(x.value.func)
                full = repo.resolve_name(m, d) if d else ""
                if full and full.startswith("esutil.recfile") and full.rsplit(".", 1)[-1] in ("Recfile", "Open"):
                    for t in x.targets:
                        if isinstance(t, ast.Attribute) and isinstance(t.value, ast.Name) and t.value.id == "self":
                            out.add(norm(t))
    return tuple(sorted(out))


class _Roles(object):
    """what an expression of one function stands for, in terms of the request the public entry point received: 'rows', 'fields',
    'columns' (one synonym on its own), 'request' (the merged column request: whichever synonym carried it), 'none' (the constant
    None), ('const', v), or None (not known)"""

    def __init__(self, fi, roles):
        self.fi = fi
        self.roles = roles
        self.cfg = cfg_of(fi)
        self.view = self.cfg.view()
        self.IN = self.view.reaching_defs()[0]
        self.merges = {m.id: (t, o, unc) for m, t, o, unc in _synonym_merges(self.cfg, self.view)}

    def of(self, n, e, depth=0):
        if depth > 8 or e is None:
            return None
        if isinstance(e, ast.Constant):
            return "none" if e.value is None else ("const", e.value)
        if isinstance(e, (ast.IfExp, ast.BoolOp)):
            names = sorted({x.id for x in ast.walk(e) if isinstance(x, ast.Name)})
            if len(names) == 2 and (_is_merge_expr(e, names[0], names[1]) or _is_merge_expr(e, names[1], names[0])):
                rs = {self.of(n, ast.Name(id=v, ctx=ast.Load()), depth + 1) for v in names}
                if rs == {"fields", "columns"}:
                    return "request"
            return None
        if not isinstance(e, ast.Name):
            return None
        v = e.id
        entry = self.cfg.entry.id
        defs = set(self.IN.get(n.id, {}).get(v) or ())
        if not defs:
            return None
        if defs == {entry}:
            return self.roles.get(v)
        rest = defs - {entry}
        if all(d in self.merges for d in rest):
            # `if v is None: v = other` (the parameter's own value survives exactly when it carries the request) / `v = <merge expression>`
            for d in rest:
                t, o, unc = self.merges[d]
                dn = self.cfg.node(d)
                if t != v:
                    return None
                rs = {self.of(dn, ast.Name(id=t, ctx=ast.Load()), depth + 1), self.of(dn, ast.Name(id=o, ctx=ast.Load()), depth + 1)}
                if rs != {"fields", "columns"}:
                    return None
                if not unc and len(self.view.controlling_branches(dn)) != 1:
                    return None
                if unc and entry in defs:
                    return None
            if entry in defs and self.roles.get(v) not in ("fields", "columns"):
                return None
            return "request"
        if len(defs) == 1:
            dn = self.cfg.node(next(iter(defs)))
            a = dn.ast
            if dn.kind == "stmt" and isinstance(a, ast.Assign) and len(a.targets) == 1 and isinstance(a.targets[0], ast.Name) and a.targets[0].id == v:
                return self.of(dn, a.value, depth + 1)
        return None


def _value_is_returned(fi, n, call):
    """the value of `call` (in CFG node n of fi) goes into what the function hands back: it is (part of) a returned expression, or of the
    value bound to a name that a return statement mentions (possibly after being post-processed: that is R02.6d's subject)"""
    a = n.ast
    if isinstance(a, ast.Return):
        return a.value is not None and any(x is call for x in ast.walk(a.value))
    if isinstance(a, ast.Assign) and any(x is call for x in ast.walk(a.value)) and len(a.targets) == 1 and isinstance(a.targets[0], ast.Name):
        v = a.targets[0].id
        return any(isinstance(r, ast.Return) and r.value is not None and any(isinstance(x, ast.Name) and x.id == v for x in ast.walk(r.value))
                   for r in walk_no_nested(fi.node))
    return False


def _bind_params(callee, call, skip_self=True):
    """{parameter of callee: argument expression} for a call, or None when the call uses * / ** arguments"""
    if any(isinstance(a, ast.Starred) for a in call.args) or any(k.arg is None for k in call.keywords):
        return None
    ps = [p for p in callee.params if not p.startswith("*")]
    if skip_self and ps and ps[0] in ("self", "cls"):
        ps = ps[1:]
    out = {}
    for p, a in zip(ps, call.args):
        out[p] = a
    if len(call.args) > len(ps):
        return None
    for k in call.keywords:
        if k.arg in out:
            return None
        out[k.arg] = k.value
    return out


def _robj_read_sites(repo, fi, roles, handles, depth=0, seen=()):
    """[(FuncInfo, _Roles, node, call, returned?)] for the calls <recfile handle>.read(...) reached from fi, also through methods of
    the same class called on self (their parameters take the roles of the arguments)"""
    R = _Roles(fi, roles)
    out = []
    prefix = fi.qualname.rsplit(".", 1)[0] + "."
    for n in R.view.nodes():
        for c in rules.stmts_calls(n):
            if not isinstance(c.func, ast.Attribute):
                continue
            recv = rules.xnorm(c.func.value, fi.node)
            if c.func.attr == "read" and recv in handles:
                out.append((fi, R, n, c, _value_is_returned(fi, n, c)))
            elif recv == "self" and repo.has(prefix + c.func.attr) and depth < 3 and prefix + c.func.attr not in seen:
                callee = repo.func(prefix + c.func.attr)
                b = _bind_params(callee, c)
                if b is None:
                    continue
                sub = {}
                for p in callee.params:
                    if p in b:
                        sub[p] = R.of(n, b[p])
                    elif p in callee.defaults:
                        sub[p] = R.of(n, callee.defaults[p]) if isinstance(callee.defaults[p], ast.Constant) else None
                ret = _value_is_returned(fi, n, c)
                for s in _robj_read_sites(repo, callee, sub, handles, depth + 1, seen + (fi.qualname,)):
                    out.append(s[:4] + (s[4] and ret,))
    return out


def _r02_5_sfile_forward(chk, repo, sr, handles):
    key = "sem::" + sr.qualname + "->Recfile.read::roles"
    msg = "SFile.read hands its rows and its column request (from either synonym) to Recfile.read and returns (the post-processed) result"
    if not handles:
        chk.ob("R02.5b", key, None, sr.where(), msg + ": the attribute holding the Recfile object was not found")
        return
    roles = {p: p for p in ("rows", "fields", "columns") if p in sr.params}
    sites = _robj_read_sites(repo, sr, roles, handles)
    if not sites:
        chk.ob("R02.5b", key, None, sr.where(), msg + ": no call of %s.read is reached from %s" % ("/".join(handles), sr.name))
        return
    target = repo.funcs.get(U + "Recfile.read")
    for fi, R, n, c, returned in sites:
        chk.analysed_unit(fi.qualname)
        b = _bind_params(target, c) if target is not None else None
        if b is None:
            chk.ob("R02.5b", key, None, fi.where(c), msg + ": the arguments of `%s` are not explicit" % norm(c)[:80])
            continue
        r_rows = R.of(n, b["rows"]) if "rows" in b else "none"
        r_f = R.of(n, b["fields"]) if "fields" in b else "none"
        r_c = R.of(n, b["columns"]) if "columns" in b else "none"
        r_split = R.of(n, b["split"]) if "split" in b else ("const", False)
        found = "rows=%s, fields=%s, columns=%s" % (r_rows, r_f, r_c)
        cols = (r_f, r_c)
        if r_rows == "rows" and (cols in (("none", "request"), ("request", "none")) or set(cols) == {"fields", "columns"}):
            ok = True if (returned and r_split == ("const", False)) else None
            why = "" if ok else " (what happens to the value read, or split=, is not recognised)"
        elif r_rows in ("none", "fields", "columns", "request") or (r_rows == "rows" and None not in cols and "rows" not in cols) \
                or "rows" in cols:
            # recognised, and not the request the caller made: the rows are dropped / replaced, or one synonym is ignored
            ok, why = False, ""
        else:
            ok, why = None, " (an argument is not recognised as a parameter of %s)" % sr.name
        chk.ob("R02.5b", key, ok, fi.where(c), "%s: `%s` in %s receives %s%s" % (msg, norm(c)[:80], fi.name, found, why))


def _r02_5_brackets_structural(chk, repo, F):
    gi = F["__getitem__"]
    # names of the (result, isrows, isslice) triple of the bracket classifier in __getitem__
    trip = None
    for x in walk_no_nested(gi.node):
        if isinstance(x, ast.Assign) and isinstance(x.targets[0], ast.Tuple) and len(x.targets[0].elts) == 3 and isinstance(x.value, ast.Call) \
                and call_name(x.value) == "_process_args_as_rows_or_columns":
            trip = [norm(e) for e in x.targets[0].elts]
    if trip is None:
        chk.ob("R02.5c", gi.qualname + "::dispatch", None, gi.where(), "the (result, isrows, isslice) classification of the bracket argument was not found")
        return
    res, isrows, isslice = trip
    _r02_5_forward_structural(chk, repo, [
        (gi.qualname, "read", {"rows": res}),
        (gi.qualname, "_read_binary_slice", {0: res}),
        (gi.qualname, "RecfileColumnSubset", {"columns": res, 0: "self"}),
        (U + "RecfileColumnSubset.__getitem__", "read", {"rows": "res"})])
    cfg = cfg_of(gi)
    view = cfg.view()
    for n in cfg.nodes:
        for c in rules.stmts_calls(n):
            nm = call_name(c)
            if nm in ("_read_binary_slice", "read", "RecfileColumnSubset"):
                facts = _node_facts(view, n)
                want = {"_read_binary_slice": [("truthy", isrows, ""), ("truthy", isslice, "")],
                        "read": [("truthy", isrows, ""), ("falsy", isslice, "")],
                        "RecfileColumnSubset": [("falsy", isrows, "")]}[nm]
                chk.ob("R02.5c", gi.qualname + "::dispatch::" + nm, all(w in facts for w in want), gi.where(n.ast),
                       "%s is selected under %s (found %s)" % (nm, want, facts))
    # text files and column subsets expand slices to rows (their reader takes row lists only)
    for q, want in ((gi.qualname, None), (U + "RecfileColumnSubset.__getitem__", "True")):
        fi = repo.func(q)
        for x in walk_no_nested(fi.node):
            if isinstance(x, ast.Call) and call_name(x) == "_process_args_as_rows_or_columns":
                u = kwarg(x, "unpack")
                if want is not None:
                    chk.ob("R02.5d", q + "::unpack", u is not None and norm(u) == want, fi.where(x),
                           "column-subset bracket access expands slices to row lists (unpack=%s)" % (norm(u) if u is not None else None))
                else:
                    # unpack must be True exactly for text files
                    srcs = [a for a in walk_no_nested(fi.node) if isinstance(a, ast.Assign) and u is not None and norm(a.targets[0]) == norm(u)]
                    cfg2 = cfg_of(fi)
                    v2 = cfg2.view()
                    vals = {}
                    for a in srcs:
                        n = rules.node_of_stmt(cfg2, a)
                        ts = dict(rules.controlling_tests(v2, n))
                        if "self.is_ascii" in ts:
                            vals[ts["self.is_ascii"]] = norm(a.value)
                    okk = vals == {"T": "True", "F": "False"} or (u is not None and rules.xnorm(u, fi.node) in ("self.is_ascii", "bool(self.is_ascii)"))
                    chk.ob("R02.5d", q + "::unpack-iff-text", okk, fi.where(x),
                           "bracket access expands slices to row lists exactly for text files (%s)" % vals)


def _synonym_merges(cfg, view):
    """[(node, merged synonym, other synonym, unconditional?)]: assignments that merge the fields= / columns= synonyms into one of them"""
    merges = []
    for n in cfg.nodes:
        a = n.ast
        if n.kind == "stmt" and isinstance(a, ast.Assign) and len(a.targets) == 1 and isinstance(a.targets[0], ast.Name) and a.targets[0].id in SYN:
            t = a.targets[0].id
            o = SYN[1 - SYN.index(t)]
            facts = _node_facts(view, n)
            if isinstance(a.value, ast.Name) and a.value.id == o and \
                    (("is", t, "None") in facts or ("falsy", t, "") in facts or ("isnot", o, "None") in facts or ("truthy", o, "") in facts):
                merges.append((n, t, o, False))
            elif _is_merge_expr(a.value, t, o):
                merges.append((n, t, o, True))
    return merges


def _fast_path_guarded(repo, rd, cfg, view, n, kinds=None):
    """(ok, text): do the branch outcomes that control CFG node n of Recfile.read establish that the file is binary, that all rows and
    that all columns are requested?  The tests are taken apart after forward substitution of the temporaries they mention, so it does
    not matter whether the three conditions sit in one test, in nested tests or in named flags.
      binary:    not self.is_ascii
      all rows:  R is None / R.size == self.nrows (R normalised by _get_rows2read: distinct rows in range), or a disjunction of these;
                 `rows is None` also before normalisation (the normaliser maps None, and only None, to None)
      all cols:  C is None / C.size == self.ncols for the column numbers C got from _get_colnums_to_read, a disjunction of these, or
                 `<merged column request> is None` after the fields= / columns= synonyms were merged (or both of them None)"""
    IN, _ = view.reaching_defs()
    merges = _synonym_merges(cfg, view)

    def from_call(b, name, callee, pos):
        """every definition of `name` reaching branch b is the (pos-th) result of self.<callee>(...)"""
        defs = IN.get(b.id, {}).get(name) or ()
        if not defs:
            return False
        for d in defs:
            if d == cfg.entry.id:
                return False
            a = cfg.node(d).ast
            if not (isinstance(a, ast.Assign) and len(a.targets) == 1 and isinstance(a.value, ast.Call) and call_name(a.value) == callee
                    and (dotted_name(a.value.func) or "").startswith("self.")):
                return False
            t = a.targets[0]
            if pos is None:
                if not (isinstance(t, ast.Name) and t.id == name):
                    return False
            elif not (isinstance(t, ast.Tuple) and len(t.elts) > pos and isinstance(t.elts[pos], ast.Name) and t.elts[pos].id == name):
                return False
        return True

    def rows_name(b, v, normalised):
        if from_call(b, v, "_get_rows2read", None):
            return True
        return not normalised and v == "rows" and v in rd.params

    def kind(b, f):
        """'binary' / 'rows' / 'cols' / None for one canonical fact holding on the controlling edge of branch b"""
        op, l, r = f[0], f[1], f[2]
        if (op == "falsy" and l == "self.is_ascii") or (op == "is" and l == "self.delim" and r == "None"):
            return "binary"
        if op == "is" and r == "None":
            if rows_name(b, l, False):
                return "rows"
            if from_call(b, l, "_get_colnums_to_read", 0):
                return "cols"
            if l in SYN and any(t == l and (view.dominates(m, b) or _merge_guard_dominates(view, m, b)) for m, t, _, _ in merges):
                return "cols"
        if op == "==":
            for x, y in ((l, r), (r, l)):
                if x.endswith(".size") or (x.startswith("len(") and x.endswith(")")):
                    v = x[:-5] if x.endswith(".size") else x[4:-1]
                    if y in _NROWS and rows_name(b, v, True):
                        return "rows"
                    if y in ("self.ncols", "self.colnames.size", "len(self.colnames)", "len(self.dtype.names)") and from_call(b, v, "_get_colnums_to_read", 0):
                        return "cols"
        return None

    def kinds_of(b, t, truth, depth=0):
        """kinds established by expression t having the given truth value"""
        if isinstance(t, ast.UnaryOp) and isinstance(t.op, ast.Not):
            return kinds_of(b, t.operand, not truth, depth)
        if isinstance(t, ast.Call) and isinstance(t.func, ast.Name) and t.func.id == "bool" and len(t.args) == 1 and not t.keywords:
            return kinds_of(b, t.args[0], truth, depth)
        if isinstance(t, ast.BoolOp):
            parts = [kinds_of(b, v, truth, depth) for v in t.values]
            if isinstance(t.op, ast.And) == truth:
                return set().union(*parts)            # every operand has this truth value
            return set.intersection(*parts)           # one of them has: what all alternatives establish
        if isinstance(t, ast.Call) and depth < 3:
            inl = _pred_inline(repo, rd, t)             # a one-expression predicate helper: what its body establishes
            if inl is not None:
                return kinds_of(b, inl, truth, depth + 1)
        k = kind(b, _canon(t, truth))
        return {k} if k else set()

    got = set()
    syn_none = set()
    for b, lab in view.controlling_branches(n):
        if b.kind == "branch" or (b.kind == "loop" and isinstance(b.ast, ast.While)):
            t = rules.expand(b.ast.test, rd.node)
            got |= kinds_of(b, t, lab == "T")
            raw = []
            _decompose(t, lab == "T", raw)
            for a, tr, ew in raw:
                f = _canon(a, tr)
                if not ew and f[0] == "is" and f[2] == "None" and f[1] in SYN:
                    syn_none.add(f[1])
    if syn_none == set(SYN):
        got.add("cols")         # neither synonym carries a column request
    if kinds is not None:
        kinds.extend(sorted(got))
    missing = [k for k in ("binary", "rows", "cols") if k not in got]
    return not missing, ("binary file, all rows and all columns established" if not missing else
                         "not established: %s" % ", ".join({"binary": "the file is binary", "rows": "all rows are requested", "cols": "all columns are requested"}[k] for k in missing))


_RPG_BUILTINS = ("len", "int", "bool", "abs", "slice", "min", "max", "float", "isinstance", "long")
_RPG_SELF_CALLS = ("_get_rows2read", "_get_colnums_to_read")


def _row_progression_guard(rd, cfg, view, n, call, kinds):
    """R02.5g (ok, text) for one call of the slice reader in Recfile.read at CFG node n.

    The slice reader transfers the rows start, start+step, ...: it returns the requested rows only when the request is all rows
    (kinds has 'rows': established by the guarding tests) or when the guarding tests establish that the row array IS that arithmetic
    progression, which is a statement about every element of the array.  A guard that looks at the row array only through single
    elements at constant positions, its size and `is None` is a function of finitely many scalars: for a request of three or more rows
    it holds for arrays that are not a progression as well.
      True   all rows established
      False  not established, the call is not in a loop, and everything the guarding tests and the call's arguments depend on is
             (after forward substitution of temporaries, followed through the definitions of the remaining locals) built from such
             scalar reads of the row request, self attributes the function does not assign, other parameters and constants, and no
             test bounds the size of the request by two
      None   anything else (a quantified fact, a helper that is given the row array, a loop, ...)"""
    if "rows" in kinds:
        return True, "all rows established by the guarding tests"
    tests = []
    for b, lab in view.controlling_branches(n):
        if b.kind == "loop":
            return None, "the call is inside a loop"
        if b.kind == "branch":
            tests.append((rules.expand(b.ast.test, rd.node), lab == "T"))
    fn = rd.node
    stores = set()
    rownames = {p for p in rd.params if p == "rows"}
    assigns = {}
    inloop = set()
    for x in walk_no_nested(fn):
        if isinstance(x, (ast.For, ast.While, ast.AsyncFor)):
            for y in ast.walk(x):
                if isinstance(y, ast.Name) and isinstance(y.ctx, ast.Store):
                    inloop.add(y.id)
        if isinstance(x, ast.Attribute) and isinstance(x.ctx, (ast.Store, ast.Del)) and isinstance(x.value, ast.Name) and x.value.id == "self":
            stores.add(x.attr)
        if isinstance(x, ast.Assign):
            for t in x.targets:
                for tt in ([t] if isinstance(t, ast.Name) else list(t.elts) if isinstance(t, (ast.Tuple, ast.List)) else []):
                    if isinstance(tt, ast.Name):
                        assigns.setdefault(tt.id, []).append(x.value)
                        if isinstance(x.value, ast.Call) and call_name(x.value) == "_get_rows2read" and tt is t:
                            rownames.add(tt.id)
        elif isinstance(x, (ast.AugAssign, ast.AnnAssign, ast.NamedExpr)) and isinstance(x.target, ast.Name):
            assigns.setdefault(x.target.id, []).append(None)
        elif isinstance(x, (ast.With, ast.ExceptHandler, ast.Import, ast.ImportFrom, ast.Global, ast.Nonlocal, ast.Delete, ast.Try)):
            if not isinstance(x, ast.Try):
                return None, "the function binds names in a way that is not followed (%s)" % type(x).__name__
    # a name is a row request only if every binding of it is the parameter or a result of the normaliser
    for v in list(rownames):
        if any(not (isinstance(a, ast.Call) and call_name(a) == "_get_rows2read") for a in assigns.get(v, [])) or v in inloop:
            return None, "`%s` is rebound to something that is not the normalised row request" % v
    if not rownames:
        return None, "no row request found"
    seen = []

    def scalar_only(e, depth=0):
        """None when fine, else the text of what is not a scalar read"""
        if depth > 5:
            return "definitions nested too deeply"
        parents = {}
        for p in ast.walk(e):
            for c in ast.iter_child_nodes(p):
                parents[id(c)] = p
        for x in ast.walk(e):
            if isinstance(x, (ast.Lambda, ast.ListComp, ast.SetComp, ast.DictComp, ast.GeneratorExp, ast.Starred, ast.Await, ast.Yield,
                              ast.YieldFrom, ast.NamedExpr)):
                return "`%s`" % norm(x)
            if isinstance(x, ast.Call):
                d = dotted_name(x.func) or ""
                if not ((isinstance(x.func, ast.Name) and x.func.id in _RPG_BUILTINS) or
                        (d.startswith("self.") and d[5:] in _RPG_SELF_CALLS)):
                    return "the call `%s`" % norm(x)[:60]
                if any(k.arg is None for k in x.keywords):
                    return "the call `%s`" % norm(x)[:60]
            if isinstance(x, ast.Attribute) and isinstance(x.value, ast.Name) and x.value.id == "self" and x.attr in stores:
                return "`self.%s`, which the function assigns" % x.attr
            if not (isinstance(x, ast.Name) and isinstance(x.ctx, ast.Load)):
                continue
            p = parents.get(id(x))
            if x.id in rownames:
                if isinstance(p, ast.Call) and (dotted_name(p.func) or "").startswith("self.") and call_name(p) == "_get_rows2read":
                    continue        # the normaliser itself (substituted definition of the request)
                if isinstance(p, ast.Subscript) and p.value is x:
                    i = p.slice
                    if isinstance(i, ast.UnaryOp) and isinstance(i.op, ast.USub):
                        i = i.operand
                    if isinstance(i, ast.Constant) and isinstance(i.value, int) and not isinstance(i.value, bool):
                        continue
                    return "`%s`" % norm(p)
                if isinstance(p, ast.Attribute) and p.attr in ("size", "shape", "ndim"):
                    continue
                if isinstance(p, ast.Call) and isinstance(p.func, ast.Name) and p.func.id == "len" and len(p.args) == 1:
                    continue
                if isinstance(p, ast.Compare) and len(p.ops) == 1 and isinstance(p.ops[0], (ast.Is, ast.IsNot)) \
                        and isinstance(p.comparators[0], ast.Constant) and p.comparators[0].value is None and p.left is x:
                    continue
                return "`%s`" % norm(p if p is not None else x)
            if x.id in ("self", "numpy", "np", "None", "True", "False") or x.id in _RPG_BUILTINS:
                continue
            if x.id in assigns or x.id in inloop:
                if x.id in inloop:
                    return "`%s`, bound in a loop" % x.id
                if x.id in seen:
                    continue
                seen.append(x.id)
                for a in assigns[x.id]:
                    if a is None:
                        return "`%s`, updated in place" % x.id
                    r = scalar_only(a, depth + 1)
                    if r is not None:
                        return r
                continue
            if x.id in rd.params:
                continue
            return "the name `%s`" % x.id
        return None

    exprs = [t for t, _ in tests] + [rules.expand(a, fn) for a in call.args] + [rules.expand(k.value, fn) for k in call.keywords]
    for e in exprs:
        r = scalar_only(e)
        if r is not None:
            return None, "the guard or the slice depends on %s" % r
    # Is the guard satisfiable by an arithmetic progression with a step of two or more and many rows?  The progression family
    # rows[i] = a + s*i with a = s = size = K and self.nrows = K**4 is put into every atom that mentions the row request; an equality
    # must be an identity in K, an order atom must hold as K grows (sign of the leading coefficient).  If so, for a large K the
    # progression satisfies the guard, and so does the array that differs from it by +1 at a middle position (strictly ascending,
    # in range, same size, same elements at the constant positions the tests read) -- which is not a progression, while the slice
    # reader returns one.  (A guard such as rows[-1] - rows[0] == rows.size - 1, which does prove a contiguous range for distinct
    # ascending rows, is not an identity in K and gives no verdict here.)
    g = _t3_like_all([_ap_generic(t, truth, rownames) for t, truth in tests])
    if g is not True:
        return None, "the guarding tests are not shown to hold for progressions of any step and length"
    return False, "all rows are not established under %s, and the tests and the slice `%s` read only single elements and the size of the " \
                  "row request and hold for every long progression of step >= 2, hence also for row lists that are not progressions" % (
                      {norm(t): ("T" if tr else "F") for t, tr in tests}, ", ".join(norm(a) for a in call.args))


def _t3_like_all(rs):
    """'indep' / True / False parts of a conjunction"""
    rs = list(rs)
    if any(r is False for r in rs):
        return False
    return True if any(r is True for r in rs) else "indep"


class _ApUnsup(Exception):
    pass


def _ap_lower(e, rownames):
    import sympy as sp
    K = sp.Symbol("K", positive=True, integer=True)
    if isinstance(e, ast.Constant) and isinstance(e.value, int) and not isinstance(e.value, bool):
        return sp.Integer(e.value)
    if isinstance(e, ast.Call) and isinstance(e.func, ast.Name) and e.func.id == "int" and len(e.args) == 1 and not e.keywords:
        return _ap_lower(e.args[0], rownames)
    if isinstance(e, ast.Call) and isinstance(e.func, ast.Name) and e.func.id == "len" and len(e.args) == 1 and not e.keywords:
        if isinstance(e.args[0], ast.Name) and e.args[0].id in rownames:
            return K
        if norm(e.args[0]) == "self":
            return K ** 4
    if isinstance(e, ast.Attribute) and e.attr == "size" and isinstance(e.value, ast.Name) and e.value.id in rownames:
        return K
    if isinstance(e, ast.Subscript) and isinstance(e.value, ast.Attribute) and e.value.attr == "shape" and isinstance(e.value.value, ast.Name) \
            and e.value.value.id in rownames and isinstance(e.slice, ast.Constant) and e.slice.value == 0:
        return K
    if isinstance(e, ast.Subscript) and isinstance(e.value, ast.Name) and e.value.id in rownames:
        i = e.slice
        if isinstance(i, ast.Constant) and isinstance(i.value, int) and not isinstance(i.value, bool) and i.value >= 0:
            return K + K * i.value
        if isinstance(i, ast.UnaryOp) and isinstance(i.op, ast.USub) and isinstance(i.operand, ast.Constant) and isinstance(i.operand.value, int) \
                and not isinstance(i.operand.value, bool) and i.operand.value > 0:
            return K + K * (K - i.operand.value)
    if norm(e) == "self.nrows":
        return K ** 4
    if isinstance(e, ast.UnaryOp) and isinstance(e.op, (ast.USub, ast.UAdd)):
        v = _ap_lower(e.operand, rownames)
        return -v if isinstance(e.op, ast.USub) else v
    if isinstance(e, ast.BinOp) and isinstance(e.op, (ast.Add, ast.Sub, ast.Mult)):
        a, b = _ap_lower(e.left, rownames), _ap_lower(e.right, rownames)
        return sp.expand(a + b if isinstance(e.op, ast.Add) else a - b if isinstance(e.op, ast.Sub) else a * b)
    raise _ApUnsup(norm(e))


def _ap_generic(t, truth, rownames):
    """'indep' when t does not mention the row request; True when t == truth holds for the progression family as K grows; else False"""
    import sympy as sp
    if isinstance(t, ast.UnaryOp) and isinstance(t.op, ast.Not):
        return _ap_generic(t.operand, not truth, rownames)
    if isinstance(t, ast.Call) and isinstance(t.func, ast.Name) and t.func.id == "bool" and len(t.args) == 1 and not t.keywords:
        return _ap_generic(t.args[0], truth, rownames)
    if isinstance(t, ast.BoolOp):
        parts = [_ap_generic(v, truth, rownames) for v in t.values]
        if isinstance(t.op, ast.And) == truth:
            return _t3_like_all(parts)
        if any(p is True for p in parts):
            return True
        return "indep" if all(p == "indep" for p in parts) else False
    if not any(isinstance(x, ast.Name) and x.id in rownames for x in ast.walk(t)):
        return "indep"
    if isinstance(t, ast.Compare) and len(t.ops) > 1:
        if not truth:
            return False
        l, parts = t.left, []
        for op, r in zip(t.ops, t.comparators):
            parts.append(_ap_generic(ast.Compare(left=l, ops=[op], comparators=[r]), True, rownames))
            l = r
        return _t3_like_all(parts)
    if isinstance(t, ast.Compare):
        op, l, r = t.ops[0], t.left, t.comparators[0]
        if isinstance(op, (ast.Is, ast.IsNot)):
            if isinstance(l, ast.Name) and l.id in rownames and isinstance(r, ast.Constant) and r.value is None:
                return isinstance(op, ast.IsNot) == truth
            return False
        try:
            d = sp.expand(_ap_lower(l, rownames) - _ap_lower(r, rownames))
        except _ApUnsup:
            return False
        K = sp.Symbol("K", positive=True, integer=True)
        lead = sp.Poly(d, K).LC() if d != 0 else 0
        sign = 0 if d == 0 else (1 if lead > 0 else -1)
        holds = {ast.Eq: sign == 0, ast.NotEq: sign != 0, ast.Lt: sign < 0, ast.LtE: sign <= 0, ast.Gt: sign > 0, ast.GtE: sign >= 0}.get(type(op))
        if holds is None:
            return False
        return holds == truth
    return False


def _r02_5_read_structural(chk, repo, F):
    rd = F["read"]
    fw = []
    if F["_read_columns"] is not None:
        fw.append((F["_read_columns"].qualname, "read_columns", {0: "data", 1: "colnums", 2: "rows"}))
    fw.append((rd.qualname, "_read_columns", {0: "colnums", 1: "rows"}))
    _r02_5_forward_structural(chk, repo, fw)
    # the whole-table fast path is only taken when all rows and all columns are requested
    cfg = cfg_of(rd)
    view = cfg.view()
    guards = []
    for n in cfg.nodes:
        for c in rules.stmts_calls(n):
            if call_name(c) == "_read_binary_slice":
                ts = dict(rules.controlling_tests(view, n))
                kinds = []
                okk, why = _fast_path_guarded(repo, rd, cfg, view, n, kinds)
                guards.append(okk)
                try:
                    gok, gwhy = _row_progression_guard(rd, cfg, view, n, c, kinds)
                except Exception as e:              # a defect of the analysis must never become a verdict
                    gok, gwhy = None, "analysis failed: %s: %s" % (type(e).__name__, e)
                chk.ob("R02.5g", rd.qualname + "::slice-reader-row-request", gok, rd.where(n.ast),
                       "a call of the slice reader that is not guarded by `all rows are requested` must be guarded by a fact about every "
                       "element of the row request (the rows are the slice's arithmetic progression): tests that read finitely many "
                       "scalars of the row array (single elements, its size) cannot establish it (%s)" % gwhy)
                chk.ob("R02.5e", rd.qualname + "::fast-path-guard", okk, rd.where(n.ast),
                       "the single-fread path is taken only for binary files when all rows and all columns are requested (%s; under %s)" % (why, ts))
                chk.ob("R02.5e", rd.qualname + "::fast-path-slice", bool(c.args) and norm(c.args[0]) == "slice(0, self.nrows, 1)", rd.where(n.ast),
                       "the fast path reads slice(0, nrows, 1) (found %s)" % (norm(c.args[0]) if c.args else None))
    defs = {norm(x.targets[0]): norm(x.value) for x in walk_no_nested(rd.node) if isinstance(x, ast.Assign)}
    # (the guard instance above takes the tests apart after substituting the flags they mention: when it holds at every call of the
    # slice reader, whatever the flags are called and however they are written, they mean "all rows" / "all columns")
    sub = bool(guards) and all(guards)
    chk.ob("R02.5e", rd.qualname + "::all-rows-definition",
           defs.get("read_all_rows", "").replace("(", "").replace(")", "") == "rows is None or rows.size == self.nrows" or sub,
           rd.where(), "read_all_rows := rows is None or rows.size == nrows (rows are distinct): found %s%s"
           % (defs.get("read_all_rows"), " [established by the tests that guard the slice reader]" if sub else ""))
    chk.ob("R02.5e", rd.qualname + "::all-cols-definition",
           defs.get("read_all_cols", "").replace("(", "").replace(")", "") == "colnums is None or colnums.size == self.ncols" or sub,
           rd.where(), "read_all_cols := colnums is None or colnums.size == ncols: found %s%s"
           % (defs.get("read_all_cols"), " [established by the tests that guard the slice reader]" if sub else ""))
    # scalar column reduction indexes the result with the merged column name
    for n in cfg.nodes:
        a = n.ast
        if n.kind == "stmt" and isinstance(a, ast.Assign) and isinstance(a.value, ast.Subscript) and norm(a.value.value) == "result":
            ts = dict(rules.controlling_tests(view, n))
            chk.ob("R02.5f", rd.qualname + "::scalar-column-reduction-guard", ts.get("isscalar") == "T", rd.where(a),
                   "the result is reduced to a plain column only for a scalar column request")


# ---------------------------------------------------------------------------
def r02_6(chk, repo, S):
    # the name `split_fields` as each of the three modules offers / uses it: a definition of its own, or an import of another
    # module's definition (followed through the import table).  What matters is that the function the name stands for meets the
    # specification, not how many textual copies there are.
    offered = {}
    for mname in ("esutil.sfile", "esutil.recfile.Util", "esutil.numpy_util"):
        m = repo.modules.get(mname)
        q = repo.resolve_name(m, "split_fields") if m is not None else None
        offered[mname] = q if q is not None and repo.has(q) else None
    copies = sorted({q for q in offered.values() if q is not None})
    missing = sorted(m for m, q in offered.items() if q is None)
    chk.ob("R02.6a", "split_fields::copies-found", None if missing else True, "esutil",
           "split_fields as offered by sfile, recfile.Util and numpy_util resolves to: %s%s"
           % (offered, "" if not missing else " (not resolved to a function of the package in: %s)" % missing))
    for q in copies:
        fi = repo.func(q)
        chk.analysed_unit(q)
        check_split_fields(chk, fi, "R02.6a", repo=repo, sims=S, sem_prefix="sem::")
    # total helpers (split_fields: the implementations the two readers' modules resolve the name to)
    for q in ["esutil.sfile.reduce_array"] + sorted({offered[m] for m in ("esutil.sfile", "esutil.recfile.Util") if offered[m]}):
        fi = repo.func(q)
        chk.analysed_unit(q)
        cfg = cfg_of(fi)
        off = rules.falls_off_end(cfg)
        chk.ob("R02.6b", q + "::total", not off, fi.where(off[0].ast) if off and off[0].ast is not None else fi.where(),
               "every path through %s returns a value%s" % (fi.name, "" if not off else
                                                          ": falling off the end after `%s` returns None (e.g. reduce=True on a table with several columns)" % off[0].text()[:60]))
    ra = repo.func("esutil.sfile.reduce_array")
    _ev(chk, S, "reduce", ["total"], "R02.6b", ra.qualname + "::never-returns-None", ra.where(),
        "reduce_array returns a value for arrays with no, one or several fields and for objects without dtype")
    # reduce: single-field structured array -> that field; anything else -> input unchanged
    if not _ev(chk, S, "reduce", ["single", "other"], "R02.6c", ra.qualname + "::returns", ra.where(),
               "reduce_array returns the view of the only field of a one-field array and the input itself in every other case"):
        _r02_6c_structural(chk, ra)
    sr = repo.func("esutil.sfile.SFile.read")
    a = _ev(chk, S, "sfile", ["split", "reduce"], "R02.6d", "eval::" + sr.qualname + "::split-then-reduce", sr.where(),
            "the result is replaced by split_fields(result) exactly under split=True, else by reduce_array(result) exactly under reduce=True")
    b = _ev(chk, S, "sfile", ["header"], "R02.6e", "eval::" + sr.qualname + "::header-copy", sr.where(),
            "read(header=True) returns (data, copy of the header)")
    if not (a and b):
        _r02_6d_structural(chk, sr)
    try:
        _r02_6f_split_order(chk, repo, copies)
    except AnalysisError:
        raise
    except Exception as e:              # a defect of the analysis must never become a verdict
        chk.ob("R02.6f", "split-order", None, sr.where(), "analysis failed: %s: %s" % (type(e).__name__, e))


# ---------------------------------------------------------------------------
# R02.6f: a reader's split result lists the columns of the structured result in the result's own (file) order.
#
# split_fields(data, fields=F) returns one view per element of F, in the order of F.  The structured array a reader produces has
# its columns in file order whatever order (and however often) the caller named them, and the property wants split=True to be
# nothing but another way to hand out that same array.  So at every call of split_fields inside the reader modules the field
# selector has to be absent / None (all fields, dtype order) or the result's own dtype names.  A selector that carries the order of
# the caller's request (the fields= / columns= parameter itself, a list / tuple / array made of it, a comprehension over it, either
# arm of a conditional expression; followed through locals by reaching definitions) makes the tuple follow the request instead:
# columns=['x', 'id'] then gives (x, id) where the structured read, and Recfile.read(split=True), give (id, x).
# ---------------------------------------------------------------------------
_ORDER_KEEPING = ("list", "tuple", "array", "asarray", "asanyarray", "atleast_1d", "copy", "ravel", "flatten", "astype", "reversed")


def _request_ordered(e, fi, cfg, IN, at, req, depth=0):
    """the parameter of the request whose element order expression e has (evaluated at CFG node `at`), else None"""
    if depth > 8 or e is None:
        return None
    if isinstance(e, ast.Name):
        defs = IN.get(at.id, {}).get(e.id, ())
        for d in defs:
            if d == cfg.entry.id:
                if e.id in req:
                    return e.id
                continue
            dn = cfg.node(d)
            a = dn.ast
            if dn.kind == "stmt" and isinstance(a, ast.Assign) and len(a.targets) == 1 and isinstance(a.targets[0], ast.Name):
                r = _request_ordered(a.value, fi, cfg, IN, dn, req, depth + 1)
                if r is not None:
                    return r
            elif dn.kind == "stmt" and isinstance(a, ast.AnnAssign) and a.value is not None:
                r = _request_ordered(a.value, fi, cfg, IN, dn, req, depth + 1)
                if r is not None:
                    return r
        return None
    if isinstance(e, ast.IfExp):
        return _request_ordered(e.body, fi, cfg, IN, at, req, depth + 1) or _request_ordered(e.orelse, fi, cfg, IN, at, req, depth + 1)
    if isinstance(e, ast.BoolOp):
        for v in e.values:
            r = _request_ordered(v, fi, cfg, IN, at, req, depth + 1)
            if r is not None:
                return r
        return None
    if isinstance(e, ast.Call) and call_name(e) in _ORDER_KEEPING:
        if isinstance(e.func, ast.Attribute) and not e.args and not (isinstance(e.func.value, ast.Name) and e.func.value.id in ("numpy", "np")):
            return _request_ordered(e.func.value, fi, cfg, IN, at, req, depth + 1)
        if e.args:
            return _request_ordered(e.args[0], fi, cfg, IN, at, req, depth + 1)
        return None
    if isinstance(e, (ast.ListComp, ast.GeneratorExp)) and len(e.generators) == 1 and not e.generators[0].ifs:
        g = e.generators[0]
        if isinstance(g.target, ast.Name) and any(isinstance(x, ast.Name) and x.id == g.target.id for x in ast.walk(e.elt)):
            return _request_ordered(g.iter, fi, cfg, IN, at, req, depth + 1)
        return None
    if isinstance(e, (ast.List, ast.Tuple)) and len(e.elts) == 1 and isinstance(e.elts[0], ast.Starred):
        return _request_ordered(e.elts[0].value, fi, cfg, IN, at, req, depth + 1)
    return None


def _r02_6f_split_order(chk, repo, copies):
    for q, fi in sorted(repo.funcs.items()):
        mod = getattr(fi.module, "name", None)
        if mod not in ("esutil.sfile", "esutil.recfile.Util") or q in copies:
            continue
        calls = []
        for x in walk_no_nested(fi.node):
            if isinstance(x, ast.Call) and dotted_name(x.func):
                d = dotted_name(x.func)
                if call_name(x) == "split_fields" or repo.resolve_name(fi.module, d) in copies:
                    calls.append(x)
        if not calls:
            continue
        cfg = cfg_of(fi)
        view = cfg.view()
        IN, _ = view.reaching_defs()
        req = [p for p in fi.params if p in SYN]
        for i, c in enumerate(calls):
            at = next((n for n in view.nodes() if any(y is c for y in rules.stmts_calls(n))), None)
            sel = kwarg(c, "fields")
            if sel is None and len(c.args) > 1 and not any(isinstance(a, ast.Starred) for a in c.args[:2]):
                sel = c.args[1]
            key = "%s::split-in-result-order::%d" % (fi.qualname, i)
            msg = "the tuple returned for split=True lists the columns of the structured result in the result's own (file) order"
            if any(k.arg is None for k in c.keywords) or any(isinstance(a, ast.Starred) for a in c.args):
                chk.ob("R02.6f", key, None, fi.where(c), msg + ": `%s` passes its arguments through * / **" % norm(c))
                continue
            if sel is None or (isinstance(sel, ast.Constant) and sel.value is None):
                chk.ob("R02.6f", key, True, fi.where(c), msg + ": `%s` selects every field in dtype order" % norm(c))
                continue
            if at is None:
                chk.ob("R02.6f", key, None, fi.where(c), msg + ": the statement of `%s` was not found in the control-flow graph" % norm(c))
                continue
            src = _request_ordered(sel, fi, cfg, IN, at, req)
            if src is not None:
                chk.ob("R02.6f", key, False, fi.where(c),
                       msg + ": `%s` selects the fields in the order of `%s`, which carries the order (and the repeats) of the caller's "
                       "%s= request, so a request that is not in file order gives a tuple that disagrees with the structured read of the "
                       "same selection" % (norm(c), norm(sel), src))
                continue
            first = norm(c.args[0]) if c.args else norm(kwarg(c, "data")) if kwarg(c, "data") is not None else None
            inner = sel
            while isinstance(inner, ast.Call) and call_name(inner) in ("list", "tuple") and len(inner.args) == 1:
                inner = inner.args[0]
            if first is not None and rules.xnorm(inner, fi.node) in (first + ".dtype.names", rules.xnorm(ast.parse(first + ".dtype.names", mode="eval").body, fi.node)):
                chk.ob("R02.6f", key, True, fi.where(c), msg + ": `%s` selects the result's own dtype names" % norm(c))
            else:
                chk.ob("R02.6f", key, None, fi.where(c), msg + ": the field selector `%s` of `%s` is not recognised" % (norm(sel), norm(c)))


def _only_element_of(fi, cfg, k):
    """(text of X after forward substitution, CFG node of the unpacking or None) when the subscript `k` denotes the first element of X:
    X[0] / next(iter(X)), or a name bound exactly once, by the one-element unpacking `(k,) = X` / `[k] = X`; else None"""
    if isinstance(k, ast.Subscript) and norm(k.slice) == "0":
        return norm(k.value), None
    if isinstance(k, ast.Call) and call_name(k) == "next" and len(k.args) == 1 and isinstance(k.args[0], ast.Call) \
            and call_name(k.args[0]) == "iter" and len(k.args[0].args) == 1:
        return norm(k.args[0].args[0]), None
    if isinstance(k, ast.Name):
        binds = []
        for n in cfg.nodes:
            d, _ = cfg.defs_uses(n)
            if k.id in d:
                binds.append(n)
        if len(binds) == 1 and binds[0].kind == "stmt" and isinstance(binds[0].ast, ast.Assign) and len(binds[0].ast.targets) == 1:
            t = binds[0].ast.targets[0]
            if isinstance(t, (ast.Tuple, ast.List)) and len(t.elts) == 1 and isinstance(t.elts[0], ast.Name) and k.id not in fi.params:
                return rules.xnorm(binds[0].ast.value, fi.node), binds[0]
    return None


def _r02_6c_structural(chk, ra):
    """reduce_array: every return is the parameter itself, or data[<names>[0]] under the fact len(<names>) == 1"""
    cfg = cfg_of(ra)
    view = cfg.view()
    p = ra.params[0] if ra.params else "data"
    kinds = []
    verdict = True
    msgs = []
    for r in rules.return_nodes(cfg):
        if r.ast.value is None:
            continue
        e = rules.expand(r.ast.value, ra.node)
        if isinstance(e, ast.Name) and e.id == p:
            kinds.append("input")
            continue
        sel = _only_element_of(ra, cfg, e.slice) if isinstance(e, ast.Subscript) and norm(e.value) == p else None
        if sel is not None:
            names, at = sel
            if "names" not in names and "fields" not in names and "descr" not in names:
                verdict = None if verdict else verdict
                msgs.append("unrecognised field selector %s" % names)
                continue
            kinds.append("field")
            facts = _node_facts(view, r, ra.node)
            if at is not None:
                # the selector is bound by a one-element unpacking, which raises unless there is exactly one name: the single-field
                # test has to hold there as well (every other input is returned unchanged, not rejected)
                facts = [f for f in facts if f in _node_facts(view, at, ra.node)]
            lens = {"len(%s)" % names, "len(%s.dtype)" % p, "len(%s.dtype.names)" % p, "len(%s.dtype.fields)" % p, "len(%s.dtype.descr)" % p}
            single = any((f[0] == "==" and ((f[1] in lens and f[2] == "1") or (f[2] in lens and f[1] == "1"))) for f in facts) or \
                (any(f[0] == "<" and f[1] in lens and f[2] == "2" for f in facts) and any(f[0] in ("truthy",) and f[1] == names for f in facts))
            if not single:
                verdict = False
                msgs.append("`return %s` is not under the single-field test len(%s) == 1 (facts: %s)" % (norm(r.ast.value), names, facts))
            continue
        if verdict:
            verdict = None
        msgs.append("unrecognised return `%s`" % norm(r.ast.value))
    if verdict is True and not ("input" in kinds and "field" in kinds):
        verdict = None
        msgs.append("returns found: %s" % kinds)
    chk.ob("R02.6c", ra.qualname + "::returns", verdict, ra.where(),
           "reduce_array returns the single field (under len(names) == 1) or the input itself%s" % ("" if not msgs else ": " + "; ".join(msgs)))


def _r02_6d_structural(chk, sr):
    cfg = cfg_of(sr)
    view = cfg.view()
    for n in cfg.nodes:
        for c in rules.stmts_calls(n):
            if call_name(c) in ("split_fields", "reduce_array"):
                ts = dict(rules.controlling_tests(view, n))
                want = {"split_fields": ("split", "T"), "reduce_array": ("reduce", "T")}[call_name(c)]
                chk.ob("R02.6d", sr.qualname + "::" + call_name(c), ts.get(want[0]) == want[1] and bool(c.args) and norm(c.args[0]) == "result" and
                       isinstance(n.ast, ast.Assign) and norm(n.ast.targets[0]) == "result", sr.where(n.ast),
                       "%s(result) replaces the result exactly under %s=True" % (call_name(c), want[0]))
    # header=True returns a copy of the stored header
    for n in rules.return_nodes(cfg):
        if isinstance(n.ast.value, ast.Tuple) and len(n.ast.value.elts) == 2:
            second = n.ast.value.elts[1]
            chk.ob("R02.6e", sr.qualname + "::header-copy", isinstance(second, ast.Call) and call_name(second) in ("deepcopy", "copy"),
                   sr.where(n.ast), "read(header=True) returns a copy of the header")


# ---------------------------------------------------------------------------
# split_fields, semantic form: a symbolic walk over EVERY path of the function (no input is chosen: parameters stay symbols, a test
# whose outcome the path has not fixed is followed both ways, a loop body is walked once for a symbolic "element being visited").
# What each return path hands out is a term; the four rules are statements about those terms, so they hold however the code is
# spelled (append loop / comprehension / generator in tuple(), local helper extracted, guard clause vs if/else, swapped arms with
# negated test, elif vs nested if, renamed locals).  Anything outside the small fragment gives no verdict (the template form
# decides), never a pass.
#
# terms: ("P", name) parameter   ("C", const)   ("DT", x) x.dtype   ("FIELDS", x) / ("NAMES", x) x.dtype.fields / .names
#        ("ITEM", x, k) x[k]     ("ELEM", src, n) the element loop n visits   ("SEQ", (..)) display   ("LIST", n) list built here
#        ("VIEWS", segs) tuple(<list built here>)   ("GEN", seg) generator   ("FUNC", def) local helper   ("UNK", text) / ("CALL", ..)
# a list is a tuple of segments: ("ELT", v) one element, ("LOOP", src, v, checked, skip) one `v` per element of `src`, in order
#        (checked: the visit raises unless the element is a field name of the data; skip: some visit adds nothing / is filtered / breaks)
# ---------------------------------------------------------------------------
class _SFUnsup(Exception):
    pass


_SF_RAISE = ("RAISE",)
_SF_REORDER = ("sorted", "set", "frozenset", "reversed", "unique")


class _SFWalk(object):
    def __init__(self, fi):
        import itertools
        self.fi = fi
        self.ids = itertools.count(1)
        p = list(fi.params)
        if len(p) < 2:
            raise _SFUnsup("split_fields without (data, fields) parameters")
        self.data, self.req = ("P", p[0]), ("P", p[1])
        self.getn = ("P", p[2]) if len(p) > 2 else None
        self.steps = 0

    # -- state: (env, facts, heap), copied on write ----------------------------------------------------------------------
    def tick(self):
        self.steps += 1
        if self.steps > 20000:
            raise _SFUnsup("too many paths")

    @staticmethod
    def has_list(v):
        return isinstance(v, tuple) and (v[:1] == ("LIST",) or any(_SFWalk.has_list(x) for x in v if isinstance(x, tuple)))

    def atom(self, a, S):
        """[(truth, state)] of atom a: fixed by the facts of the path, or followed both ways"""
        env, facts, heap = S
        if a in facts:
            return [(facts[a], S)]
        k, v = a[0], a[1]
        if k == "ISNONE":
            if v == ("C", None):
                return [(True, S)]
            if v[0] in ("C", "LIST", "SEQ", "VIEWS", "GEN", "FUNC") or facts.get(("TRUTHY", v)) is True or \
                    any(f[0] == "ISA" and f[1] == v and t for f, t in facts.items()):
                return [(False, S)]
        if k == "TRUTHY":
            if v[0] == "C":
                return [(bool(v[1]), S)]
            if facts.get(("ISNONE", v)) is True:
                return [(False, S)]
            if v[0] == "SEQ":
                return [(bool(v[1]), S)]
            if v[0] == "FUNC":
                return [(True, S)]
        if k == "ISA" and (v == ("C", None) or facts.get(("ISNONE", v)) is True):
            return [(False, S)]
        if k == "IN" and v[0] == "ELEM":
            # the element being visited is in what is being walked; the names and the fields mapping of one dtype hold the same names
            both = (("FIELDS", self.data), ("NAMES", self.data))
            if a[2] == v[1] or (a[2] in both and v[1] in both):
                return [(True, S)]
        out = []
        for t in (True, False):
            f2 = dict(facts)
            f2[a] = t
            out.append((t, (env, f2, heap)))
        return out

    # -- tests -----------------------------------------------------------------------------------------------------------
    def test(self, t, S):
        self.tick()
        if isinstance(t, ast.UnaryOp) and isinstance(t.op, ast.Not):
            return [(not r, S2) for r, S2 in self.test(t.operand, S)]
        if isinstance(t, ast.BoolOp):
            stop = isinstance(t.op, ast.Or)
            cur, done = [S], []
            for i, v in enumerate(t.values):
                nxt = []
                for S1 in cur:
                    for r, S2 in self.test(v, S1):
                        if r == stop or i == len(t.values) - 1:
                            done.append((r, S2))
                        else:
                            nxt.append(S2)
                cur = nxt
            return done
        if isinstance(t, ast.Compare) and len(t.ops) == 1:
            op = t.ops[0]
            out = []
            for a, S1 in self.ev(t.left, S):
                for b, S2 in self.ev(t.comparators[0], S1):
                    if a is _SF_RAISE or b is _SF_RAISE:
                        raise _SFUnsup("a test that raises")
                    if isinstance(op, (ast.Is, ast.IsNot, ast.Eq, ast.NotEq)) and ("C", None) in (a, b) and \
                            (isinstance(op, (ast.Is, ast.IsNot)) or (a[0] in ("P", "FIELDS", "NAMES", "C") and b[0] in ("P", "FIELDS", "NAMES", "C"))):
                        x = b if a == ("C", None) else a
                        neg = isinstance(op, (ast.IsNot, ast.NotEq))
                        out += [(r != neg, S3) for r, S3 in self.atom(("ISNONE", x), S2)]
                    elif isinstance(op, (ast.In, ast.NotIn)):
                        neg = isinstance(op, ast.NotIn)
                        out += [(r != neg, S3) for r, S3 in self.atom(("IN", a, b), S2)]
                    else:
                        if self.has_list(a) or self.has_list(b):
                            raise _SFUnsup("a test of the list of views")
                        out += self.atom(("CMP", type(op).__name__, a, b), S2)
            return out
        if isinstance(t, ast.Call) and isinstance(t.func, ast.Name) and t.func.id not in S[0] and not t.keywords and \
                ((t.func.id == "isinstance" and len(t.args) == 2) or (len(t.args) == 1 and "str" in t.func.id.lower())):
            # isinstance(x, T) / a module-level is-it-a-string predicate (isstring, is_str ...): an atom about x
            out = []
            for a, S1 in self.ev(t.args[0], S):
                if a is _SF_RAISE or self.has_list(a):
                    raise _SFUnsup("type test of %s" % (a,))
                out += self.atom(("ISA", a, norm(t.args[1]) if len(t.args) == 2 else "str:" + t.func.id), S1)
            return out
        out = []
        for v, S1 in self.ev(t, S):
            if v is _SF_RAISE:
                raise _SFUnsup("a test that raises")
            if v[0] == "LIST":
                raise _SFUnsup("a test of the list of views")
            out += self.atom(("TRUTHY", v), S1)
        return out

    # -- expressions: [(term, state)] --------------------------------------------------------------------------------------
    def evs(self, es, S):
        """[(tuple of terms, state)] for a sequence of expressions, left to right; a raising operand ends the sequence"""
        cur = [((), S)]
        for e in es:
            nxt = []
            for vs, S1 in cur:
                if vs and vs[-1] is _SF_RAISE:
                    nxt.append((vs, S1))
                    continue
                for v, S2 in self.ev(e, S1):
                    nxt.append((vs + (v,), S2))
            cur = nxt
        return cur

    def new_list(self, segs, S):
        env, facts, heap = S
        lid = next(self.ids)
        heap = dict(heap)
        heap[lid] = tuple(segs)
        return ("LIST", lid), (env, facts, heap)

    def ev(self, e, S):
        self.tick()
        env, facts, heap = S
        if isinstance(e, ast.Constant):
            return [(("C", e.value), S)]
        if isinstance(e, ast.Name):
            return [(env.get(e.id, ("G", e.id)), S)]
        if isinstance(e, ast.Attribute):
            out = []
            for v, S1 in self.ev(e.value, S):
                if v is _SF_RAISE:
                    out.append((v, S1))
                elif self.has_list(v):
                    raise _SFUnsup("attribute of the list of views")
                elif e.attr == "dtype":
                    out.append((("DT", v), S1))
                elif v[0] == "DT" and e.attr in ("fields", "names"):
                    out.append(((e.attr.upper(), v[1]), S1))
                else:
                    out.append((("ATTR", v, e.attr), S1))
            return out
        if isinstance(e, ast.Subscript):
            if isinstance(e.slice, ast.Slice):
                for v, S1 in self.ev(e.value, S):
                    if v is _SF_RAISE or self.has_list(v):
                        raise _SFUnsup("slice of %s" % (v,))
                return [(("UNK", norm(e)), S)]
            out = []
            for vs, S1 in self.evs([e.value, e.slice], S):
                if vs[-1] is _SF_RAISE:
                    out.append((_SF_RAISE, S1))
                elif self.has_list(vs[0]) or self.has_list(vs[1]):
                    raise _SFUnsup("subscript of / by the list of views")
                else:
                    out.append((("ITEM", vs[0], vs[1]), S1))
            return out
        if isinstance(e, (ast.Tuple, ast.List)):
            if any(isinstance(x, ast.Starred) for x in e.elts):
                raise _SFUnsup("starred display")
            if isinstance(e, ast.List) and not e.elts:
                return [self.new_list((), S)]
            return [((_SF_RAISE if vs and vs[-1] is _SF_RAISE else ("SEQ", vs)), S1) for vs, S1 in self.evs(e.elts, S)]
        if isinstance(e, ast.IfExp):
            out = []
            for r, S1 in self.test(e.test, S):
                out += self.ev(e.body if r else e.orelse, S1)
            return out
        if isinstance(e, ast.BoolOp):
            # value of `a or b` / `a and b`: the first operand whose truth decides, else the last
            stop = isinstance(e.op, ast.Or)
            out, cur = [], [S]
            for i, x in enumerate(e.values):
                nxt = []
                for S1 in cur:
                    for v, S2 in self.ev(x, S1):
                        if v is _SF_RAISE or i == len(e.values) - 1:
                            out.append((v, S2))
                            continue
                        if v[0] == "LIST":
                            raise _SFUnsup("truth of the list of views")
                        for r, S3 in self.atom(("TRUTHY", v), S2):
                            if r == stop:
                                out.append((v, S3))
                            else:
                                nxt.append(S3)
                cur = nxt
            return out
        if isinstance(e, (ast.ListComp, ast.GeneratorExp)):
            return self.comp(e, S)
        if isinstance(e, ast.Call):
            return self.call(e, S)
        if isinstance(e, (ast.Compare, ast.UnaryOp, ast.BinOp, ast.JoinedStr, ast.FormattedValue, ast.Lambda, ast.Dict, ast.Set)):
            # a term nothing is known about (a truth value used as a value, a message being formatted ...)
            return self.opaque(e, S)
        raise _SFUnsup("expression %s" % type(e).__name__)

    def opaque(self, e, S):
        """a term nothing is known about; sound only when evaluating it cannot touch a list built here and calls nothing local"""
        env = S[0]
        for x in ast.walk(e):
            if isinstance(x, ast.Name) and (self.has_list(env.get(x.id, ())) or env.get(x.id, ("",))[0] in ("FUNC", "GEN")):
                raise _SFUnsup("`%s` uses the list of views / a local helper inside an expression that is not followed" % norm(e))
            if isinstance(x, (ast.NamedExpr, ast.Yield, ast.YieldFrom, ast.Await)):
                raise _SFUnsup("`%s`" % norm(e))
        return [(("UNK", norm(e)), S)]

    def comp(self, e, S):
        if len(e.generators) != 1 or not isinstance(e.generators[0].target, ast.Name) or e.generators[0].is_async:
            raise _SFUnsup("comprehension with several / destructuring generators")
        g = e.generators[0]
        out = []
        for src, S1 in self.ev(g.iter, S):
            if src is _SF_RAISE:
                out.append((src, S1))
                continue
            if self.has_list(src):
                raise _SFUnsup("comprehension over the list of views")
            env, facts, heap = S1
            n = next(self.ids)
            el = ("ELEM", src, n)
            env2 = dict(env)
            env2[g.target.id] = el
            alts = [(True, (env2, facts, heap))]
            for c in g.ifs:
                alts = [(r and r0, S3) for r0, S2 in alts for r, S3 in (self.test(c, S2) if r0 else [(False, S2)])]
            filtered = any(not r for r, _ in alts)
            vals, raised = [], []
            for r, S2 in alts:
                if not r:
                    continue
                for v, S3 in self.ev(e.elt, S2):
                    if S3[2] != heap:
                        raise _SFUnsup("comprehension element with an effect on a list")
                    (raised if v is _SF_RAISE else vals).append((v, S3[1]))
            seg = self.segment(src, el, [(v, f) for v, f in vals], [f for _, f in raised], filtered or not vals and not raised)
            if isinstance(e, ast.ListComp):
                out.append(self.new_list((seg,), S1))
            else:
                out.append((("GEN", seg), S1))
        return out

    def segment(self, src, el, vals, raised_facts, skip):
        """what one loop / comprehension over `src` contributes: vals = [(term added by a visit that ends normally, its facts)]"""
        distinct = sorted({v for v, _ in vals}, key=repr)
        names = [("FIELDS", self.data), ("NAMES", self.data)]
        checked = bool(vals) and all(any(f.get(("IN", el, c)) is True for c in names) for _, f in vals) and \
            any(any(f.get(("IN", el, c)) is False for c in names) for f in raised_facts)
        v = distinct[0] if len(distinct) == 1 else ("UNK", "different elements on different paths: %s" % (distinct,))
        return ("LOOP", src, v, checked, bool(skip))

    def call(self, e, S):
        env = S[0]
        if any(k.arg is None for k in e.keywords) or any(isinstance(a, ast.Starred) for a in e.args):
            raise _SFUnsup("call with * / **")
        f = e.func
        # method of a list built here: only append is followed
        if isinstance(f, ast.Attribute):
            out = []
            for recv, S1 in self.ev(f.value, S):
                if recv is _SF_RAISE:
                    out.append((recv, S1))
                    continue
                if recv[0] == "LIST":
                    if f.attr != "append" or len(e.args) != 1 or e.keywords:
                        raise _SFUnsup("list method %s on the list of views" % f.attr)
                    for v, S2 in self.ev(e.args[0], S1):
                        if v is _SF_RAISE:
                            out.append((v, S2))
                            continue
                        if self.has_list(v) or v[0] == "GEN":
                            raise _SFUnsup("a list appended to the list of views")
                        env2, facts2, heap2 = S2
                        heap2 = dict(heap2)
                        heap2[recv[1]] = heap2[recv[1]] + (("ELT", v),)
                        out.append((("C", None), (env2, facts2, heap2)))
                    continue
                if self.has_list(recv) or recv[0] == "GEN":
                    raise _SFUnsup("method of %s" % (recv,))
                for vs, S2 in self.evs(list(e.args) + [k.value for k in e.keywords], S1):
                    if vs and vs[-1] is _SF_RAISE:
                        out.append((_SF_RAISE, S2))
                    elif any(self.has_list(v) or v[0] in ("GEN", "FUNC") for v in vs):
                        raise _SFUnsup("the list of views / a generator / a local helper handed to `%s`" % norm(f))
                    elif f.attr == "keys" and not vs and recv[0] == "FIELDS":
                        out.append((recv, S2))          # the names of the mapping, in its (dtype) order
                    else:
                        out.append((("CALL", "." + f.attr, (recv,) + vs), S2))
            return out
        if not isinstance(f, ast.Name):
            raise _SFUnsup("call of `%s`" % norm(f))
        fv = env.get(f.id)
        if fv is not None and fv[0] == "FUNC":
            return self.inline(fv[1], e, S)
        if fv is not None:
            raise _SFUnsup("call of the local value `%s`" % f.id)
        out = []
        for vs, S1 in self.evs(list(e.args) + [k.value for k in e.keywords], S):
            if vs and vs[-1] is _SF_RAISE:
                out.append((_SF_RAISE, S1))
                continue
            if f.id in ("list", "tuple") and len(vs) <= 1 and not e.keywords:
                if not vs:
                    out.append(self.new_list((), S1) if f.id == "list" else (("SEQ", ()), S1))
                    continue
                v = vs[0]
                if v[0] == "LIST":
                    segs = S1[2][v[1]]
                    out.append((("VIEWS", segs), S1) if f.id == "tuple" else self.new_list(segs, S1))
                elif v[0] == "GEN":
                    out.append((("VIEWS", (v[1],)), S1) if f.id == "tuple" else self.new_list((v[1],), S1))
                elif v[0] == "VIEWS" and f.id == "tuple":
                    out.append((v, S1))
                elif v[0] == "VIEWS":
                    out.append(self.new_list(v[1], S1))
                elif self.has_list(v):
                    raise _SFUnsup("%s() of %s" % (f.id, v))
                else:
                    out.append((v, S1))                 # same elements in the same order
                continue
            if any(self.has_list(v) or v[0] in ("GEN", "FUNC") for v in vs):
                raise _SFUnsup("the list of views / a generator / a local helper handed to `%s`" % f.id)
            out.append((("CALL", f.id, vs), S1))
        return out

    def inline(self, fn, e, S):
        a = fn.args
        if a.vararg or a.kwarg or a.kwonlyargs or a.posonlyargs or a.defaults or e.keywords or len(e.args) != len(a.args) or \
                rules.is_generator(fn) or fn.decorator_list:
            raise _SFUnsup("call of the local helper %s is not positional one to one" % fn.name)
        out = []
        for vs, S1 in self.evs(e.args, S):
            if vs and vs[-1] is _SF_RAISE:
                out.append((_SF_RAISE, S1))
                continue
            env, facts, heap = S1
            inner = dict(env)
            for p, v in zip(a.args, vs):
                inner[p.arg] = v
            for st, val, S2 in self.block(fn.body, (inner, facts, heap), depth=1):
                back = (env, S2[1], S2[2])      # the helper's locals end with the call (it rebinds none of the caller's: no nonlocal)
                if st == "raise":
                    out.append((_SF_RAISE, back))
                elif st == "return":
                    out.append((val, back))
                elif st == "next":
                    out.append((("C", None), back))
                else:
                    raise _SFUnsup("break / continue out of a helper")
        return out

    # -- statements: [(status, value, state)], status in next / return / raise / break / continue ------------------------------
    def block(self, stmts, S, depth=0):
        cur, done = [S], []
        for st in stmts:
            nxt = []
            for S1 in cur:
                for r in self.stmt(st, S1, depth):
                    if r[0] == "next":
                        nxt.append(r[2])
                    else:
                        done.append(r)
            cur = nxt
            if not cur:
                break
        return done + [("next", None, S1) for S1 in cur]

    def stmt(self, st, S, depth):
        self.tick()
        env, facts, heap = S
        if isinstance(st, ast.Pass) or isinstance(st, (ast.Import, ast.ImportFrom)) and not any((a.asname or a.name.split(".")[0]) in env for a in st.names):
            return [("next", None, S)]
        if isinstance(st, ast.Expr):
            if isinstance(st.value, ast.Constant):
                return [("next", None, S)]
            return [("raise", None, S1) if v is _SF_RAISE else ("next", None, S1) for v, S1 in self.ev(st.value, S)]
        if isinstance(st, (ast.Assign, ast.AnnAssign)):
            targets = st.targets if isinstance(st, ast.Assign) else [st.target]
            if st.value is None:
                return [("next", None, S)]
            if not all(isinstance(t, ast.Name) for t in targets):
                raise _SFUnsup("assignment to `%s`" % norm(targets[0]))
            out = []
            for v, S1 in self.ev(st.value, S):
                if v is _SF_RAISE:
                    out.append(("raise", None, S1))
                    continue
                env2 = dict(S1[0])
                for t in targets:
                    env2[t.id] = v
                out.append(("next", None, (env2, S1[1], S1[2])))
            return out
        if isinstance(st, ast.If):
            out = []
            for r, S1 in self.test(st.test, S):
                out += self.block(st.body if r else st.orelse, S1, depth)
            return out
        if isinstance(st, ast.Return):
            if st.value is None:
                return [("return", ("C", None), S)]
            return [("raise", None, S1) if v is _SF_RAISE else ("return", v, S1) for v, S1 in self.ev(st.value, S)]
        if isinstance(st, ast.Raise):
            return [("raise", None, S)]
        if isinstance(st, ast.Break):
            return [("break", None, S)]
        if isinstance(st, ast.Continue):
            return [("continue", None, S)]
        if isinstance(st, ast.FunctionDef):
            if any(isinstance(x, (ast.Nonlocal, ast.Global)) for x in ast.walk(st)):
                raise _SFUnsup("local helper with nonlocal / global")
            env2 = dict(env)
            env2[st.name] = ("FUNC", st)
            return [("next", None, (env2, facts, heap))]
        if isinstance(st, ast.For) and isinstance(st.target, ast.Name) and not st.orelse:
            return self.loop(st, S, depth)
        raise _SFUnsup("statement %s at line %s" % (type(st).__name__, getattr(st, "lineno", "?")))

    def loop(self, st, S, depth):
        out = []
        assigned = {x.id for b in st.body for x in ast.walk(b) if isinstance(x, ast.Name) and isinstance(x.ctx, ast.Store)} | {st.target.id}
        for src, S1 in self.ev(st.iter, S):
            if src is _SF_RAISE:
                out.append(("raise", None, S1))
                continue
            if self.has_list(src):
                raise _SFUnsup("loop over the list of views")
            env, facts, heap = S1
            n = next(self.ids)
            el = ("ELEM", src, n)
            env2 = dict(env)
            env2[st.target.id] = el
            vals, raised, skip, touched = [], [], False, set()
            for status, val, S2 in self.block(st.body, (env2, facts, heap), depth):
                if status == "raise":
                    raised.append(S2[1])
                    continue
                if status == "return":
                    raise _SFUnsup("return inside a loop")
                delta = {}
                for lid, segs in S2[2].items():
                    if lid in heap and segs != heap[lid]:
                        if segs[:len(heap[lid])] != heap[lid]:
                            raise _SFUnsup("list rewritten inside a loop")
                        delta[lid] = segs[len(heap[lid]):]
                touched |= set(delta)
                if status == "break":
                    skip = True         # the elements after this one are not visited
                    continue
                vals.append((delta, S2[1]))
            if len(touched) > 1:
                raise _SFUnsup("a loop that fills several lists")
            env3 = dict(env)
            for a in assigned:
                env3[a] = ("UNK", "bound inside the loop at line %s" % st.lineno)
            heap3 = heap
            if touched:
                lid = next(iter(touched))
                per_visit = []
                for delta, f in vals:
                    d = delta.get(lid, ())
                    if len(d) == 1 and d[0][0] == "ELT":
                        per_visit.append((d[0][1], f))
                    elif not d:
                        skip = True     # a visit that ends normally and adds nothing
                    else:
                        per_visit.append((("UNK", "several elements per visit"), f))
                heap3 = dict(heap)
                heap3[lid] = heap[lid] + (self.segment(src, el, per_visit, raised, skip),)
            out.append(("next", None, (env3, facts, heap3)))
        return out


def _split_fields_semantic(fi):
    """{key: (True / False / None, text)} for the four split_fields rules, from the symbolic walk; {} when the function leaves the fragment"""
    try:
        w = _SFWalk(fi)
        env = {p: ("P", p) for p in fi.params}
        outs = w.block([s for s in fi.node.body], (env, {}, {}))
    except _SFUnsup as e:
        return {}, "not followed: %s" % e
    except RecursionError:
        return {}, "not followed: recursion"
    data, req, getn = w.data, w.req, w.getn
    ALL = (("FIELDS", data), ("NAMES", data))
    rets = [(v, S[1]) for st, v, S in outs if st == "return"] + [(("C", None), S[1]) for st, v, S in outs if st == "next"]

    def nofields(f):
        return any(f.get(("ISNONE", c)) is True for c in ALL)

    def unrequested(f):        # fields is None (or empty) on this path
        return f.get(("ISNONE", req)) is True or f.get(("TRUTHY", req)) is False

    def views_of(v):
        """(segments, names term or None) of a returned value, else None"""
        if v[0] == "VIEWS":
            return v[1], None
        if v[0] == "SEQ" and len(v[1]) == 2 and v[1][0][0] == "VIEWS":
            return v[1][0][1], v[1][1]
        return None

    def tri(vs):
        return False if False in vs else None if (None in vs or not vs) else True

    order, shape, dflt, miss, seen = [], [], [], [], []
    for v, f in rets:
        if nofields(f):
            # an array without fields is its own single view
            plain = v == ("SEQ", (data,)) or (v[0] == "SEQ" and len(v[1]) == 2 and v[1][0] == ("SEQ", (data,)))
            shape.append(True if plain else None)
            continue
        vw = views_of(v)
        if vw is None:
            shape.append(False if v[0] in ("LIST", "GEN") or v == ("C", None) else None)
            order.append(None)
            continue
        segs, names = vw
        with_names = getn is not None and f.get(("TRUTHY", getn))
        if len(segs) != 1 or segs[0][0] != "LOOP":
            order.append(None)
            shape.append(None)
            continue
        _, src, elt, checked, skip = segs[0]
        el = next((x for x in _sf_subterms(elt) if x[0] == "ELEM" and x[1] == src), None)
        seen.append("data[<element>] for each element of %s" % _sf_show(src))
        # shape: tuple of the views; with getnames the names walked as well
        if names is None:
            shape.append(None if with_names else True)
        else:
            shape.append(True if (with_names is not False and names == src) else None)
        isstr = any(k[0] == "ISA" and k[1] == req and "str" in k[2] and t for k, t in f.items())
        good_elt = el is not None and elt == ("ITEM", data, el)
        if unrequested(f):
            dflt.append(True if (src in ALL and good_elt and not skip) else False if src == req else None)
        else:
            if f.get(("ISNONE", req)) is None and f.get(("TRUTHY", req)) is None:
                # no test of fields on this path: a None request reaches the walk as it is
                dflt.append(False if src == req else None)
            if skip or src in ALL:
                order.append(False)
            elif good_elt and (src == req or (src == ("SEQ", (req,)) and isstr)):
                order.append(True)
            else:
                order.append(None)
            miss.append(True if checked else None)
    text = " [decided on the returned terms: %s]" % "; ".join(sorted(set(seen))) if seen else ""
    res = {
        "::one-view-per-field-in-order": tri(order),
        "::returns-tuple-of-views": tri(shape) if (tri(order) is not None or tri(shape) is False) else None,
        "::default-all-fields": tri(dflt),
        "::missing-field-raises": tri(miss) if tri(order) else None,
    }
    return res, text


def _sf_subterms(t):
    yield t
    for x in t:
        if isinstance(x, tuple):
            for y in _sf_subterms(x):
                yield y


def _sf_show(t):
    if not isinstance(t, tuple) or not t:
        return repr(t)
    if t[0] == "P":
        return t[1]
    if t[0] in ("FIELDS", "NAMES"):
        return "%s.dtype.%s" % (_sf_show(t[1]), t[0].lower())
    if t[0] == "SEQ":
        return "[%s]" % ", ".join(_sf_show(x) for x in t[1])
    return "%s(%s)" % (t[0], ", ".join(_sf_show(x) for x in t[1:]))


class _NoRepo(object):
    """stand-in when check_split_fields is used without a repository object: only names of the function's own module resolve"""

    def has(self, q):
        return False

    def func(self, q):
        raise AnalysisError("anchor %s not found" % q)

    def resolve_name(self, mod, dotted):
        return dotted


def check_split_fields(chk, fi, rule, repo=None, sims=None, sem_prefix=""):
    """spec of a split_fields copy (also used by C07): one view per requested field, in request order, as a tuple; all fields by
    default; a missing field raises.  Decided on the terms every return path hands out (symbolic walk over all paths,
    _split_fields_semantic); an instance the walk does not decide falls back to the statement template.
    sem_prefix: key prefix of the instances decided by the walk (C02 lists 'R02.6a::sem::' among its layout-independent rules)."""
    if sims is not None:
        st, res = sims.get("split:" + fi.qualname)
    else:
        try:
            st, res = "ok", _sim_split(repo or _NoRepo(), fi)
        except _Unsup as e:
            st, res = "unsup", str(e)
        except AnalysisError:
            raise
        except Exception as e:
            st, res = "unsup", "evaluator: %s: %s" % (type(e).__name__, e)
    if st == "ok":
        scope = "fields = None, a name, lists with and without repeats, a tuple, unknown names, getnames, an array without fields"
        for key, facets, msg in (
                ("::one-view-per-field-in-order", ["order"], "one `data[field]` view per requested field, in request order, none skipped"),
                ("::returns-tuple-of-views", ["tuple", "names"], "returns a tuple of the views (with getnames: the tuple and the names)"),
                ("::default-all-fields", ["default"], "fields=None selects every field of the dtype in dtype order; an array without fields gives (data,)"),
                ("::missing-field-raises", ["missing"], "a requested field that does not exist raises")):
            cex = [c for f in facets for c in res[f]]
            chk.ob(rule, "eval::" + fi.qualname + key, not cex, fi.where(),
                   msg + (" -- counterexample: " + "; ".join(cex[:3]) if cex else " [evaluated: %s]" % scope))
        return
    sem, text = _split_fields_semantic(fi)
    decided = set()
    for key, msg in (("::one-view-per-field-in-order", "one `data[field]` view per requested field, in request order, none skipped"),
                     ("::returns-tuple-of-views", "returns a tuple of the views (with getnames: the tuple and the names walked)"),
                     ("::default-all-fields", "fields=None selects every field of the dtype in dtype order"),
                     ("::missing-field-raises", "a requested field that does not exist raises")):
        v = sem.get(key)
        if v is not None:
            decided.add(key)
            chk.ob(rule, sem_prefix + fi.qualname + key, v, fi.where(), msg + text)
    if len(decided) < 4:
        _split_fields_structural(chk, fi, rule, skip=decided)


class _Only(object):
    """forwards the rule instances whose key does not end in one of `skip` (those were decided elsewhere)"""

    def __init__(self, chk, skip):
        self.chk, self.skip = chk, tuple(skip)

    def ob(self, rule, key, ok, where="", msg="", **kw):
        if self.skip and key.endswith(self.skip):
            return bool(ok)
        return self.chk.ob(rule, key, ok, where, msg, **kw)


def _split_fields_structural(chk, fi, rule, skip=()):
    chk = _Only(chk, skip)
    fn = fi.node
    loops = [x for x in walk_no_nested(fn) if isinstance(x, ast.For)]
    ok = False
    lst = None
    for lp in loops:
        if norm(lp.iter) == "fields":
            v = norm(lp.target)
            for b in lp.body:
                if isinstance(b, ast.Expr) and isinstance(b.value, ast.Call) and call_name(b.value) == "append" \
                        and b.value.args and norm(b.value.args[0]) == "data[%s]" % v:
                    # the append is unconditional within the loop body
                    ok = True
                    lst = norm(b.value.func.value)
            # nothing in the loop skips an element silently
            for x in ast.walk(lp):
                if isinstance(x, (ast.Continue, ast.Break)):
                    ok = False
    chk.ob(rule, fi.qualname + "::one-view-per-field-in-order", ok, fi.where(),
           "one `data[field]` view is appended per requested field, in request order, none skipped")
    rets = [x for x in walk_no_nested(fn) if isinstance(x, ast.Return) and x.value is not None]
    vals = set()
    env = {norm(x.targets[0]): norm(x.value) for x in walk_no_nested(fn) if isinstance(x, ast.Assign)}
    for r in rets:
        e = r.value.elts[0] if isinstance(r.value, ast.Tuple) and len(r.value.elts) == 2 and norm(r.value.elts[1]) == "fields" else r.value
        t = norm(e)
        vals.add(env.get(t, t))
    chk.ob(rule, fi.qualname + "::returns-tuple-of-views", lst is not None and vals <= {"tuple(%s)" % lst, "(data,)"} and ("tuple(%s)" % lst) in vals,
           fi.where(), "returns tuple(<the list of views>) (returns: %s)" % sorted(vals))
    # default: all fields of the dtype
    dflt = [x for x in walk_no_nested(fn) if isinstance(x, ast.Assign) and norm(x.targets[0]) == "fields"]
    okd = any(env.get(norm(x.value), norm(x.value)) in ("data.dtype.fields", "data.dtype.names") for x in dflt)
    chk.ob(rule, fi.qualname + "::default-all-fields", okd, fi.where(), "fields=None selects every field of the dtype in dtype order")
    # missing field raises
    cfg = cfg_of(fi)
    okr = any("not in" in t and lab == "T" for n in rules.raise_nodes(cfg) for t, lab in rules.controlling_tests(cfg.view(), n))
    chk.ob(rule, fi.qualname + "::missing-field-raises", okr, fi.where(), "a requested field that does not exist raises")


# ---------------------------------------------------------------------------
def r02_7(chk, cfun, S):
    """cursor pairing in the C++ skip/read loops, evaluated over the file-cursor model"""
    for fname, kind, sim in (("Records::read_text_columns", "text", "c/text"), ("Records::read_binary_columns", "bin", "c/bin")):
        fn = cfun.get(fname)
        if fn is None:
            raise AnalysisError("C++ anchor %s missing" % fname)
        chk.analysed_unit(fname)
        w = _cwhere(fn)
        at = sim + "@at-data"
        ok = True
        ok &= _ev(chk, S, at, ["rows"], "R02.7b", "eval::" + fname + "::wanted-rows-are-read", w,
                  "output row i receives file row rows[i] (or i when all rows are read): rows are skipped exactly up to the wanted row and "
                  "the rest of each row is passed over", scope="c/columns")
        ok &= _ev(chk, S, at, ["cols"], "R02.7e", "eval::" + fname + "::wanted-columns-are-read", w,
                  "within a row each wanted column, and only it, is transferred from its place in the file row", scope="c/columns")
        ok &= _ev(chk, S, at, ["dest"], "R02.7f", "eval::" + fname + "::read-into-buffer", w,
                  "every byte of the output array is written exactly from the selection, the output pointer advancing by each column's size", scope="c/columns")
        if ok:
            st, res = S.get(sim)
            same = st == "ok" and res == S.get(at)[1]
            chk.ob("R02.7a", "eval::" + fname + "::starts-at-data-offset", True if same else (False if st == "ok" else None), w,
                   "the reads do not depend on where the file cursor was on entry: they start at the data offset%s"
                   % ("" if same else " -- with the cursor elsewhere on entry: %s" % (res if st != "ok" else [c for k in res for c in res[k]][:2])))
        else:
            _r02_7_columns_structural(chk, fname, fn, kind)
    # slice reader: skip to row1, then read nrows2read rows stepping by `step`
    fn = cfun.get("Records::read_binary_slice")
    if fn is None:
        raise AnalysisError("C++ anchor Records::read_binary_slice missing")
    chk.analysed_unit("Records::read_binary_slice")
    w = _cwhere(fn)
    at = "c/slice@at-data"
    cur = None
    for key, facets, msg in (("skip-to-first-row", ["first"], "the first row transferred by the slice reader is row1"),
                             ("stride", ["stride"], "the i-th row transferred is row1 + i*step"),
                             ("row-sized-reads", ["size"], "exactly nrows whole rows are transferred into the output array")):
        if not _ev(chk, S, at, facets, "R02.7i", "Records::read_binary_slice::" + key, w, msg, scope="c/slice"):
            if cur is None:
                cur = _r02_7i_cursor(fn)
            if _r02_7i_structural(fn, key) and not (cur[0] is not None and not cur[0][key][0]):
                chk.ob("R02.7i", "Records::read_binary_slice::" + key, True, w, msg + " [recognised structurally]")
            elif cur[0] is not None:
                chk.ob("R02.7i", "Records::read_binary_slice::" + key, cur[0][key][0], w,
                       msg + " [file cursor followed symbolically along every path: %s]" % cur[0][key][1])
            elif key == "stride" and _r02_7i_absolute_seek(fn) is not None:
                okabs, found = _r02_7i_absolute_seek(fn)
                chk.ob("R02.7i", "Records::read_binary_slice::" + key, okabs, w,
                       msg + ": a row positioned absolutely inside the loop must be at offset + (row1 + i*step)*rowsize (found %s)" % found)
            else:
                _unrec(chk, S, at, "R02.7i", "Records::read_binary_slice::" + key, w, msg)
    st, res = S.get("c/slice")
    if S.get(at)[0] != "ok":
        ccfg = cfront.CCFG(fn)
        view = ccfg.view()
        gos = [n for n in ccfg.nodes for c in cfront.node_calls(n) if cfront.callee_name(c) == "goto_offset"]
        frn = [n for n in ccfg.nodes for c in cfront.node_calls(n) if cfront.callee_name(c) in ("fread", "skip_binary_rows")]
        chk.ob("R02.7a", "Records::read_binary_slice::starts-at-data-offset", bool(gos) and all(view.dominates(gos[0], n) for n in frn),
               w, "goto_offset() dominates every read/skip of the slice reader")
    else:
        same = st == "ok" and res == S.get(at)[1]
        chk.ob("R02.7a", "eval::Records::read_binary_slice::starts-at-data-offset", True if same else (False if st == "ok" else None), w,
               "the slice reader does not depend on where the file cursor was on entry%s"
               % ("" if same else " -- with the cursor elsewhere on entry: %s" % (res if st != "ok" else [c for k in res for c in res[k]][:2])))
    # the skip helpers move by whole rows
    done = True
    for name, msg in (("skip_binary_rows", "skipping n binary rows moves the cursor n*rowsize bytes forward (n <= 0: not at all)"),
                      ("skip_text_rows", "skipping n text rows consumes n newline characters (n <= 0: nothing)"),
                      ("skip_rows", "skip_rows(current, wanted) moves the cursor wanted-current rows forward for both file types")):
        fn = cfun.get("Records::" + name)
        if fn is None:
            continue        # inlined: covered by the reader evaluations above
        done &= _ev(chk, S, "c/skips", [name], "R02.7j", "eval::Records::%s::distance" % name, _cwhere(fn), msg)
    sem = _r02_7j_semantic(chk, cfun)
    if not done:
        _r02_7j_structural(chk, cfun, sem)
    _r02_7l_index_guard(chk, cfun)
    try:
        _r02_7m_skip_like_read(chk, cfun)
    except AnalysisError:
        raise
    except Exception as e:              # a defect of the analysis must never become a verdict
        chk.ob("R02.7m", "text-field-readers", None, CPP, "analysis failed: %s: %s" % (type(e).__name__, e))
    try:
        _r02_7k_binary_movers(chk, cfun)
    except AnalysisError:
        raise
    except Exception as e:              # a defect of the analysis must never become a verdict
        chk.ob("R02.7k", "binary-skip-helpers", None, CPP, "analysis failed: %s: %s" % (type(e).__name__, e))


# ---------------------------------------------------------------------------
# R02.7m: passing over a field of a text row moves the file cursor exactly as reading it does.
#
# A per-field text reader (Records::read_from_text_column and the helpers it hands its destination pointer to) is called with a NULL
# destination for the fields a column subset does not want.  Where a field ends in the file is decided by its content (scanf
# conversions, delimiters, the newline after the last field), so the skip must find the end of the field the same way the read does.
# Decided over the C++ CFG of each such function, once under "destination == NULL" and once under "destination != NULL": a forward
# constant propagation of the truthiness of the destination parameter and of the locals assigned only literals / the parameter /
# addresses (three-valued; ! && || == != against 0 / NULL / true are evaluated, anything else is followed both ways) prunes the
# infeasible edges; the stream-consuming call sites (getc family, scanf family, fread, fgets / getline, seeks, and calls of functions
# of the unit that reach one) reachable in the two modes are compared.  A site reachable in one mode only is accepted when the other
# mode has a site of its own with the same callee and the same arguments apart from the destination (the code was duplicated per
# mode).  Otherwise: a content-dependent consumer (scanf family, line readers, a character read that feeds the condition of a loop it
# is in) that only one mode executes is a violation -- the two modes find different field ends --; a fixed-distance consumer (seek,
# fread, counted character loop) that only one mode executes gives no verdict (its distance would have to be proved equal).
# ---------------------------------------------------------------------------
_FP_GETC = ("fgetc", "getc", "getc_unlocked", "fgetc_unlocked", "_IO_getc")
_FP_CONTENT = ("fscanf", "vfscanf", "fgets", "fgets_unlocked", "getline", "getdelim")
_FP_FIXED = ("fread", "fread_unlocked", "ungetc", "fseek", "fseeko", "fseeko64", "_fseeki64", "myfseeko", "rewind", "fsetpos")
_FP_CONSUME = _FP_GETC + _FP_CONTENT + _FP_FIXED


def _fp_truth(x, state):
    """three-valued truthiness of a C expression over the tracked variables"""
    x = cfront.strip(x)
    k = x.get("kind")
    inner = [c for c in (x.get("inner", []) or []) if isinstance(c, dict) and c.get("kind")]
    if k == "IntegerLiteral":
        try:
            return int(x.get("value")) != 0
        except (TypeError, ValueError):
            return None
    if k == "CXXBoolLiteralExpr":
        return bool(x.get("value"))
    if k in ("GNUNullExpr", "CXXNullPtrLiteralExpr"):
        return False
    if k == "DeclRefExpr":
        return state.get(x.get("referencedDecl", {}).get("name"))
    if k == "UnaryOperator" and inner:
        if x.get("opcode") == "!":
            v = _fp_truth(inner[0], state)
            return None if v is None else (not v)
        if x.get("opcode") == "&":
            return True
        return None
    if k == "BinaryOperator" and len(inner) == 2:
        op = x.get("opcode")
        if op in ("&&", "||"):
            a, b = _fp_truth(inner[0], state), _fp_truth(inner[1], state)
            if op == "&&":
                return False if (a is False or b is False) else (True if (a is True and b is True) else None)
            return True if (a is True or b is True) else (False if (a is False and b is False) else None)
        if op in ("==", "!="):
            for lit, other in ((inner[0], inner[1]), (inner[1], inner[0])):
                ls = cfront.strip(lit)
                if ls.get("kind") in ("IntegerLiteral", "CXXBoolLiteralExpr", "GNUNullExpr", "CXXNullPtrLiteralExpr"):
                    lv = _fp_truth(ls, {})
                    if ls.get("kind") == "IntegerLiteral" and lv:
                        return None                 # compared with a non-zero number: not a truthiness test
                    v = _fp_truth(other, state)
                    if v is None or lv is None:
                        return None
                    return (v == lv) if op == "==" else (v != lv)
        return None
    return None


def _fp_transfer(n, state):
    if not isinstance(n.c, dict):
        return state
    out = None
    for x in cfront.walk(n.c):
        k = x.get("kind")
        nm = val = None
        if k == "VarDecl" and x.get("name"):
            ini = [y for y in x.get("inner", []) if isinstance(y, dict) and y.get("kind")]
            nm = x["name"]
            val = _fp_truth(ini[-1], state) if (ini and "init" in x) else None
        elif k == "BinaryOperator" and x.get("opcode") == "=":
            l = cfront.strip(x["inner"][0])
            if l.get("kind") == "DeclRefExpr":
                nm = l.get("referencedDecl", {}).get("name")
                val = _fp_truth(x["inner"][1], state)
        elif k == "CompoundAssignOperator" or (k == "UnaryOperator" and x.get("opcode") in ("++", "--")):
            l = cfront.strip(x["inner"][0])
            if l.get("kind") == "DeclRefExpr":
                nm = l.get("referencedDecl", {}).get("name")
                ptr = "*" in (l.get("type", {}).get("qualType") or "")
                val = state.get(nm) if ptr else None     # stepping a pointer keeps it (non-)null; a stepped number is not followed
        elif k == "UnaryOperator" and x.get("opcode") == "&":
            l = cfront.strip(x["inner"][0])
            if l.get("kind") == "DeclRefExpr" and l.get("referencedDecl", {}).get("name") in state:
                nm, val = l["referencedDecl"]["name"], None     # address taken: may be written through
        if nm is not None:
            if out is None:
                out = dict(state)
            out[nm] = val
    return state if out is None else out


def _fp_reach(ccfg, param, nonnull):
    """ids of the CFG nodes reachable when the destination parameter is (non-)NULL on entry"""
    states = {ccfg.entry.id: {param: nonnull}}
    todo = [ccfg.entry.id]
    while todo:
        i = todo.pop()
        n = ccfg.node(i)
        st = states[i]
        v = None
        if n.kind in ("branch", "loop") and isinstance(n.c, dict) and n.c.get("kind"):
            v = _fp_truth(n.c, st)
        after = _fp_transfer(n, st)
        for j in ccfg.g.successors(i):
            labs = ccfg.g[i][j]["labels"]
            if v is True and labs <= {"F"}:
                continue
            if v is False and labs <= {"T"}:
                continue
            old = states.get(j)
            if old is None:
                new = dict(after)
            else:
                new = {k: (old[k] if (k in after and after[k] == old[k]) else None) for k in old}
                for k in after:
                    if k not in new:
                        new[k] = None
            if old is None or new != old:
                states[j] = new
                todo.append(j)
    return set(states)


def _fp_loops_of(fn):
    """id(call expression) -> list of the conditions of the loops the call is inside (or is the condition of)"""
    out = {}

    def visit(x, conds):
        if not isinstance(x, dict):
            return
        k = x.get("kind")
        inner = x.get("inner", []) or []
        if k in ("CallExpr", "CXXMemberCallExpr"):
            out[id(x)] = list(conds)
        if k == "ForStmt":
            parts = (inner + [{}] * 5)[:5]
            visit(parts[0], conds)
            c2 = conds + [parts[2]] if isinstance(parts[2], dict) and parts[2].get("kind") else conds + [{}]
            for p in parts[1:]:
                visit(p, c2)
            return
        if k == "WhileStmt" and inner:
            c2 = conds + [inner[0]]
            for p in inner:
                visit(p, c2)
            return
        if k == "DoStmt" and len(inner) >= 2:
            c2 = conds + [inner[1]]
            for p in inner:
                visit(p, c2)
            return
        for c in inner:
            visit(c, conds)

    visit(cfront.body_of(fn), [])
    return out


def _fp_content_dependent(fn, call, loops):
    """the number of characters the call consumes (counting the rounds of the loops it is in) depends on what is in the file"""
    nm = cfront.callee_name(call)
    if nm in _FP_CONTENT:
        return True
    if nm not in _FP_GETC:
        return False
    holders = set()
    for x in cfront.walk(cfront.body_of(fn)):
        k = x.get("kind")
        if k == "VarDecl" and x.get("name") and any(y is call for y in cfront.walk(x)):
            holders.add(x["name"])
        elif k == "BinaryOperator" and x.get("opcode") == "=" and any(y is call for y in cfront.walk(x["inner"][1])):
            l = cfront.strip(x["inner"][0])
            if l.get("kind") == "DeclRefExpr":
                holders.add(l.get("referencedDecl", {}).get("name"))
    for cond in loops.get(id(call), []):
        for y in cfront.walk(cond):
            if y is call or (y.get("kind") == "DeclRefExpr" and y.get("referencedDecl", {}).get("name") in holders):
                return True
    return False


def _r02_7m_skip_like_read(chk, cfun):
    root = cfun.get("Records::read_from_text_column")
    if root is None:
        chk.ob("R02.7m", "Records::read_from_text_column::skip-moves-like-read", None, CPP,
               "the per-field text reader Records::read_from_text_column was not found (inlined or renamed): where the skipped fields "
               "are passed over is not recognised")
        return
    cg = cfront.call_graph(cfun)
    movers = cfront.reaching_functions(cg, _FP_CONSUME)

    def dest_param(fn):
        ps = [c for c in fn.get("inner", []) if c.get("kind") == "ParmVarDecl" and c.get("name")
              and (c.get("type", {}).get("qualType") or "").replace("const ", "") in ("char *", "void *", "unsigned char *")]
        return ps[0]["name"] if len(ps) == 1 else None

    todo, units = [("Records::read_from_text_column", root)], []
    seen = set()
    while todo:
        name, fn = todo.pop()
        if id(fn) in seen or len(seen) > 12:
            continue
        seen.add(id(fn))
        p = dest_param(fn)
        if p is None:
            continue
        units.append((name, fn, p))
        for c in cfront.calls_in(cfront.body_of(fn)):
            cn = cfront.callee_name(c)
            callee = cfun.get("Records::%s" % cn) or (cfun.get(cn) if cn and "::" not in cn else None)
            if callee is not None and any(cfront.render(cfront.strip(a)) == p or
                                          any(y.get("kind") == "DeclRefExpr" and y.get("referencedDecl", {}).get("name") == p for y in cfront.walk(a))
                                          for a in cfront.call_args(c)):
                todo.append(("Records::%s" % cn if cfun.get("Records::%s" % cn) is callee else cn, callee))
    if not units:
        chk.ob("R02.7m", "Records::read_from_text_column::skip-moves-like-read", None, _cwhere(root),
               "Records::read_from_text_column has no single destination pointer parameter: skip / read modes not recognised")
        return
    for name, fn, p in units:
        chk.analysed_unit(name + "[skip|read]")
        ccfg = cfront.CCFG(fn)
        loops = _fp_loops_of(fn)
        reach = {mode: _fp_reach(ccfg, p, mode == "read") for mode in ("skip", "read")}

        def sites(mode):
            out = {}
            for i in reach[mode]:
                for c in cfront.node_calls(ccfg.node(i)):
                    cn = cfront.callee_name(c)
                    if cn in _FP_CONSUME or (cn in movers and (cfun.get("Records::%s" % cn) is not None or cfun.get(cn) is not None)):
                        out[id(c)] = c
            return out

        def sig(c):
            args = []
            for a in cfront.call_args(c):
                ts = {(a.get("type", {}).get("qualType") or ""), (cfront.strip(a).get("type", {}).get("qualType") or "")}
                args.append("_" if ts & {"char *", "void *", "unsigned char *"} else cfront.render(a))
            return (cfront.callee_name(c), tuple(args))

        ss, rs = sites("skip"), sites("read")
        only = {"skip": [c for i, c in ss.items() if i not in rs], "read": [c for i, c in rs.items() if i not in ss]}
        # duplicated per mode: pair the sites of equal signature
        rest_read = list(only["read"])
        unpaired = []
        for c in only["skip"]:
            tw = [d for d in rest_read if sig(d) == sig(c)]
            if tw:
                rest_read.remove(tw[0])
            else:
                unpaired.append(("skipped (destination NULL)", "reading", c))
        unpaired += [("read (destination given)", "skipping", c) for c in rest_read]
        key = name + "::skip-moves-like-read"
        if not unpaired:
            chk.ob("R02.7m", key, True, _cwhere(fn),
                   "the stream-consuming calls executed when the field is passed over (`%s` NULL) are those executed when it is read "
                   "(%d site(s) in common, %d duplicated per mode)" % (p, len(set(ss) & set(rs)), len(only["skip"])))
            continue
        hard = [u for u in unpaired if _fp_content_dependent(fn, u[2], loops)]
        when, other, c = (hard or unpaired)[0]
        chk.ob("R02.7m", key, False if hard else None, "%s:%s" % (CPP, c.get("line") or fn.get("line", 0)) if (c.get("line") or fn.get("line")) else CPP,
               "`%s` is executed only when the field is %s and the %s path has no matching call%s: passing over a field does not move "
               "the file cursor the way reading it does (where a field ends -- at the delimiter, or at the newline after the last "
               "field of a row -- is found differently), so the fields after a skipped one are read from the wrong place"
               % (cfront.render(c), when, other,
                  "; how far it moves the cursor depends on the characters it meets" if hard else
                  " (a fixed-distance move: its equality with the other path's consumption is not decided)"))


# ---------------------------------------------------------------------------
# R02.7l: a column reader may take the loop index itself as the wanted file row / column (instead of element `index` of the row /
# column request it was given) only when the request is everything: <number of requested rows> == <rows in the file> (the requests
# are distinct and in range) or the request is None.  Decided over the C++ CFG: the branch outcomes that control the assignment
# `wanted = index` are taken apart (! && ||), bool locals are followed to the definitions that reach the test (a literal that gives
# the flag the tested value is justified by the branches that control it, any other value by what it says), and each atom is a
# comparison of scalars.  A guard that is understood completely and does not imply the equality is a violation; a guard with calls,
# members used as flags, or order comparisons of the two counts gives no verdict.
# ---------------------------------------------------------------------------
_COL_SINKS = ("read_from_text_column", "read_from_binary_column", "skip_rows", "skip_ascii_col_range", "skip_binary_rows", "skip_text_rows")
_SCALAR_KINDS = ("DeclRefExpr", "MemberExpr", "IntegerLiteral", "CXXBoolLiteralExpr", "CXXThisExpr", "BinaryOperator", "UnaryOperator",
                 "ImplicitCastExpr", "ParenExpr", "CStyleCastExpr", "CXXStaticCastExpr", "CXXFunctionalCastExpr", "ConstantExpr")


def _t3_any(rs):
    rs = list(rs)
    return True if any(r is True for r in rs) else (None if any(r is None for r in rs) else False)


def _t3_all(rs):
    rs = list(rs)
    return False if any(r is False for r in rs) else (None if any(r is None for r in rs) else True)


class _IndexGuard(object):
    def __init__(self, fn, cfun):
        self.fn = fn
        self.cfun = cfun
        self.cfg = cfront.CCFG(fn)
        self.view = self.cfg.view()
        self.IN, _ = self.view.reaching_defs()
        self.params = cfront.params_of(fn)
        self.escaped = set()
        for x in cfront.walk(cfront.body_of(fn)):
            if x.get("kind") == "UnaryOperator" and x.get("opcode") == "&":
                o = cfront.strip(x["inner"][0])
                if o.get("kind") == "DeclRefExpr":
                    self.escaped.add(cfront.render(o))
            if x.get("kind") in ("CallExpr", "CXXMemberCallExpr", "CXXConstructExpr"):
                for a in (x.get("inner", []) or [])[1:]:
                    if isinstance(a, dict) and a.get("kind") == "DeclRefExpr":
                        self.escaped.add(cfront.render(a))          # bound to a reference parameter
        self.member_stores = set()
        for x in cfront.walk(cfront.body_of(fn)):
            if x.get("kind") in ("BinaryOperator", "CompoundAssignOperator") and (x.get("opcode") == "=" or x.get("kind") == "CompoundAssignOperator") \
                    or (x.get("kind") == "UnaryOperator" and x.get("opcode") in ("++", "--")):
                l = cfront.strip(x["inner"][0])
                if l.get("kind") == "MemberExpr":
                    self.member_stores.add(l.get("name"))

    # -- small helpers -------------------------------------------------------------------------------------------------------
    def in_loop(self, n):
        return any(b.kind == "loop" for b, _ in self.view.controlling_branches(n))

    def defs_of(self, name):
        """[(node, rhs or None)] for every definition of local `name`"""
        out = []
        for n in self.cfg.nodes:
            if not isinstance(n.c, dict):
                continue
            for x in cfront.walk(n.c):
                k = x.get("kind")
                if k == "VarDecl" and x.get("name") == name:
                    ini = [y for y in x.get("inner", []) or [] if isinstance(y, dict) and y.get("kind")]
                    if ini and "init" in x:
                        out.append((n, ini[-1]))
                elif k == "BinaryOperator" and x.get("opcode") == "=" and cfront.render(cfront.strip(x["inner"][0])) == name \
                        and cfront.strip(x["inner"][0]).get("kind") == "DeclRefExpr":
                    out.append((n, x["inner"][1]))
                elif (k == "CompoundAssignOperator" or (k == "UnaryOperator" and x.get("opcode") in ("++", "--"))) \
                        and cfront.strip(x["inner"][0]).get("kind") == "DeclRefExpr" and cfront.render(cfront.strip(x["inner"][0])) == name:
                    out.append((n, None))
        return out

    def scalar(self, e):
        for x in cfront.walk(e):
            if x.get("kind") not in _SCALAR_KINDS:
                return False
            if x.get("kind") == "BinaryOperator" and x.get("opcode") not in ("+", "-", "*"):
                return False
            if x.get("kind") == "UnaryOperator" and x.get("opcode") not in ("-", "+", "&"):
                return False
            if x.get("kind") == "MemberExpr" and x.get("name") in self.member_stores:
                return False
        return True

    # -- the implication ----------------------------------------------------------------------------------------------------
    def is_all_fact(self, a, b):
        ra, rb = cfront.render(cfront.strip(a)), cfront.render(cfront.strip(b))
        for x, y in ((ra, rb), (rb, ra)):
            if x == self.bound and y in self.totals:
                return True
            if x == self.req and "_Py_NoneStruct" in y:
                return True
        return False

    def implies(self, e, truth, at, depth=0):
        """does expression e having the truth value `truth` (evaluated at node `at`) imply that the request is everything?"""
        e = cfront.strip(e)
        k = e.get("kind")
        inner = [c for c in (e.get("inner", []) or []) if isinstance(c, dict) and c.get("kind")]
        if k == "UnaryOperator" and e.get("opcode") == "!":
            return self.implies(inner[0], not truth, at, depth)
        if k == "BinaryOperator" and e.get("opcode") in ("&&", "||"):
            parts = [self.implies(x, truth, at, depth) for x in inner]
            return _t3_any(parts) if (e["opcode"] == "&&") == truth else _t3_all(parts)
        if k == "BinaryOperator" and e.get("opcode") in ("==", "!="):
            if not (self.scalar(inner[0]) and self.scalar(inner[1])):
                return None
            if (e["opcode"] == "==") == truth:
                return self.is_all_fact(inner[0], inner[1])
            return False
        if k == "BinaryOperator" and e.get("opcode") in ("<", ">", "<=", ">="):
            if not (self.scalar(inner[0]) and self.scalar(inner[1])):
                return None
            names = {cfront.render(cfront.strip(inner[0])), cfront.render(cfront.strip(inner[1]))}
            if self.bound in names and names & self.totals:
                return None         # count >= total means count == total for distinct in-range requests: not decided here
            return False
        if k in ("CXXBoolLiteralExpr", "IntegerLiteral"):
            val = bool(e.get("value")) if k == "CXXBoolLiteralExpr" else str(e.get("value")) not in ("0",)
            return val != truth         # a test that cannot have this outcome implies anything
        if k == "DeclRefExpr" and e.get("referencedDecl", {}).get("kind") == "VarDecl" and e.get("type", {}).get("qualType") in ("bool", "int"):
            return self.flag(cfront.render(e), truth, at, depth + 1)
        return None

    def flag(self, name, truth, at, depth):
        if depth > 4 or name in self.escaped:
            return None
        reach = self.IN.get(at.id, {}).get(name)
        if not reach or self.cfg.entry.id in reach:
            return None
        defs = self.defs_of(name)
        out = []
        for d in sorted(reach):
            dn = self.cfg.node(d)
            here = [rhs for n, rhs in defs if n.id == d]
            if len(here) != 1 or here[0] is None or self.in_loop(dn):
                return None
            rhs = cfront.strip(here[0])
            if rhs.get("kind") in ("CXXBoolLiteralExpr", "IntegerLiteral"):
                val = bool(rhs.get("value")) if rhs["kind"] == "CXXBoolLiteralExpr" else str(rhs.get("value")) not in ("0",)
                if val != truth:
                    continue            # this definition cannot give the flag the tested value
                out.append(self.control(dn, depth))
            else:
                out.append(_t3_any([self.implies(rhs, truth, dn, depth), self.control(dn, depth)]))
        return _t3_all(out) if out else True

    def control(self, n, depth=0):
        rs = []
        for b, lab in self.view.controlling_branches(n):
            if b.c is None or lab not in ("T", "F"):
                continue
            rs.append(self.implies(b.c, lab == "T", b, depth))
        return _t3_any(rs) if rs else False

    def use_guards(self, n, var):
        """for every node that uses `var` while the definition at n may still be its value: the (branch, label) outcomes that every
        path from n to that use which does not redefine `var` takes"""
        g = self.cfg.g
        defs = {d.id for d, _ in self.defs_of(var)}
        uses = [u for u in self.cfg.nodes if u.id in self.IN and var in self.cfg.defs_uses(u)[1] and n.id in self.IN[u.id].get(var, ())]
        if not uses:
            return []

        def reach(target, cut=None):
            seen, todo = set(), [j for j in g.successors(n.id)]
            while todo:
                i = todo.pop()
                if i in seen:
                    continue
                seen.add(i)
                if i == target:
                    return True
                if i in defs:
                    continue            # the variable is given another value here
                for j in g.successors(i):
                    if cut is not None and i == cut[0] and cut[1] in g[i][j]["labels"]:
                        continue
                    todo.append(j)
            return False

        out = []
        for u in uses:
            gs = []
            for b in self.cfg.nodes:
                if b.kind != "branch" or b.c is None:
                    continue
                labs = [l for j in g.successors(b.id) for l in g[b.id][j]["labels"]]
                if sorted(labs) != ["F", "T"]:
                    continue
                for lab in ("T", "F"):
                    if reach(u.id) and not reach(u.id, (b.id, lab)):
                        gs.append((b, lab))
            out.append(gs)
        return out

    # -- the instances ------------------------------------------------------------------------------------------------------
    def instances(self):
        """[(key, node, ok, text)]"""
        out = []
        roles = {}
        if len(self.params) == 3:
            roles = {self.params[1]: ("column", "mNfields"), self.params[2]: ("row", "mNrows")}
        loops = {}
        for h in self.cfg.nodes:
            if h.kind == "loop" and h.label == "for" and isinstance(h.c, dict):
                c = cfront.strip(h.c)
                if c.get("kind") == "BinaryOperator" and c.get("opcode") == "<":
                    i, b = cfront.strip(c["inner"][0]), cfront.strip(c["inner"][1])
                    if i.get("kind") == "DeclRefExpr" and b.get("kind") == "DeclRefExpr":
                        loops[cfront.render(i)] = (h, cfront.render(b))
        sinks = set()
        for c in cfront.calls_in(cfront.body_of(self.fn)):
            if cfront.callee_name(c) in _COL_SINKS:
                for a in cfront.call_args(c):
                    a = cfront.strip(a)
                    if a.get("kind") == "DeclRefExpr":
                        sinks.add(cfront.render(a))
        for n in self.cfg.nodes:
            if n.kind != "stmt" or not isinstance(n.c, dict):
                continue
            for x in cfront.walk(n.c):
                tgt = rhs = None
                if x.get("kind") == "BinaryOperator" and x.get("opcode") == "=" and cfront.strip(x["inner"][0]).get("kind") == "DeclRefExpr":
                    tgt, rhs = cfront.render(cfront.strip(x["inner"][0])), x["inner"][1]
                elif x.get("kind") == "VarDecl" and "init" in x:
                    ini = [y for y in x.get("inner", []) or [] if isinstance(y, dict) and y.get("kind")]
                    if ini:
                        tgt, rhs = x.get("name"), ini[-1]
                if tgt is None or tgt not in sinks:
                    continue
                arms = [(cfront.strip(rhs), None, None)]
                r0 = cfront.strip(rhs)
                if r0.get("kind") == "ConditionalOperator":
                    ci = [c for c in r0.get("inner", []) if isinstance(c, dict) and c.get("kind")]
                    arms = [(cfront.strip(ci[1]), ci[0], True), (cfront.strip(ci[2]), ci[0], False)]
                for arm, cond, ctruth in arms:
                    if arm.get("kind") != "DeclRefExpr" or cfront.render(arm) not in loops:
                        continue
                    idx = cfront.render(arm)
                    h, bound = loops[idx]
                    if not any(b is h and lab == "T" for b, lab in self.view.controlling_branches(n)):
                        continue
                    # which request does the loop run over?  the one its bound is computed from
                    bdefs = self.defs_of(bound)
                    req = None
                    if len(bdefs) == 1 and bdefs[0][1] is not None and bound not in self.escaped:
                        ment = {cfront.render(y) for y in cfront.walk(bdefs[0][1]) if y.get("kind") == "DeclRefExpr"} & set(roles)
                        if len(ment) == 1:
                            req = next(iter(ment))
                    key = "%s::%s-from-index" % (self.fn.get("name"), tgt)
                    if req is None:
                        out.append((key, n, None, "the request that loop bound `%s` counts was not identified" % bound))
                        continue
                    what, total = roles[req]
                    self.bound, self.req = bound, req
                    self.totals = {total}
                    # the count helper's value for a None request is the total as well
                    for c in cfront.calls_in(bdefs[0][1]):
                        callee = self.cfun.get("Records::%s" % cfront.callee_name(c)) or self.cfun.get(cfront.callee_name(c) or "")
                        if callee is not None and callee is not self.fn:
                            for y in cfront.walk(cfront.body_of(callee)):
                                if y.get("kind") == "VarDecl" and "init" in y:
                                    ini = [z for z in y.get("inner", []) or [] if isinstance(z, dict) and z.get("kind")]
                                    if ini and cfront.strip(ini[-1]).get("kind") == "MemberExpr" and \
                                            cfront.strip(cfront.strip(ini[-1])["inner"][0]).get("kind") == "CXXThisExpr":
                                        self.totals.add(cfront.strip(ini[-1]).get("name"))
                    if self.totals & self.member_stores:
                        out.append((key, n, None, "the reader assigns %s" % sorted(self.totals & self.member_stores)))
                        continue
                    rs = [self.control(n)]
                    if cond is not None:
                        rs.append(self.implies(cond, ctruth, n))
                    ok = _t3_any(rs)
                    extra = []
                    if ok is not True:
                        # the value may be a default that is replaced before it is used: what counts is what holds where this
                        # definition is still the value of the variable (branch outcomes that every definition-clear path to
                        # the use takes)
                        per_use = self.use_guards(n, tgt)
                        if per_use:
                            ok = _t3_all([_t3_any(rs + [self.implies(b.c, lab == "T", b) for b, lab in gs]) for gs in per_use])
                            extra = sorted({"%s is %s" % (b.text(), "true" if lab == "T" else "false") for gs in per_use for b, lab in gs})
                    guards = ["%s is %s" % (b.text(), "true" if lab == "T" else "false") for b, lab in self.view.controlling_branches(n)
                              if b is not h and b.c is not None and b.kind == "branch"]
                    if cond is not None:
                        guards.append("%s is %s" % (cfront.render(cond), "true" if ctruth else "false"))
                    guards.extend(x for x in extra if x not in guards)
                    flagtxt = []
                    for g, _ in list(self.view.controlling_branches(n)) + [(b, l) for gs in (per_use if extra else []) for b, l in gs]:
                        gc = cfront.strip(g.c) if isinstance(g.c, dict) else {}
                        while gc.get("kind") == "UnaryOperator" and gc.get("opcode") == "!":
                            gc = cfront.strip(gc["inner"][0])
                        if gc.get("kind") == "DeclRefExpr":
                            for dn, r in self.defs_of(cfront.render(gc)):
                                if r is not None and cfront.strip(r).get("kind") not in ("CXXBoolLiteralExpr", "IntegerLiteral"):
                                    flagtxt.append("%s = %s" % (cfront.render(gc), cfront.render(r)))
                    out.append((key, n, ok,
                                "wanted %s `%s` is taken to be the loop index `%s` itself, not element `%s` of `%s`, when %s%s: %s"
                                % (what, tgt, idx, idx, req, " and ".join(guards) or "(unconditionally)",
                                   " [%s]" % "; ".join(flagtxt) if flagtxt else "",
                                   "that establishes %s == %s" % (bound, "/".join(sorted(self.totals))) if ok else
                                   "that does not establish that every %s is requested (%s == %s, or %s is None)"
                                   % (what, bound, "/".join(sorted(self.totals)), req) if ok is False else "guard not understood")))
        return out


def _r02_7l_index_guard(chk, cfun):
    for fname in ("Records::read_text_columns", "Records::read_binary_columns"):
        fn = cfun.get(fname)
        if fn is None:
            continue
        try:
            inst = _IndexGuard(fn, cfun).instances()
        except AnalysisError:
            raise
        except Exception as e:              # a defect of the analysis must never become a verdict
            chk.ob("R02.7l", fname + "::index-for-position", None, _cwhere(fn), "analysis failed: %s: %s" % (type(e).__name__, e))
            continue
        for key, n, ok, text in inst:
            chk.ob("R02.7l", "Records::" + key, ok, "%s:%s" % (CPP, n.lineno or (fn.get("line") or 0)),
                   "the loop index stands for the wanted file position only when the whole table dimension is requested: " + text)


def _r02_7i_absolute_seek(fn):
    """the other spelling of the stepped read: an absolute seek (SEEK_SET) per row inside the row loop.  Returns
    (position is offset + (row1 + i*step)*rowsize, rendered position) or None when there is no such seek."""
    import sympy as sp
    from vcheck import csymx
    body = cfront.body_of(fn)
    for lp in [x for x in cfront.walk(body) if x.get("kind") in ("ForStmt", "WhileStmt")]:
        for c in cfront.calls_in(lp):
            args = cfront.call_args(c)
            if cfront.callee_name(c) in ("fseek", "fseeko", "myfseeko", "fseeko64") and len(args) == 3 and "SEEK_SET" in cfront.render(args[2]) or \
                    (cfront.callee_name(c) in ("fseek", "fseeko", "myfseeko") and len(args) == 3 and cfront.render(args[2]) == "0"):
                L = csymx.Lower(fn)
                L.env = {}
                inits = {}
                for x in cfront.walk(body):
                    if x.get("kind") == "VarDecl" and x.get("name"):
                        ini = [y for y in x.get("inner", []) if isinstance(y, dict) and y.get("kind")]
                        if ini:
                            inits[x["name"]] = ini[-1]
                try:
                    pos = L.expr(args[1])
                    for _ in range(4):
                        sub = {}
                        for k, v in inits.items():
                            if sp.Symbol(k) in pos.free_symbols:
                                try:
                                    sub[sp.Symbol(k)] = L.expr(v)
                                except Exception:
                                    pass
                        sub = {k: v for k, v in sub.items() if v != k and not (v.is_number)}
                        if not sub:
                            break
                        pos = pos.subs(sub)
                except Exception:
                    return None
                loopvar = None
                cond = lp["inner"][2] if lp.get("kind") == "ForStmt" else lp["inner"][0]
                cc = cfront.strip(cond)
                if cc.get("kind") == "BinaryOperator" and cc.get("opcode") == "<":
                    loopvar = sp.Symbol(cfront.render(cc["inner"][0]))
                if loopvar is None:
                    return None
                S_ = sp.Symbol
                want = S_("mFileOffset") + (S_("row1") + loopvar * S_("step")) * S_("mRowSize")
                return (sp.expand(pos - want) == 0, str(pos))
    return None


# ---------------------------------------------------------------------------
# R02.7i, semantic form: where the file cursor is at every read of the slice reader, as a polynomial.
#
# The body is walked once per control-flow path with the cursor position counted in rows from the data offset (a sympy term over
# row1, step, the row count): goto_offset() puts it at 0, skip_binary_rows(e) adds e (e >= 0: slices arrive normalised, 0 <= row1,
# step >= 1), fread(p, mRowSize, k, mFptr) transfers rows [pos, pos+k) and adds k.  A counted loop whose body moves the cursor by a
# distance d that does not depend on the round transfers, in round i, the rows at pos + i*d.  Path conditions such as `step == 1`
# or `!(row1 > 0)` are applied as substitutions.  Names of locals, hoisted temporaries, pointer stepping of the output array and
# the order of independent statements play no part.  Anything else that may move the cursor gives no verdict.
# ---------------------------------------------------------------------------
class _CurUnsup(Exception):
    pass


_CUR_HARMLESS_METHODS = ("ensure_readable", "ensure_binary", "ensure_writable", "process_slice")


class _SliceCursor(object):
    def __init__(self, fn):
        import sympy as sp
        from vcheck import csymx
        self.sp = sp
        self.csymx = csymx
        self.fn = fn
        self.counts = set()         # locals holding process_slice(row1, row2, step)
        self.paths = []             # finished paths: (conditions, transfers)

    # expressions ---------------------------------------------------------------------------------------------------------
    def expr(self, L, x):
        try:
            return L.expr(x)
        except Exception:
            return None

    def movers(self, x):
        """the calls inside x that concern the file cursor, in evaluation order (inner first)"""
        out = []
        for c in cfront.calls_in(x):
            nm = cfront.callee_name(c)
            txt = cfront.render(c)
            if c.get("kind") == "CXXMemberCallExpr" and cfront.strip(c["inner"][0]).get("kind") == "MemberExpr" \
                    and cfront.strip(cfront.strip(c["inner"][0])["inner"][0]).get("kind") == "CXXThisExpr":
                if nm in ("goto_offset", "skip_binary_rows"):
                    out.append(c)
                elif nm not in _CUR_HARMLESS_METHODS:
                    raise _CurUnsup("call of %s" % nm)
            elif nm == "fread":
                out.append(c)
            elif "mFptr" in txt and not any(cfront.callee_name(k) == "fread" and "mFptr" in cfront.render(k) for k in cfront.calls_in(c) if k is not c):
                raise _CurUnsup("the stream is handed to %s" % nm)
        return list(reversed(out)) if len(out) > 1 else out

    def apply(self, L, st, c):
        sp = self.sp
        nm = cfront.callee_name(c)
        args = cfront.call_args(c)
        if nm == "goto_offset":
            st["pos"] = sp.Integer(0)
        elif nm == "skip_binary_rows":
            e = self.expr(L, args[0]) if len(args) == 1 else None
            if e is None:
                raise _CurUnsup("skip distance %s" % cfront.render(c))
            st["pos"] = st["pos"] + e
        else:
            if len(args) != 4 or "mFptr" not in cfront.render(args[3]):
                raise _CurUnsup("fread form %s" % cfront.render(c))
            size, cnt = self.expr(L, args[1]), self.expr(L, args[2])
            if size is None or cnt is None:
                raise _CurUnsup("fread size / count %s" % cfront.render(c))
            st["xfer"].append(dict(start=st["pos"], n=cnt, stride=sp.Integer(1), size=size, line=c.get("line", 0)))
            st["pos"] = st["pos"] + cnt

    # statements -----------------------------------------------------------------------------------------------------------
    def run(self):
        sp = self.sp
        L = self.csymx.Lower(self.fn)
        st = dict(pos=sp.Symbol("ENTRY"), xfer=[], conds=[], env=L.env)
        for fin in self.block(cfront.body_of(self.fn).get("inner", []) or [], [st], L):
            self.paths.append(fin)
        return self.paths

    def block(self, stmts, states, L):
        """states in -> states that reach the end of the statement list (returned paths are put into self.paths)"""
        for x in stmts:
            nxt = []
            for st in states:
                nxt.extend(self.stmt(x, st, L))
            states = nxt
            if len(states) > 16:
                raise _CurUnsup("too many paths")
        return states

    @staticmethod
    def _kids(x):
        return [c for c in (x.get("inner", []) or []) if isinstance(c, dict)]

    def _fork(self, st):
        return dict(pos=st["pos"], xfer=list(st["xfer"]), conds=list(st["conds"]), env=dict(st["env"]))

    def simple(self, x, st, L):
        """an expression / declaration statement: cursor calls first, then the assignment it makes to a plain local"""
        L.env = st["env"]
        for c in self.movers(x):
            self.apply(L, st, c)
        k = x.get("kind")
        if k == "DeclStmt":
            for v in self._kids(x):
                if v.get("kind") != "VarDecl":
                    continue
                ini = [c for c in self._kids(v) if c.get("kind")]
                nm = v.get("name")
                st["env"].pop(nm, None)
                if ini and "init" in v:
                    i0 = cfront.strip(ini[-1])
                    if i0.get("kind") in ("CallExpr", "CXXMemberCallExpr"):
                        if cfront.callee_name(i0) == "process_slice" and [cfront.render(a) for a in cfront.call_args(i0)] == ["row1", "row2", "step"]:
                            self.counts.add(nm)
                        continue                      # value of a call: stays a symbol
                    e = self.expr(L, ini[-1])
                    if e is not None and not any(cfront.calls_in(ini[-1])):
                        st["env"][nm] = e
        else:
            for y in cfront.walk(x):
                yk = y.get("kind")
                tgt = None
                if yk in ("BinaryOperator", "CompoundAssignOperator") and (y.get("opcode") == "=" or yk == "CompoundAssignOperator"):
                    tgt = cfront.strip(self._kids(y)[0])
                elif yk == "UnaryOperator" and y.get("opcode") in ("++", "--"):
                    tgt = cfront.strip(self._kids(y)[0])
                if tgt is None:
                    continue
                if tgt.get("kind") != "DeclRefExpr":
                    if tgt.get("kind") == "MemberExpr":
                        raise _CurUnsup("a member is modified: %s" % cfront.render(y))
                    continue
                nm = tgt["referencedDecl"]["name"]
                if nm in ("row1", "row2", "step") or nm in self.counts:
                    raise _CurUnsup("%s is modified" % nm)
                if yk == "BinaryOperator" and y is cfront.strip(x) and not any(cfront.calls_in(y)):
                    e = self.expr(L, self._kids(y)[1])
                    if e is not None:
                        st["env"][nm] = e
                        continue
                st["env"][nm] = self.sp.Symbol("%s@%s" % (nm, y.get("line", id(y))))       # some other value
        return [st]

    def stmt(self, x, st, L):
        sp = self.sp
        k = x.get("kind")
        kids = self._kids(x)
        if k == "CompoundStmt":
            return self.block(kids, [st], L)
        if k == "NullStmt":
            return [st]
        if k == "ReturnStmt":
            self.simple(x, st, L)
            self.paths.append(st)
            return []
        if k == "IfStmt":
            cond, then = kids[0], kids[1]
            els = kids[2] if len(kids) > 2 else None
            self.simple(cond, st, L) if cfront.calls_in(cond) else None
            last = then
            while last.get("kind") == "CompoundStmt" and self._kids(last):
                last = self._kids(last)[-1]
            throws = cfront.strip(last).get("kind") == "CXXThrowExpr"
            if throws:
                if any(c for c in cfront.calls_in(then) if cfront.callee_name(c) in ("fread", "goto_offset", "skip_binary_rows")):
                    raise _CurUnsup("cursor moved on an error path")
                return self.stmt(els, st, L) if els is not None else [st]
            L.env = st["env"]
            c = self.expr(L, cond)
            a, b = self._fork(st), self._fork(st)
            a["conds"].append((c, True, cfront.render(cond)))
            b["conds"].append((c, False, cfront.render(cond)))
            out = self.stmt(then, a, L)
            out += self.stmt(els, b, L) if els is not None else [b]
            return out
        if k == "ForStmt":
            if len(kids) < 4:
                raise _CurUnsup("for statement form")
            init, test, inc, body = kids[0], kids[-3], kids[-2], kids[-1]
            if any(y.get("kind") in ("BreakStmt", "ContinueStmt", "ReturnStmt", "GotoStmt") for y in cfront.walk(body)):
                raise _CurUnsup("the loop can be left early")
            ivar = lo = None
            i0 = cfront.strip(init)
            if i0.get("kind") == "DeclStmt" and len(self._kids(i0)) == 1 and "init" in self._kids(i0)[0]:
                v = self._kids(i0)[0]
                ivar, lo = v.get("name"), [c for c in self._kids(v) if c.get("kind")][-1]
            elif i0.get("kind") == "BinaryOperator" and i0.get("opcode") == "=" and cfront.strip(self._kids(i0)[0]).get("kind") == "DeclRefExpr":
                ivar, lo = cfront.strip(self._kids(i0)[0])["referencedDecl"]["name"], self._kids(i0)[1]
            t = cfront.strip(test)
            if ivar is None or not (t.get("kind") == "BinaryOperator" and t.get("opcode") == "<" and cfront.render(cfront.strip(self._kids(t)[0])) == ivar):
                raise _CurUnsup("loop header %s" % cfront.render(test))
            L.env = st["env"]
            lo_e, hi_e = self.expr(L, lo), self.expr(L, self._kids(t)[1])
            if lo_e is None or hi_e is None or self.movers(test) or self.movers(init):
                raise _CurUnsup("loop bounds")
            steps = [y for part in (inc, body) for y in cfront.walk(part)
                     if y.get("kind") in ("UnaryOperator", "CompoundAssignOperator", "BinaryOperator")
                     and (y.get("opcode") in ("++", "--") or y.get("kind") == "CompoundAssignOperator" or y.get("opcode") == "=")
                     and cfront.render(cfront.strip(self._kids(y)[0])) == ivar]
            if len(steps) != 1 or not (steps[0].get("opcode") == "++" or (steps[0].get("opcode") == "+=" and cfront.render(self._kids(steps[0])[1]) == "1")) \
                    or not any(steps[0] is y for y in cfront.walk(inc)):
                raise _CurUnsup("the loop counter %s is not stepped by one in the loop header only" % ivar)
            i = sp.Symbol(ivar, integer=True)
            P = sp.Symbol("ROUNDSTART")
            inner = dict(pos=P, xfer=[], conds=[], env=dict(st["env"]))
            inner["env"][ivar] = i
            ends = self.block([body, inc], [inner], L)
            e0 = None
            if len(ends) == 1:
                e = ends[0]
            else:
                # the body branches on the loop counter only: a first round that differs from the later ones (`if (i > 0) skip(...)`)
                e0, e = self._peel(ends, i, lo_e)
                if e0 is None:
                    raise _CurUnsup("the loop body branches")

            def round_of(e_):
                d_ = sp.expand(e_["pos"] - P)
                if d_.has(P) or d_.has(i) or any(str(sy).find("@") >= 0 for sy in d_.free_symbols):
                    raise _CurUnsup("the distance moved per round, %s, depends on the round" % d_)
                offs = []
                for xf in e_["xfer"]:
                    off = sp.expand(xf["start"] - P)
                    if off.has(P) or off.has(i) or xf["n"] != 1:
                        raise _CurUnsup("read inside the loop at %s, %s rows" % (xf["start"], xf["n"]))
                    offs.append(off)
                return d_, offs

            d, offs = round_of(e)
            n = sp.expand(hi_e - lo_e)
            if e0 is None:
                for xf, off in zip(e["xfer"], offs):
                    st["xfer"].append(dict(start=st["pos"] + off, n=n, stride=d, size=xf["size"], line=xf["line"]))
                st["pos"] = st["pos"] + n * d
            else:
                # round 0 moves d0 and reads at off0; round k >= 1 starts at pos + d0 + (k-1)*d and reads at off: the reads form ONE
                # progression from pos + off0 with stride d exactly when the second read is d after the first
                d0, offs0 = round_of(e0)
                if len(offs0) != len(offs) or [str(x["size"]) for x in e0["xfer"]] != [str(x["size"]) for x in e["xfer"]]:
                    raise _CurUnsup("the first round does not read what the later rounds read")
                for xf, off0, off in zip(e["xfer"], offs0, offs):
                    if sp.expand(d0 + off - off0 - d) != 0:
                        raise _CurUnsup("reads of the first and of the later rounds are not evenly spaced (%s, then %s)" % (sp.expand(d0 + off - off0), d))
                    st["xfer"].append(dict(start=st["pos"] + off0, n=n, stride=d, size=xf["size"], line=xf["line"]))
                if sp.expand(d0 - d) == 0:
                    st["pos"] = st["pos"] + n * d
                else:
                    st["pos"] = sp.Symbol("pos@after%s" % x.get("line", ""))    # pos + d0 + (n-1)*d for n >= 1, pos for n = 0: not followed
                for nm in set(e0["env"]) | set(e["env"]):
                    if e0["env"].get(nm) != e["env"].get(nm) and nm != ivar:
                        e["env"] = dict(e["env"])
                        e["env"][nm] = sp.Symbol("%s@round" % nm)
            # what the body assigned is not known after the loop
            for nm in set(e["env"]) | set(st["env"]):
                if e["env"].get(nm) != st["env"].get(nm) and nm != ivar:
                    st["env"][nm] = sp.Symbol("%s@after%s" % (nm, x.get("line", "")))
            st["env"].pop(ivar, None)
            return [st]
        if k == "WhileStmt":
            # while (v > 0) { ...; v--; }  with v a local holding a known value e: e rounds
            # while (v < n) { ...; v++; }  : n - (value of v) rounds
            cond, body = kids[0], kids[-1]
            if any(y.get("kind") in ("BreakStmt", "ContinueStmt", "ReturnStmt", "GotoStmt") for y in cfront.walk(body)) or self.movers(cond):
                raise _CurUnsup("the loop can be left early")
            t = cfront.strip(cond)
            if not (t.get("kind") == "BinaryOperator" and t.get("opcode") in ("<", ">")):
                raise _CurUnsup("loop condition %s" % cfront.render(cond))
            l, r = (cfront.strip(y) for y in self._kids(t))
            if t["opcode"] == ">":
                l, r = r, l                                  # l < r
            top = self._kids(body) if body.get("kind") == "CompoundStmt" else [body]

            def step_of(y, v):
                y = cfront.strip(y)
                if y.get("kind") == "UnaryOperator" and y.get("opcode") in ("++", "--") and cfront.render(cfront.strip(self._kids(y)[0])) == v:
                    return y["opcode"][0]
                if y.get("kind") == "CompoundAssignOperator" and y.get("opcode") in ("+=", "-=") and cfront.render(cfront.strip(self._kids(y)[0])) == v \
                        and cfront.render(cfront.strip(self._kids(y)[1])) == "1":
                    return y["opcode"][0]
                return None

            def writes(v):
                return [y for y in cfront.walk(body) if y.get("kind") in ("UnaryOperator", "CompoundAssignOperator", "BinaryOperator")
                        and (y.get("opcode") in ("++", "--", "=") or y.get("kind") == "CompoundAssignOperator")
                        and cfront.render(cfront.strip(self._kids(y)[0])) == v]

            L.env = st["env"]
            var = n = None
            if l.get("kind") == "IntegerLiteral" and l.get("value") == "0" and r.get("kind") == "DeclRefExpr":
                var, want = cfront.render(r), "-"
                n = st["env"].get(var)
            elif l.get("kind") == "DeclRefExpr":
                var, want = cfront.render(l), "+"
                hi = self.expr(L, r)
                lo = st["env"].get(var)
                n = sp.expand(hi - lo) if hi is not None and lo is not None else None
                if any(writes(nm) for nm in [str(sy) for sy in (hi.free_symbols if hi is not None else [])]):
                    n = None
            if var is None or n is None or var in ("row1", "row2", "step") or var in self.counts:
                raise _CurUnsup("loop condition %s: number of rounds not known" % cfront.render(cond))
            stepst = [y for y in top if step_of(y, var)]
            if len(stepst) != 1 or step_of(stepst[0], var) != want or len(writes(var)) != 1:
                raise _CurUnsup("the loop counter %s is not stepped exactly once per round" % var)
            i = sp.Symbol("round", integer=True)
            P = sp.Symbol("ROUNDSTART")
            inner = dict(pos=P, xfer=[], conds=[], env=dict(st["env"]))
            inner["env"][var] = sp.Symbol("%s@round" % var)
            ends = self.block([y for y in top if y is not stepst[0]], [inner], L)
            if len(ends) != 1:
                raise _CurUnsup("the loop body branches")
            e = ends[0]
            d = sp.expand(e["pos"] - P)
            if d.has(P) or any("@" in str(sy) for sy in d.free_symbols):
                raise _CurUnsup("the distance moved per round, %s, depends on the round" % d)
            for xf in e["xfer"]:
                off = sp.expand(xf["start"] - P)
                if off.has(P) or any("@" in str(sy) for sy in off.free_symbols) or xf["n"] != 1:
                    raise _CurUnsup("read inside the loop at %s, %s rows" % (xf["start"], xf["n"]))
                st["xfer"].append(dict(start=st["pos"] + off, n=n, stride=d, size=xf["size"], line=xf["line"]))
            st["pos"] = st["pos"] + n * d
            for nm in set(e["env"]) | set(st["env"]):
                if e["env"].get(nm) != st["env"].get(nm):
                    st["env"][nm] = sp.Symbol("%s@after%s" % (nm, x.get("line", "")))
            return [st]
        if k in ("DoStmt", "SwitchStmt", "GotoStmt", "LabelStmt", "CXXTryStmt", "CXXForRangeStmt", "BreakStmt", "ContinueStmt"):
            raise _CurUnsup("%s in the slice reader" % k)
        return self.simple(x, st, L)

    def _peel(self, ends, i, lo):
        """(state of the first round, state of every later round) when each path through the loop body is selected by comparisons of
        the loop counter i with constants that come out one way for i = lo and one way for every i > lo; else (None, None)"""
        sp = self.sp
        k = sp.Symbol("_k", integer=True, nonnegative=True)

        def holds(c, truth, val):
            if c is None or not getattr(c, "is_Relational", False) or (c.free_symbols - {i}):
                return None
            try:
                r = sp.simplify(c.subs(i, val))
            except Exception:
                return None
            if r == sp.true:
                return truth
            if r == sp.false:
                return not truth
            return None

        if not getattr(lo, "is_number", False):
            return None, None
        pick = []
        for val in (lo, lo + 1 + k):
            sel = []
            for e in ends:
                hs = [holds(c, tr, val) for c, tr, _ in e["conds"]]
                if not hs or any(h is None for h in hs):
                    return None, None
                if all(hs):
                    sel.append(e)
            if len(sel) != 1:
                return None, None
            pick.append(sel[0])
        return pick[0], pick[1]

    # verdicts ------------------------------------------------------------------------------------------------------------------
    def verdicts(self):
        """{key: (True/False, text)} for 'skip-to-first-row', 'stride', 'row-sized-reads'"""
        sp = self.sp
        row1, step = sp.Symbol("row1"), sp.Symbol("step")
        res = {"skip-to-first-row": [], "stride": [], "row-sized-reads": []}
        if not self.paths:
            raise _CurUnsup("no path through the slice reader")
        for pth in self.paths:
            sub = {}
            for c, truth, txt in pth["conds"]:
                if c is None:
                    continue
                if truth and isinstance(c, sp.Equality) and c.lhs.is_Symbol and c.rhs.is_number:
                    sub[c.lhs] = c.rhs
                elif not truth and isinstance(c, sp.Unequality) and c.lhs.is_Symbol and c.rhs.is_number:
                    sub[c.lhs] = c.rhs
                elif c.is_Relational and c.lhs == row1 and c.rhs == 0 and ((not truth and isinstance(c, sp.StrictGreaterThan)) or (truth and isinstance(c, sp.LessThan))):
                    sub[row1] = sp.Integer(0)            # 0 <= row1 (normalised slice) and not row1 > 0
            if len(pth["xfer"]) != 1:
                raise _CurUnsup("%d read sites on one path" % len(pth["xfer"]))
            xf = pth["xfer"][0]
            under = " and ".join(("" if tr else "not ") + t for _, tr, t in pth["conds"]) or "always"
            start = sp.expand(sp.sympify(xf["start"]).subs(sub))
            stride = sp.expand(sp.sympify(xf["stride"]).subs(sub))
            n = sp.sympify(xf["n"]).subs(sub)
            if any("@" in str(sy) for e in (start, stride, n) for sy in sp.sympify(e).free_symbols):
                raise _CurUnsup("a position depends on a value that is not followed")
            res["skip-to-first-row"].append((sp.expand(start - row1.subs(sub)) == 0, "first row read is %s (%s)" % (start, under)))
            res["stride"].append((sp.expand(stride - step.subs(sub)) == 0, "consecutive reads are %s rows apart (%s)" % (stride, under)))
            res["row-sized-reads"].append((str(xf["size"]) == "mRowSize" and n.is_Symbol and str(n) in self.counts,
                                           "%s reads of %s bytes (%s)" % (n, xf["size"], under)))
        return {k: (all(ok for ok, _ in v), "; ".join(t for _, t in v)) for k, v in res.items()}


def _r02_7i_cursor(fn):
    """verdicts of the cursor analysis of the slice reader, or (None, reason)"""
    try:
        an = _SliceCursor(fn)
        an.run()
        return an.verdicts(), None
    except _CurUnsup as e:
        return None, str(e)
    except AnalysisError:
        raise
    except Exception as e:        # a defect of the analysis must never become a verdict
        return None, "analysis failed: %s: %s" % (type(e).__name__, e)


def _r02_7i_structural(fn, key):
    """the reviewed shape of the slice reader (only ever used to pass, never to fail)"""
    body = cfront.body_of(fn)
    calls = [cfront.render(c) for c in cfront.calls_in(body)]
    if key == "skip-to-first-row":
        return "skip_binary_rows(row1)" in calls
    if key == "stride":
        return "skip_binary_rows((step - 1))" in calls and "skip_binary_rows(row1)" in calls
    freads = [c for c in cfront.calls_in(body) if cfront.callee_name(c) == "fread"]
    return len(freads) == 2 and all(cfront.render(cfront.call_args(c)[1]) == "mRowSize" for c in freads)


class _ArmUnsup(Exception):
    pass


def _arm_lower(n, env):
    """integer term of a C expression over the values the variables have now (env: name -> term; a name not in env is its own
    symbol): + - * of variables, members and literals; a[i] and v[i] as the function `[]`(a, i)"""
    import sympy as sp
    n = cfront.strip(n)
    k = n.get("kind")
    inner = [c for c in (n.get("inner", []) or []) if isinstance(c, dict) and c.get("kind")]
    if k == "IntegerLiteral":
        return sp.Integer(int(n["value"]))
    if k == "DeclRefExpr":
        nm = n.get("referencedDecl", {}).get("name")
        if nm is None:
            raise _ArmUnsup("reference without a name")
        return env.get(nm, sp.Symbol(nm, integer=True))
    if k == "MemberExpr" and inner and cfront.strip(inner[0]).get("kind") == "CXXThisExpr":
        return env.get(n["name"], sp.Symbol(n["name"], integer=True))
    if k == "ArraySubscriptExpr" and len(inner) == 2:
        return sp.Function("[]")(_arm_lower(inner[0], env), _arm_lower(inner[1], env))
    if k == "CXXOperatorCallExpr" and cfront.callee_name(n) == "operator[]" and len(inner) == 3:
        return sp.Function("[]")(_arm_lower(inner[1], env), _arm_lower(inner[2], env))
    if k == "CXXMemberCallExpr" and cfront.callee_name(n) == "at" and len(inner) == 2:
        base = cfront.strip(inner[0])
        if base.get("kind") == "MemberExpr" and base.get("inner"):
            return sp.Function("[]")(_arm_lower(base["inner"][0], env), _arm_lower(inner[1], env))
    if k == "UnaryOperator" and n.get("opcode") in ("-", "+") and inner:
        v = _arm_lower(inner[0], env)
        return -v if n["opcode"] == "-" else v
    if k == "BinaryOperator" and n.get("opcode") in ("+", "-", "*") and len(inner) == 2:
        a, b = _arm_lower(inner[0], env), _arm_lower(inner[1], env)
        return sp.expand({"+": a + b, "-": a - b, "*": a * b}[n["opcode"]])
    raise _ArmUnsup("expression `%s`" % cfront.render(n))


_SEEK_FWD = ("fseek", "fseeko", "myfseeko", "fseeko64", "_fseeki64")


def _arm_run(arm):
    """symbolic execution of a straight-line block: (final env, [(callee, [argument terms at the time of the call])]).
    Accepted: declarations with initialiser, = += -= ++ -- on plain variables, call statements, and `if (<call> ...) throw`."""
    import sympy as sp
    env, calls = {}, []
    stmts = arm.get("inner", []) or [] if arm.get("kind") == "CompoundStmt" else [arm]

    def var(x):
        x = cfront.strip(x)
        if x.get("kind") == "DeclRefExpr" and x.get("referencedDecl", {}).get("name"):
            return x["referencedDecl"]["name"]
        raise _ArmUnsup("assignment to `%s`" % cfront.render(x))

    def note_calls(x):
        for c in [y for y in cfront.walk(x) if y.get("kind") in ("CallExpr", "CXXMemberCallExpr")]:
            args = []
            for a in cfront.call_args(c):
                try:
                    args.append(_arm_lower(a, env))
                except _ArmUnsup:
                    args.append(None)
            calls.append((cfront.callee_name(c), args, [cfront.render(a) for a in cfront.call_args(c)]))

    for st in stmts:
        if not isinstance(st, dict) or not st.get("kind"):
            continue
        k = st.get("kind")
        inner = [c for c in (st.get("inner", []) or []) if isinstance(c, dict) and c.get("kind")]
        if k == "NullStmt":
            continue
        if k == "DeclStmt":
            for d in inner:
                ini = [y for y in d.get("inner", []) if isinstance(y, dict) and y.get("kind")]
                if d.get("kind") != "VarDecl" or not d.get("name"):
                    raise _ArmUnsup("declaration")
                if ini and "init" in d:
                    env[d["name"]] = _arm_lower(ini[-1], env)
                else:
                    env[d["name"]] = sp.Symbol("uninitialised " + d["name"], integer=True)
        elif k == "BinaryOperator" and st.get("opcode") == "=":
            env[var(inner[0])] = _arm_lower(inner[1], env)
        elif k == "CompoundAssignOperator" and st.get("opcode") in ("+=", "-="):
            nm = var(inner[0])
            cur = env.get(nm, sp.Symbol(nm, integer=True))
            v = _arm_lower(inner[1], env)
            env[nm] = sp.expand(cur + v if st["opcode"] == "+=" else cur - v)
        elif k == "UnaryOperator" and st.get("opcode") in ("++", "--"):
            nm = var(inner[0])
            cur = env.get(nm, sp.Symbol(nm, integer=True))
            env[nm] = cur + (1 if st["opcode"] == "++" else -1)
        elif k in ("CallExpr", "CXXMemberCallExpr"):
            note_calls(st)
        elif k == "IfStmt" and len(inner) == 2 and any(y.get("kind") == "CXXThrowExpr" for y in cfront.walk(inner[1])) \
                and not any(y.get("kind") in ("BinaryOperator", "CompoundAssignOperator", "UnaryOperator") and y.get("opcode") in
                            ("=", "+=", "-=", "*=", "/=", "++", "--") for y in cfront.walk(inner[0])):
            note_calls(inner[0])        # if (seek(...) != 0) throw ...: the call is made, the failure arm leaves the function
        else:
            raise _ArmUnsup("statement %s" % k)
    return env, calls


def _col_skip_arm(arm, colskip, wanted, cursor):
    """(ok, text) for the arm executed when the wanted column is ahead of the column cursor.
    text reader: the columns [cursor, wanted) are skipped (one skip_ascii_col_range(cursor, wanted)) and the cursor ends at wanted.
    binary reader: the stream is moved forward by <offset of the wanted column> - <byte cursor> (do_seek or a SEEK_CUR seek, the byte
    cursor being a local variable), the column cursor ends at wanted and the byte cursor at the offset of the wanted column."""
    import sympy as sp
    try:
        env, calls = _arm_run(arm)
    except _ArmUnsup as e:
        return False, "the arm is not straight-line integer code: %s" % e
    W_, C_ = sp.Symbol(wanted, integer=True), sp.Symbol(cursor, integer=True)
    if env.get(wanted, W_) != W_:
        return False, "the wanted column is changed"
    if sp.expand(env.get(cursor, C_) - W_) != 0:
        return False, "the column cursor ends at %s, not at the wanted column" % env.get(cursor, C_)
    if colskip == "skip_ascii_col_range":
        sk = [(a, t) for nm, a, t in calls if nm == "skip_ascii_col_range"]
        if len(sk) != 1 or len(sk[0][0]) != 2 or None in sk[0][0]:
            return False, "%d recognised column-range skips" % len(sk)
        a, b = sk[0][0]
        ok = sp.expand(a - C_) == 0 and sp.expand(b - W_) == 0
        return ok, "skips the columns [%s, %s), cursor ends at the wanted column" % (a, b)
    moved = []
    for nm, a, t in calls:
        if nm == "do_seek" and len(a) == 1:
            moved.append(a[0])
        elif nm in _SEEK_FWD and len(a) == 3:
            if t[2] not in ("SEEK_CUR", "1"):
                return False, "a seek that is not relative to the current position"
            moved.append(a[1])
        elif nm in ("do_seek",) + _SEEK_FWD:
            return False, "a seek with unexpected arguments"
    if not moved or None in moved:
        return False, "no recognised forward seek"
    dist = sp.expand(sum(moved))
    target = sp.Function("[]")(sp.Symbol("mOffsets", integer=True), W_)
    rest = sp.expand(target - dist)         # must be the byte cursor: one local variable, as it was on entry to the arm
    if not (rest.is_Symbol and rest not in (W_, C_) and not str(rest).startswith("m")):
        return False, "the stream is moved by %s, which is not <offset of the wanted column> - <byte cursor>" % dist
    end = env.get(str(rest), rest)
    if sp.expand(end - target) != 0:
        return False, "the byte cursor `%s` ends at %s, not at the offset of the wanted column" % (rest, end)
    return True, "moves the stream by %s; column cursor ends at the wanted column, byte cursor `%s` at its offset" % (dist, rest)


def _r02_7_columns_structural(chk, fname, fn, kind):
    colskip = "skip_ascii_col_range" if kind == "text" else "do_seek"
    W = _cwhere(fn)
    body = cfront.body_of(fn)
    fors = [x for x in cfront.walk(body) if x.get("kind") == "ForStmt"]
    chk.ob("R02.7", fname + "::two-nested-loops", len(fors) == 2, W, "row loop and column loop found (%d for-loops)" % len(fors))
    if len(fors) != 2:
        return
    rowloop, colloop = fors[0], fors[1]
    rbody = rowloop["inner"][-1]
    cbody = colloop["inner"][-1]
    # goto_offset dominates the row loop
    ccfg = cfront.CCFG(fn)
    view = ccfg.view()
    gos = [n for n in ccfg.nodes for c in cfront.node_calls(n) if cfront.callee_name(c) == "goto_offset"]
    loops = [n for n in ccfg.nodes if n.kind == "loop"]
    chk.ob("R02.7a", fname + "::starts-at-data-offset", bool(gos) and all(view.dominates(gos[0], l) for l in loops),
           W, "goto_offset() dominates the read loops (reads always start at the data offset)")
    # row skip: `if (row2read > current_row) { skip_rows(current_row,row2read); current_row=row2read; }`
    ok_rowskip = False
    for st in cfront.walk(rbody):
        if st.get("kind") == "IfStmt":
            cond = cfront.render(st["inner"][0])
            then = st["inner"][1]
            calls = [cfront.render(c) for c in cfront.calls_in(then)]
            asg = [cfront.render(x) for x in cfront.walk(then) if x.get("kind") == "BinaryOperator" and x.get("opcode") == "="]
            if cond == "(row2read > current_row)":
                ok_rowskip = "skip_rows(current_row, row2read)" in calls and "(current_row = row2read)" in asg
            if not ok_rowskip and len(st["inner"]) == 2:
                # the same guard in either spelling (wanted > cursor, cursor < wanted); the arm is evaluated symbolically as straight-line
                # integer code: one skip_rows(cursor, wanted), the cursor ends at the wanted row, the wanted row is not changed
                c0 = cfront.strip(st["inner"][0])
                if c0.get("kind") == "BinaryOperator" and c0.get("opcode") in (">", "<") and any(cfront.callee_name(c) == "skip_rows" for c in cfront.calls_in(then)):
                    ahead, cursor = (cfront.render(cfront.strip(x)) for x in (c0["inner"] if c0["opcode"] == ">" else reversed(c0["inner"])))
                    if ahead.isidentifier() and cursor.isidentifier() and ahead != cursor:
                        import sympy as sp
                        try:
                            env, acalls = _arm_run(then)
                        except _ArmUnsup:
                            env = None
                        if env is not None:
                            W_, C_ = sp.Symbol(ahead, integer=True), sp.Symbol(cursor, integer=True)
                            sk = [a_ for nm_, a_, _t in acalls if nm_ == "skip_rows"]
                            ok_rowskip = len(sk) == 1 and len(sk[0]) == 2 and None not in sk[0] and sp.expand(sk[0][0] - C_) == 0 \
                                and sp.expand(sk[0][1] - W_) == 0 and env.get(ahead, W_) == W_ and sp.expand(env.get(cursor, C_) - W_) == 0 \
                                and any(cfront.render(s) in (cursor + "++", "++" + cursor, "(%s += 1)" % cursor) for s in (rbody.get("inner", []) or []))
    chk.ob("R02.7b", fname + "::row-skip-paired", ok_rowskip, W,
           "rows are skipped only when the wanted row is ahead of the cursor, by skip_rows(current_row,row2read) paired with current_row=row2read")
    # row cursor advanced exactly once per iteration, at top level of the row loop body
    top = rbody.get("inner", []) or []
    inc = [s for s in top if cfront.render(s) in ("current_row++", "++current_row", "(current_row += 1)")]
    chk.ob("R02.7c", fname + "::row-cursor-advances-once", len(inc) == 1, W,
           "current_row is advanced exactly once per row read (found %d unconditional increments)" % len(inc))
    # column cursor reset per row and advanced once per column
    reset = [s for s in top if cfront.render(s) == "(current_col = 0)"]
    ctop = cbody.get("inner", []) or []
    cinc = [s for s in ctop if cfront.render(s) in ("current_col++", "++current_col")]
    chk.ob("R02.7d", fname + "::col-cursor-reset-and-advance", len(reset) == 1 and len(cinc) == 1, W,
           "current_col is reset per row and advanced once per column read")
    # column skip pairing
    ok_colskip = False
    found_colskip = "no `if (wanted column > column cursor)` at the top of the column loop"
    # the wanted column is what the per-column reader is called with
    wanted_names = {cfront.render(cfront.strip(cfront.call_args(c)[0])) for c in cfront.calls_in(cbody)
                    if cfront.callee_name(c) in ("read_from_text_column", "read_from_binary_column") and cfront.call_args(c)} or {"col2read"}
    for st in ctop:
        if st.get("kind") != "IfStmt" or len(st["inner"]) > 2:
            continue
        cond = cfront.strip(st["inner"][0])
        if cond.get("kind") != "BinaryOperator" or cond.get("opcode") not in (">", "<"):
            continue
        ahead, cursor = (cfront.render(cfront.strip(x)) for x in (cond["inner"] if cond["opcode"] == ">" else reversed(cond["inner"])))
        if ahead not in wanted_names or not cursor.isidentifier() or cursor == ahead:
            continue
        # the arm is evaluated symbolically (straight-line integer code): what counts is what is skipped and what the cursors hold
        # at its end, not how the statements are spelled
        ok_colskip, found_colskip = _col_skip_arm(st["inner"][1], colskip, ahead, cursor)
    chk.ob("R02.7e", fname + "::col-skip-paired", ok_colskip, W,
           "columns are skipped only when the wanted column is ahead, with the cursor (and byte offset) updated to match (%s)" % found_colskip)
    # the read of the wanted column and pointer advance by that column's size
    reads = [cfront.render(c) for c in cfront.calls_in(cbody) if cfront.callee_name(c) in ("read_from_text_column", "read_from_binary_column")]
    ptr = [cfront.render(x) for x in cfront.walk(cbody) if x.get("kind") == "CompoundAssignOperator" and cfront.render(x["inner"][0]) == "ptr"]
    okr = len(reads) == 1 and reads[0].endswith("(col2read, ptr)") and ptr in (["(ptr += mSizes[col2read])"], ["(ptr += colsize)"])
    chk.ob("R02.7f", fname + "::read-wanted-column-into-buffer", okr, W,
           "each wanted column is read into the output pointer, which then advances by that column's size (%s; %s)" % (reads, ptr))
    # remainder of the row is skipped
    ok_rest = False
    for st in top:
        if st.get("kind") == "IfStmt":
            cond = cfront.render(st["inner"][0])
            calls = [cfront.render(c) for c in cfront.calls_in(st["inner"][1])]
            if colskip == "skip_ascii_col_range" and cond == "(current_col < mNfields)":
                ok_rest = "skip_ascii_col_range(current_col, mNfields)" in calls
            if colskip == "do_seek" and cond == "(current_offset < mRowSize)":
                asg = [cfront.render(x) for x in cfront.walk(st["inner"][1]) if x.get("kind") == "BinaryOperator" and x.get("opcode") == "="]
                ok_rest = "(seek_distance = (mRowSize - current_offset))" in asg and "do_seek(seek_distance)" in calls
    chk.ob("R02.7g", fname + "::rest-of-row-skipped", ok_rest, W,
           "after the last wanted column the rest of the row is skipped so the file cursor is at the next row")
    # row number comes from the rows array at the loop index (or the index itself when reading all rows)
    src = [cfront.render(x) for x in cfront.walk(rbody) if x.get("kind") == "BinaryOperator" and x.get("opcode") == "="
           and cfront.render(x["inner"][0]) == "row2read"]
    okk = "(row2read = irow)" in src and any("rows" in s and "irow" in s for s in src if s != "(row2read = irow)")
    chk.ob("R02.7h", fname + "::row-number-source", okk, W,
           "the row to read is rows[irow] (or irow when all rows are read): %s" % src)


# ---------------------------------------------------------------------------
# R02.7j, semantic form: the text row skipper counts a row exactly when it has consumed that row's newline.
#
# Forward analysis over the C++ CFG with a finite abstract domain that covers every file content: an abstract state is a set of
# (balance, read site, class of what that read consumed) where balance = newlines consumed - rows counted (clamped to [-2, 2]) and
# the class is, for a one-character read, {newline, each character literal the function compares with, any other character}, for a
# bounded line read (fgets) {chunk ends in a newline, chunk without a newline because the buffer was full}, for an unbounded
# line read (getline) {whole line}.  Comparisons of the consumed character / chunk with literals refine the set along the two
# edges; an update of the row counter subtracts one.  Every normal return must have balance 0 in every element: a negative
# balance is a row counted whose newline was not consumed (the cursor is left inside a row, later rows are mis-numbered).
# The end of the file inside the skipped region is outside the property (row selections are range checked), so reads are assumed
# not to hit EOF.  Uses of the consumed data that the domain does not model (copies into other variables, arithmetic, other
# calls on the stream) give no verdict.
# ---------------------------------------------------------------------------
class _SkUnsup(Exception):
    pass


_SK_CHAR = ("fgetc", "getc", "getc_unlocked", "fgetc_unlocked", "_IO_getc")
_SK_LINE = ("fgets", "fgets_unlocked")
_SK_FULL = ("getline",)
_SK_NEUTRAL = ("feof", "ferror", "clearerr", "fileno", "ftell", "ftello", "feof_unlocked", "ferror_unlocked")
_SK_NLCLS = ("NL", "ENDS_NL", "FULL")


def _sk_inner(x):
    return [c for c in (x.get("inner", []) or []) if isinstance(c, dict) and c.get("kind")]


def _sk_const(x):
    """integer value of a literal expression (EOF is -1, NULL is 0), else None"""
    x = cfront.strip(x)
    k = x.get("kind")
    if k == "IntegerLiteral":
        try:
            return int(x.get("value"))
        except Exception:
            return None
    if k == "CharacterLiteral":
        return int(x.get("value"))
    if k in ("GNUNullExpr", "CXXNullPtrLiteralExpr"):
        return 0
    if k == "UnaryOperator" and x.get("opcode") == "-":
        v = _sk_const(_sk_inner(x)[0])
        return -v if v is not None else None
    return None


def _sk_name(x):
    x = cfront.strip(x)
    if x.get("kind") == "DeclRefExpr":
        return x.get("referencedDecl", {}).get("name")
    return None


def _sk_is_file(x):
    return "FILE" in (x.get("type", {}) or {}).get("qualType", "") or "FILE" in (cfront.strip(x).get("type", {}) or {}).get("qualType", "")


class _SkipCount(object):
    def __init__(self, fn):
        self.fn = fn
        self.body = cfront.body_of(fn)
        self.imprecise = []
        self.sites = {}          # id(call node) -> dict(kind, line, name, holders:set, buf)
        self.lits = set()
        self.inloop = set()
        self.counters = set()
        self.aliases = {}        # variable -> buffer it is strlen() of
        self._prepass()

    # -- syntactic preparation ------------------------------------------------
    def _prepass(self):
        for x in cfront.walk(self.body):
            if x.get("kind") in ("SwitchStmt", "GotoStmt", "LabelStmt", "CXXTryStmt", "IndirectGotoStmt", "CXXForRangeStmt", "LambdaExpr"):
                raise _SkUnsup("%s in the row skipper" % x.get("kind"))
            if x.get("kind") in ("ForStmt", "WhileStmt", "DoStmt"):
                parts = [c for c in (x.get("inner", []) or []) if isinstance(c, dict)]
                for part in (parts[1:] if x.get("kind") == "ForStmt" else parts):      # the init of a for runs once, before the loop
                    for y in cfront.walk(part):
                        self.inloop.add(id(y))
            if x.get("kind") == "CharacterLiteral":
                self.lits.add(int(x.get("value")))
        params = set(cfront.params_of(self.fn))
        derived = set(params)
        decls = {}
        assigns = []            # (name, rhs, node)
        for x in cfront.walk(self.body):
            k = x.get("kind")
            if k == "VarDecl" and x.get("name"):
                decls[x["name"]] = x
                ini = _sk_inner(x)
                if ini and "init" in x:
                    assigns.append((x["name"], ini[-1], x))
            elif k == "BinaryOperator" and x.get("opcode") == "=":
                nm = _sk_name(_sk_inner(x)[0])
                if nm:
                    assigns.append((nm, _sk_inner(x)[1], x))
        changed = True
        while changed:
            changed = False
            for nm, rhs, node in assigns:
                if nm not in derived and any(_sk_name(y) in derived for y in cfront.walk(rhs) if y.get("kind") == "DeclRefExpr"):
                    derived.add(nm)
                    changed = True
        # strlen aliases and read sites
        for nm, rhs, node in assigns:
            r = cfront.strip(rhs)
            if r.get("kind") == "CallExpr" and cfront.callee_name(r) == "strlen" and len(cfront.call_args(r)) == 1:
                b = _sk_name(cfront.call_args(r)[0])
                if b and sum(1 for n2, _, _ in assigns if n2 == nm) == 1:
                    self.aliases[nm] = b
        for c in cfront.calls_in(self.body):
            nm = cfront.callee_name(c)
            args = cfront.call_args(c)
            if nm in _SK_CHAR and len(args) == 1:
                self.sites[id(c)] = dict(kind="char", line=c.get("line", 0), name=nm, holders=set(), buf=None, text=cfront.render(c))
            elif nm in _SK_LINE and len(args) == 3:
                b = _sk_name(args[0])
                if b is None:
                    raise _SkUnsup("fgets into %s" % cfront.render(args[0]))
                self.sites[id(c)] = dict(kind="line", line=c.get("line", 0), name=nm, holders=set(), buf=b, text=cfront.render(c))
            elif nm in _SK_FULL and len(args) == 3:
                self.sites[id(c)] = dict(kind="full", line=c.get("line", 0), name=nm, holders=set(), buf=None, text=cfront.render(c))
        for nm, rhs, node in assigns:
            r = cfront.strip(rhs)
            if id(r) in self.sites:
                self.sites[id(r)]["holders"].add(nm)
        # row counters: integer variables stepped by one inside a loop and tied to the number of rows to skip
        stepped = set()
        for x in cfront.walk(self.body):
            if id(x) not in self.inloop:
                continue
            v = self._step_of(x)
            if v is not None:
                stepped.add(v)
        holders = {h for s in self.sites.values() for h in s["holders"]} | {s["buf"] for s in self.sites.values() if s["buf"]}
        linked = set()
        for x in cfront.walk(self.body):
            if x.get("kind") == "BinaryOperator" and x.get("opcode") in ("<", "<=", ">", ">=", "==", "!="):
                l, r = _sk_inner(x)
                for a, b in ((l, r), (r, l)):
                    na = {_sk_name(y) for y in cfront.walk(a) if y.get("kind") == "DeclRefExpr"}
                    nb = {_sk_name(y) for y in cfront.walk(b) if y.get("kind") == "DeclRefExpr"}
                    if nb & derived:
                        linked |= na
        for v in stepped - holders:
            d = decls.get(v)
            ty = (d or {}).get("type", {}).get("qualType", "") if d else ""
            if d is None and v not in params:
                continue
            if "char" in ty or "*" in ty or "[" in ty:
                continue
            if v in derived or v in linked:
                self.counters.add(v)
        self.tainted = set(holders) | set(self.aliases)

    def _step_of(self, x):
        """name of the variable this expression steps by one, else None"""
        k = x.get("kind")
        if k == "UnaryOperator" and x.get("opcode") in ("++", "--"):
            return _sk_name(_sk_inner(x)[0])
        if k == "CompoundAssignOperator" and x.get("opcode") in ("+=", "-="):
            if _sk_const(_sk_inner(x)[1]) == 1:
                return _sk_name(_sk_inner(x)[0])
        if k == "BinaryOperator" and x.get("opcode") == "=":
            v = _sk_name(_sk_inner(x)[0])
            r = cfront.strip(_sk_inner(x)[1])
            if v and r.get("kind") == "BinaryOperator" and r.get("opcode") in ("+", "-"):
                a, b = _sk_inner(r)
                if (_sk_name(a) == v and _sk_const(b) == 1) or (r.get("opcode") == "+" and _sk_name(b) == v and _sk_const(a) == 1):
                    return v
        return None

    # -- abstract states ---------------------------------------------------------
    def classes(self, site):
        if site["kind"] == "char":
            return ["NL"] + [("lit", k) for k in sorted(self.lits) if k != 10] + ["OTHER"]
        if site["kind"] == "line":
            return ["ENDS_NL", "NO_NL"]
        return ["FULL"]

    def consume(self, st, call):
        sid = id(call)
        site = self.sites[sid]
        out = set()
        for bal, _, _, blame in st:
            for c in self.classes(site):
                nb = max(-2, min(2, bal + (1 if c in _SK_NLCLS else 0)))
                out.add((nb, sid, c, blame if nb < 0 else None))
        return frozenset(out)

    @staticmethod
    def count(st):
        """one row counted; an element whose balance becomes negative remembers what had been read when that row was counted"""
        return frozenset((max(-2, bal - 1), s, c, (blame if blame is not None else (s, c)) if bal - 1 < 0 else None) for bal, s, c, blame in st)

    def note(self, why):
        if why not in self.imprecise:
            self.imprecise.append(why)

    def refine(self, st, match, keep_true):
        """split st by a test on the chunk of the sites selected by `match`: keep_true(cls) says which classes make the test true"""
        t, f = set(), set()
        for e in st:
            bal, sid, cls, _blame = e
            if sid is None or not match(self.sites[sid]):
                if sid is not None:
                    self.note("a test looks at data that is not the latest read")
                t.add(e)
                f.add(e)
            elif keep_true(cls):
                t.add(e)
            else:
                f.add(e)
        return frozenset(t), frozenset(f)

    # -- expressions -------------------------------------------------------------
    def val(self, x, st):
        """(state after the side effects of x, description of its value or None)"""
        x = cfront.strip(x)
        k = x.get("kind")
        inner = _sk_inner(x)
        if k in ("IntegerLiteral", "CharacterLiteral", "GNUNullExpr", "CXXNullPtrLiteralExpr", "StringLiteral", "CXXBoolLiteralExpr",
                 "FloatingLiteral", "CXXThisExpr"):
            v = _sk_const(x)
            return st, (("const", v) if v is not None else None)
        if k == "UnaryOperator" and x.get("opcode") == "-" and _sk_const(x) is not None:
            return st, ("const", _sk_const(x))
        if k == "DeclRefExpr":
            nm = _sk_name(x)
            hs = [s for s in self.sites.values() if nm in s["holders"]]
            if hs:
                kind = "char" if all(s["kind"] == "char" for s in hs) else ("fres" if all(s["kind"] == "line" for s in hs) else None)
                if kind is None:
                    self.note("variable %s holds results of different kinds of reads" % nm)
                    return st, None
                return st, (kind, lambda s, nm=nm: nm in s["holders"])
            if nm in self.aliases:
                return st, ("len", lambda s, b=self.aliases[nm]: s["buf"] == b)
            if nm in self.tainted:
                return st, ("taint", nm)
            return st, None
        if k == "MemberExpr":
            return st, None
        if k in ("CallExpr", "CXXMemberCallExpr", "CXXOperatorCallExpr"):
            return self.call(x, st)
        if k == "CXXConstructExpr" or k == "CXXThrowExpr" or k == "CXXTemporaryObjectExpr":
            for c in inner:
                st, r = self.val(c, st)
                self.escape(r, "is passed on")
            return st, None
        if k == "ArraySubscriptExpr":
            b = _sk_name(inner[0])
            st, ri = self.val(inner[1], st) if not self._is_last_index(inner[1], b) else (st, None)
            if b and any(s["buf"] == b for s in self.sites.values()):
                if self._is_last_index(inner[1], b):
                    return st, ("lastchar", lambda s, b=b: s["buf"] == b)
                return st, ("taint", b)
            st, rb = self.val(inner[0], st)
            self.escape(rb, "is indexed")
            self.escape(ri, "is used as an index")
            return st, None
        if k == "UnaryOperator":
            op = x.get("opcode")
            if op in ("++", "--"):
                v = _sk_name(inner[0])
                if v in self.counters:
                    return self.count(st), ("ctr", v)
                if v in self.tainted:
                    self.note("%s is modified" % v)
                elif id(x) in self.inloop:
                    self.note("other state (%s) is updated inside the skip loop" % v)
                return st, None
            if op == "!":
                t, f = self.cond(x, st)
                return t | f, None
            st, r = self.val(inner[0], st)
            if op == "&" and r is not None:
                self.escape(r, "has its address taken")
            elif r is not None and r[0] != "const":
                self.escape(r, "is used in arithmetic")
            return st, None
        if k == "CompoundAssignOperator":
            v = _sk_name(inner[0])
            st, r = self.val(inner[1], st)
            self.escape(r, "flows into %s" % v)
            if v in self.counters:
                if self._step_of(x) == v:
                    return self.count(st), ("ctr", v)
                self.note("the row counter %s is changed by something other than one" % v)
            elif v in self.tainted:
                self.note("%s is modified" % v)
            elif id(x) in self.inloop:
                self.note("other state (%s) is updated inside the skip loop" % v)
            return st, None
        if k == "BinaryOperator":
            op = x.get("opcode")
            if op == "=":
                return self.assign(_sk_name(inner[0]), inner[0], inner[1], x, st)
            if op in ("&&", "||", "==", "!=", "<", ">", "<=", ">="):
                t, f = self.cond(x, st)
                return t | f, None
            if op == ",":
                st, _ = self.val(inner[0], st)
                return self.val(inner[1], st)
            st, a = self.val(inner[0], st)
            st, b = self.val(inner[1], st)
            self.escape(a, "is used in arithmetic")
            self.escape(b, "is used in arithmetic")
            return st, None
        if k == "ConditionalOperator":
            t, f = self.cond(inner[0], st)
            t, a = self.val(inner[1], t)
            f, b = self.val(inner[2], f)
            self.escape(a, "is selected")
            self.escape(b, "is selected")
            return t | f, None
        if k in ("UnaryExprOrTypeTraitExpr",):
            return st, None
        for c in inner:
            st, r = self.val(c, st)
            self.escape(r, "is used in %s" % k)
        return st, None

    def escape(self, r, how):
        if r is not None and r[0] in ("char", "fres", "taint", "lastchar", "hasnl", "len"):
            self.note("data read from the file %s (not modelled)" % how)

    def _is_last_index(self, idx, b):
        """idx is strlen(b) - 1 (directly or through a variable that is strlen(b))"""
        i = cfront.strip(idx)
        if i.get("kind") == "BinaryOperator" and i.get("opcode") == "-" and _sk_const(_sk_inner(i)[1]) == 1:
            l = cfront.strip(_sk_inner(i)[0])
            if l.get("kind") == "CallExpr" and cfront.callee_name(l) == "strlen" and _sk_name(cfront.call_args(l)[0]) == b:
                return True
            if _sk_name(l) is not None and self.aliases.get(_sk_name(l)) == b:
                return True
        return False

    def assign(self, v, lhs, rhs, node, st):
        st, r = self.val(rhs, st)
        if v is None:
            st, rl = self.val(lhs, st)
            self.escape(r, "is stored")
            self.note("store through %s" % cfront.render(lhs)[:40])
            return st, None
        if r is not None and r[0] in ("char", "fres") and id(cfront.strip(rhs)) in self.sites:
            return st, r                      # v is a recorded holder of that read
        if v in self.aliases and cfront.strip(rhs).get("kind") == "CallExpr" and cfront.callee_name(cfront.strip(rhs)) == "strlen":
            return st, None
        if v in self.counters:
            if self._step_of(node) == v:
                return self.count(st), ("ctr", v)
            if id(node) in self.inloop:
                self.note("the row counter %s is reassigned inside the loop" % v)
            self.escape(r, "flows into the row counter")
            return st, None
        self.escape(r, "is copied into %s" % v)
        if v in self.tainted:
            self.note("%s is assigned from something that is not a read" % v)
        elif id(node) in self.inloop:
            self.note("other state (%s) is updated inside the skip loop" % v)
        return st, None

    def call(self, x, st):
        nm = cfront.callee_name(x)
        args = cfront.call_args(x)
        if id(x) in self.sites:
            site = self.sites[id(x)]
            st2 = self.consume(st, x)
            if site["kind"] == "char":
                return st2, ("char", lambda s, i=id(x): s is self.sites[i])
            if site["kind"] == "line":
                return st2, ("fres", lambda s, i=id(x): s is self.sites[i])
            return st2, None
        if x.get("kind") == "CXXMemberCallExpr":
            callee = cfront.strip(x["inner"][0])
            obj = cfront.strip(_sk_inner(callee)[0]) if _sk_inner(callee) else {}
            if obj.get("kind") == "CXXThisExpr":
                raise _SkUnsup("call of the member function %s, which may move the file cursor" % nm)
        if any(_sk_is_file(a) for a in args):
            if nm in _SK_NEUTRAL:
                return st, None
            raise _SkUnsup("call %s on the stream is not modelled" % nm)
        if nm in ("strchr", "memchr", "index", "strrchr", "rindex") and len(args) >= 2 and _sk_const(args[1]) == 10:
            b = _sk_name(args[0])
            if b and any(s["buf"] == b for s in self.sites.values()):
                return st, ("hasnl", lambda s, b=b: s["buf"] == b)
        if nm == "strlen" and len(args) == 1 and _sk_name(args[0]) in self.tainted:
            return st, ("len", lambda s, b=_sk_name(args[0]): s["buf"] == b)
        for a in (x.get("inner", []) or [])[(0 if x.get("kind") == "CXXOperatorCallExpr" else 1):]:
            if isinstance(a, dict) and a.get("kind"):
                st, r = self.val(a, st)
                self.escape(r, "is passed to %s" % nm)
        return st, None

    def cond(self, x, st):
        """(state when x is true, state when x is false)"""
        x = cfront.strip(x)
        k = x.get("kind")
        inner = _sk_inner(x)
        if k == "UnaryOperator" and x.get("opcode") == "!":
            t, f = self.cond(inner[0], st)
            return f, t
        if k == "BinaryOperator" and x.get("opcode") in ("&&", "||"):
            at, af = self.cond(inner[0], st)
            if x["opcode"] == "&&":
                bt, bf = self.cond(inner[1], at)
                return bt, af | bf
            bt, bf = self.cond(inner[1], af)
            return at | bt, bf
        if k == "BinaryOperator" and x.get("opcode") in ("==", "!=", "<", ">", "<=", ">="):
            op = x["opcode"]
            # the idiom `while (n-- > 0)`: the step counts a row only when the test succeeds
            for a, b in ((inner[0], inner[1]), (inner[1], inner[0])):
                sa = cfront.strip(a)
                if sa.get("kind") == "UnaryOperator" and sa.get("opcode") in ("++", "--") and _sk_name(_sk_inner(sa)[0]) in self.counters \
                        and op != "==":
                    st2, _ = self.val(b, st)
                    return self.count(st2), st2
            st, ra = self.val(inner[0], st)
            st, rb = self.val(inner[1], st)
            if ra is not None and rb is not None and ra[0] == "const" and rb[0] != "const":
                ra, rb = rb, ra
            if ra is not None and ra[0] in ("char", "fres", "hasnl", "lastchar") and rb is not None and rb[0] == "const" and op in ("==", "!="):
                kv = rb[1]
                if ra[0] == "char":
                    t, f = self.refine(st, ra[1], lambda c, kv=kv: (c == "NL") if kv == 10 else (c == ("lit", kv)))
                elif ra[0] == "fres" and kv == 0:
                    t, f = self.refine(st, ra[1], lambda c: False)
                elif ra[0] == "hasnl" and kv == 0:
                    t, f = self.refine(st, ra[1], lambda c: c == "NO_NL")
                elif ra[0] == "lastchar" and kv == 10:
                    t, f = self.refine(st, ra[1], lambda c: c == "ENDS_NL")
                else:
                    self.escape(ra, "is compared with %s" % kv)
                    return st, st
                return (t, f) if op == "==" else (f, t)
            if ra is not None and rb is not None and ra[0] == "const" and rb[0] == "len":
                ra, rb, op = rb, ra, {"<": ">", ">": "<", "<=": ">=", ">=": "<="}.get(op, op)
            if ra is not None and ra[0] == "len" and rb is not None and rb[0] == "const":
                # a chunk that was read holds at least one character: its length is >= 1 whatever it ends in
                if (op, rb[1]) in ((">", 0), ("!=", 0), (">=", 1)):
                    return self.refine(st, ra[1], lambda c: True)
                if (op, rb[1]) in (("==", 0), ("<=", 0), ("<", 1)):
                    return self.refine(st, ra[1], lambda c: False)
            self.escape(ra, "is compared")
            self.escape(rb, "is compared")
            return st, st
        st, r = self.val(x, st)
        if r is not None and r[0] == "fres":
            return self.refine(st, r[1], lambda c: True)
        if r is not None and r[0] == "hasnl":
            return self.refine(st, r[1], lambda c: c == "ENDS_NL")
        self.escape(r, "is used as a condition")
        return st, st

    # -- fixpoint ------------------------------------------------------------------
    def stmt(self, c, st):
        k = c.get("kind")
        if k == "DeclStmt":
            for d in _sk_inner(c):
                if d.get("kind") == "VarDecl" and d.get("name") and "init" in d and _sk_inner(d):
                    st, _ = self.assign(d["name"], None, _sk_inner(d)[-1], d, st)
            return st
        if k in ("BreakStmt", "ContinueStmt", "NullStmt"):
            return st
        if k == "ReturnStmt":
            for e in _sk_inner(c):
                st, r = self.val(e, st)
                self.escape(r, "is returned")
            return st
        st, _ = self.val(c, st)
        return st

    def ex(self, s, st):
        """abstract execution of a structured statement: the state on its normal exit (break / continue / return states are collected)"""
        E = frozenset()
        k = s.get("kind")
        raw = [c for c in (s.get("inner", []) or []) if isinstance(c, dict)]
        if k == "CompoundStmt":
            for c in raw:
                if c.get("kind"):
                    st = self.ex(c, st)
            return st
        if k == "IfStmt":
            if s.get("hasInit") or s.get("hasVar") or not 2 <= len(raw) <= 3:
                raise _SkUnsup("if statement with a declaration")
            t, f = self.cond(raw[0], st)
            a = self.ex(raw[1], t)
            b = self.ex(raw[2], f) if len(raw) == 3 else f
            return a | b
        if k in ("WhileStmt", "DoStmt", "ForStmt"):
            if k == "ForStmt":
                init, cv, cnd, inc, body = (raw + [{}] * 5)[:5]
                if cv.get("kind"):
                    raise _SkUnsup("for statement with a condition variable")
                if init.get("kind"):
                    st = self.ex(init, st)
            elif k == "WhileStmt":
                if len(raw) != 2:
                    raise _SkUnsup("while statement with a declaration")
                cnd, body, inc = raw[0], raw[1], {}
            else:
                body, cnd, inc = raw[0], raw[1], {}
            head = st
            for _ in range(400):
                self.brk.append(E)
                self.cont.append(E)
                if k == "DoStmt":
                    out = self.ex(body, head)
                    t, f = self.cond(cnd, out | self.cont[-1])
                    back = t
                else:
                    t, f = self.cond(cnd, head) if cnd.get("kind") else (head, E)
                    out = self.ex(body, t) | self.cont[-1]
                    back = self.ex(inc, out) if inc.get("kind") else out
                brk = self.brk.pop()
                self.cont.pop()
                new = head | back
                if new == head:
                    return f | brk
                head = new
            raise _SkUnsup("no fixpoint")
        if k == "BreakStmt":
            if not self.brk:
                raise _SkUnsup("break outside a loop")
            self.brk[-1] = self.brk[-1] | st
            return E
        if k == "ContinueStmt":
            if not self.cont:
                raise _SkUnsup("continue outside a loop")
            self.cont[-1] = self.cont[-1] | st
            return E
        if k == "ReturnStmt":
            st = self.stmt(s, st)
            self.ret = self.ret | st
            return E
        if k == "NullStmt":
            return st
        if k == "CXXThrowExpr" or cfront.strip(s).get("kind") == "CXXThrowExpr":
            return E
        if k in ("SwitchStmt", "GotoStmt", "LabelStmt", "CXXTryStmt", "CaseStmt", "DefaultStmt"):
            raise _SkUnsup(k)
        return self.stmt(s, st)

    def run(self):
        """(counter names, elements at the normal returns with balance < 0, with balance > 0)"""
        if not self.sites:
            raise _SkUnsup("no read of the stream found in the row skipper")
        if len(self.counters) != 1:
            raise _SkUnsup("row counter not identified (candidates: %s)" % sorted(self.counters))
        self.brk, self.cont, self.ret = [], [], frozenset()
        end = self.ex(self.body, frozenset([(0, None, None, None)])) | self.ret
        return sorted(self.counters), [e for e in end if e[0] < 0], [e for e in end if e[0] > 0]

    def describe(self, e, blame=False):
        sid, cls = (e[3] if e[3] is not None else (e[1], e[2])) if blame else (e[1], e[2])
        if sid is None:
            return "nothing was read"
        s = self.sites[sid]
        what = {"NL": "a newline", "OTHER": "a character that is not a newline", "ENDS_NL": "a chunk that ends in a newline",
                "NO_NL": "a chunk without a newline (a row longer than the buffer fills it before the newline is reached)",
                "FULL": "a whole line"}.get(cls, "the character %r" % chr(cls[1]) if isinstance(cls, tuple) and 0 <= cls[1] < 256 else str(cls))
        return "%s (line %s) returned %s" % (s["text"], s["line"], what)


# ---------------------------------------------------------------------------
# R02.7k: a binary skip moves the file cursor by a distance that its argument alone determines.
#
# The binary column reader keeps its own account of where the cursor is (current_offset += seek_distance after do_seek(seek_distance),
# whole rows after skip_binary_rows(n)); that account is right only if the helper it calls leaves the cursor exactly that far ahead,
# whatever bytes lie in the skipped stretch.  Every method of the class that the binary readers reach (branches on the file type
# resolved for a binary file), that takes one integer and touches the stream with a positioning or reading primitive, is walked
# once per control-flow path with the displacement of the cursor as a polynomial over the parameter and the members:
# fseek-family(f, e, SEEK_CUR) adds e, a getc adds 1, fread(p, s, n, f) adds s*n, a counted loop whose round moves a
# round-independent distance d adds rounds*d, ftell gives entry + displacement and SEEK_SET to e makes the displacement e - entry.
# A test of what was read from the file is feasible both ways (the skipped bytes are arbitrary: property quantifier over all tables)
# -- except the test of an int-held getc result against EOF, of feof / ferror, and of the status of a seek or read, whose failure
# side cannot happen inside the table (rows are range checked).  A getc result narrowed to (signed) char compares equal to EOF for
# the data byte 0xFF, so that test IS feasible both ways.  A loop left on such a test is left in an arbitrary round K.  Every
# path that returns normally for a positive argument p must show the displacement p (bytes) or mRowSize*p (rows); a displacement
# that still contains K, or is another polynomial in p, is reported, as is an exception raised on a test of the bytes.  Anything
# outside this fragment gives no verdict.
# ---------------------------------------------------------------------------
class _MvUnsup(Exception):
    pass


_MV_SEEK = ("fseek", "fseeko", "fseeko64", "_fseeki64", "myfseeko", "fseek_unlocked")     # (FILE*, offset, whence); myfseeko: the file's wrapper
_MV_TELL = ("ftell", "ftello", "ftello64", "_ftelli64")
_MV_GETC = ("fgetc", "getc", "getc_unlocked", "fgetc_unlocked", "_IO_getc")
_MV_READ = ("fread", "fread_unlocked")
_MV_EOFQ = ("feof", "ferror", "feof_unlocked", "ferror_unlocked")
_MV_NEUTRAL = ("clearerr", "fileno", "fflush")
_MV_OTHER = ("fgets", "getline", "getdelim", "fscanf", "ungetc", "rewind", "fsetpos", "fgetpos", "fputc", "fwrite", "fprintf", "fputs",
             "fclose", "fopen", "freopen", "setvbuf")
_MV_INT_TYPES = ("long", "int", "short", "long long", "unsigned long", "unsigned int", "unsigned long long", "size_t", "ssize_t",
                 "off_t", "npy_intp", "npy_int64", "Py_ssize_t", "unsigned short")


def _mv_type(x):
    t = (x.get("type", {}) or {})
    return (t.get("desugaredQualType") or t.get("qualType") or "").replace("const ", "").strip()


def _mv_binary_cond(cond):
    """True / False when the condition is decided by the file being binary, 'skip' when it is about the file type (or a text-only
    attribute) in a way that is not decided, None when it has nothing to do with the file type"""
    txt = cfront.render(cond)
    c = cfront.strip(cond)
    if c.get("kind") == "BinaryOperator" and c.get("opcode") in ("==", "!="):
        l, r = (cfront.render(y) for y in _sk_inner(c))
        if "mFileType" in (l, r):
            other = r if l == "mFileType" else l
            if other == "BINARY_FILE":
                return c["opcode"] == "=="
            if other in ("ASCII_FILE", "TEXT_FILE"):
                return c["opcode"] == "!="
    if "mFileType" in txt or "mReadAsWhitespace" in txt or "mDelim" in txt or "BINARY_FILE" in txt or "ASCII_FILE" in txt:
        return "skip"
    return None


def _mv_callees(fn, binary):
    """names of the member functions called in fn on paths that a binary (binary=True) / text file can take"""
    out = []

    def visit(x):
        if not isinstance(x, dict):
            return
        k = x.get("kind")
        kids = [c for c in (x.get("inner", []) or []) if isinstance(c, dict)]
        if k == "IfStmt" and len(kids) >= 2:
            d = _mv_binary_cond(kids[0])
            if d == "skip":
                return
            if d is not None:
                take = d if binary else not d
                visit(kids[0])
                if take:
                    visit(kids[1])
                elif len(kids) > 2:
                    visit(kids[2])
                return
        if k == "SwitchStmt" and kids and _mv_binary_cond(kids[0]) is not None:
            return
        if k == "ConditionalOperator" and kids and _mv_binary_cond(kids[0]) is not None:
            return
        if k == "CXXMemberCallExpr":
            c0 = cfront.strip(kids[0]) if kids else {}
            if c0.get("kind") == "MemberExpr" and cfront.strip((c0.get("inner") or [{}])[0]).get("kind") == "CXXThisExpr":
                out.append(cfront.callee_name(x))
        for c in kids:
            visit(c)

    visit(cfront.body_of(fn))
    return out


def _mv_reach(cfun, roots, binary):
    seen, todo = set(), list(roots)
    while todo:
        nm = todo.pop()
        if nm in seen or ("Records::" + nm) not in cfun:
            continue
        seen.add(nm)
        todo.extend(_mv_callees(cfun["Records::" + nm], binary))
    return seen


def _mv_stream_calls(fn):
    return [c for c in cfront.calls_in(cfront.body_of(fn)) if c.get("kind") == "CallExpr" and
            cfront.callee_name(c) in _MV_SEEK + _MV_TELL + _MV_GETC + _MV_READ + _MV_OTHER and any(_sk_is_file(a) for a in cfront.call_args(c))]


class _ByteMove(object):
    def __init__(self, fn, cfun, depth=0):
        import sympy as sp
        from vcheck import csymx
        self.sp = sp
        self.fn = fn
        self.cfun = cfun
        self.depth = depth
        self.L = csymx.Lower(fn)
        self.P0 = sp.Symbol("ENTRY@pos")
        self.types = {}
        for x in fn.get("inner", []) or []:
            if isinstance(x, dict) and x.get("kind") == "ParmVarDecl":
                self.types[x.get("name")] = _mv_type(x)
        for x in cfront.walk(cfront.body_of(fn)):
            if x.get("kind") == "VarDecl" and x.get("name"):
                self.types[x["name"]] = _mv_type(x)
            if x.get("kind") in ("SwitchStmt", "GotoStmt", "LabelStmt", "CXXTryStmt", "IndirectGotoStmt", "CXXForRangeStmt", "LambdaExpr", "DoStmt"):
                raise _MvUnsup("%s in %s" % (x.get("kind"), fn.get("name")))
        self.nk = 0
        self.found = []          # (line, text) of content tests met

    # -- state ---------------------------------------------------------------------------------------------------------------------
    def fork(self, st):
        return dict(disp=st["disp"], env=dict(st["env"]), conds=list(st["conds"]), holders=dict(st["holders"]), tainted=set(st["tainted"]),
                    content=list(st["content"]))

    def expr(self, st, x):
        sp = self.sp
        self.L.env = st["env"]
        try:
            e = self.L.expr(x)
        except Exception:
            return None
        try:
            tells = [a for a in e.atoms(sp.Function) if type(a).__name__ in _MV_TELL] if hasattr(e, "atoms") else []
            for a in tells:
                e = e.subs(a, self.P0 + st["disp"])
        except Exception:
            return None
        return e

    # -- what an expression has to do with the bytes of the file ---------------------------------------------------------------------
    def byte_of(self, st, x):
        """None, or dict(narrow=None|'signed'|'unsigned', line) when x evaluates to a byte taken from the file by getc"""
        k = x.get("kind")
        kids = _sk_inner(x)
        if k in ("ParenExpr", "ConstantExpr", "ExprWithCleanups") and kids:
            return self.byte_of(st, kids[0])
        if k in ("ImplicitCastExpr", "CStyleCastExpr", "CXXStaticCastExpr", "CXXFunctionalCastExpr", "CXXReinterpretCastExpr") and kids:
            b = self.byte_of(st, kids[-1] if k == "CXXFunctionalCastExpr" else kids[0])
            if b is None:
                return None
            t = _mv_type(x)
            if b["narrow"] is None and x.get("castKind", "IntegralCast") in ("IntegralCast", "NoOp"):
                if t in ("char", "signed char", "int8_t", "npy_int8"):
                    return dict(b, narrow="signed")
                if t in ("unsigned char", "uint8_t", "npy_uint8"):
                    return dict(b, narrow="unsigned")
            return b
        if k == "CallExpr" and cfront.callee_name(x) in _MV_GETC:
            return dict(narrow=None, line=x.get("line", 0))
        if k == "DeclRefExpr":
            return st["holders"].get(x.get("referencedDecl", {}).get("name"))
        if k == "BinaryOperator" and x.get("opcode") == "=" and len(kids) == 2:
            nm = _sk_name(kids[0])
            b = self.byte_of(st, kids[1])
            if nm and b is not None:
                return self.held(nm, b)
        return None

    def held(self, nm, b):
        t = self.types.get(nm, "")
        if b["narrow"] is None:
            if t in ("char", "signed char", "int8_t", "npy_int8"):
                return dict(b, narrow="signed")
            if t in ("unsigned char", "uint8_t", "npy_uint8"):
                return dict(b, narrow="unsigned")
        return b

    def mentions_content(self, st, x):
        for y in cfront.walk(x):
            if y.get("kind") == "DeclRefExpr":
                nm = y.get("referencedDecl", {}).get("name")
                if nm in st["holders"] or nm in st["tainted"]:
                    return True
            if y.get("kind") == "CallExpr" and cfront.callee_name(y) in _MV_GETC + _MV_READ:
                return True
        return False

    def classify(self, st, cond):
        """('plain', term) | ('never', truth of the side that cannot happen) | ('content', text) for a branch condition"""
        c = cfront.strip(cond)
        k = c.get("kind")
        kids = _sk_inner(c)
        if k == "UnaryOperator" and c.get("opcode") == "!" and kids:
            kind, v = self.classify(st, kids[0])
            if kind == "never":
                return kind, (not v)
            if kind == "plain":
                return kind, (self.sp.Not(v) if v is not None and (getattr(v, "is_Boolean", False) or getattr(v, "is_Relational", False)) else None)
            return kind, v
        if k == "BinaryOperator" and c.get("opcode") in ("&&", "||") and len(kids) == 2:
            parts = [self.classify(st, y) for y in kids]
            isand = c["opcode"] == "&&"
            keep = []
            for kind, v in parts:
                if kind == "never" and v == (not isand):
                    continue            # `A && <always true here>`, `A || <always false here>`
                keep.append((kind, v))
            if not keep:
                return "never", (not isand)
            if len(keep) == 1:
                return keep[0]
            if any(kind == "content" for kind, v in keep):
                return "content", cfront.render(cond)
            if any(kind == "never" for kind, v in keep):
                raise _MvUnsup("condition %s" % cfront.render(cond))
            vs = [v for kind, v in keep]
            if any(v is None for v in vs):
                return "plain", None
            try:
                return "plain", (self.sp.And if isand else self.sp.Or)(*vs)
            except Exception:
                return "plain", None
        if k == "CallExpr" and cfront.callee_name(c) in _MV_EOFQ:
            return "never", True
        if k == "CallExpr" and cfront.callee_name(c) in _MV_SEEK:
            return "never", True        # non-zero status: the seek failed
        if k == "BinaryOperator" and c.get("opcode") in ("==", "!=", "<", ">", "<=", ">=") and len(kids) == 2:
            for a, b, flip in ((kids[0], kids[1], False), (kids[1], kids[0], True)):
                op = c["opcode"]
                if flip:
                    op = {"<": ">", ">": "<", "<=": ">=", ">=": "<="}.get(op, op)
                kv = _sk_const(b)
                a0 = cfront.strip(a)
                if a0.get("kind") == "CallExpr" and cfront.callee_name(a0) in _MV_SEEK and kv is not None:
                    if (op, kv) in (("!=", 0), ("<", 0), ("==", -1), (">", 0)):
                        return "never", True
                    if (op, kv) in (("==", 0), (">=", 0), ("!=", -1)):
                        return "never", False
                    raise _MvUnsup("status test %s" % cfront.render(cond))
                if a0.get("kind") == "CallExpr" and cfront.callee_name(a0) in _MV_READ:
                    want = cfront.render(cfront.call_args(a0)[2]) if len(cfront.call_args(a0)) == 4 else None
                    other = cfront.render(b)
                    if (op in ("!=", "<") and other == want) or (op == "==" and kv == 0) or (op == "<" and kv == 1) or (op == "<=" and kv == 0):
                        return "never", True
                    if (op in ("==", ">=") and other == want) or (op in ("!=", ">") and kv == 0) or (op == ">=" and kv == 1):
                        return "never", False
                    raise _MvUnsup("status test %s" % cfront.render(cond))
                bt = self.byte_of(st, a)
                if bt is not None and kv is not None:
                    if bt["narrow"] is None:
                        # the int result of getc: 0..255, or EOF at the end of the file / on error
                        if (op == "==" and kv == -1) or (op == "<" and kv == 0) or (op == "<=" and kv == -1):
                            return "never", True
                        if (op == "!=" and kv == -1) or (op == ">=" and kv == 0) or (op == ">" and kv == -1):
                            return "never", False
                        return "content", "%s, the byte read at line %s" % (cfront.render(cond), bt["line"])
                    if bt["narrow"] == "unsigned":
                        if kv < 0 or kv > 255:
                            if op in ("==", "<", "<=") and kv < 0 or op in (">", ">=") and kv > 255:
                                return "never", True
                            if op in ("!=", ">", ">=") and kv < 0 or op in ("<", "<=") and kv > 255:
                                return "never", False
                        return "content", "%s, the byte read at line %s" % (cfront.render(cond), bt["line"])
                    if kv == -1 and op in ("==", "!="):
                        return "content", "%s: the getc result of line %s was narrowed to char, so the data byte 0xFF compares equal to EOF (-1)" \
                            % (cfront.render(cond), bt["line"])
                    return "content", "%s, the byte read at line %s" % (cfront.render(cond), bt["line"])
        if self.mentions_content(st, c):
            bt = self.byte_of(st, c)
            if bt is not None and bt["narrow"] is None and k != "BinaryOperator":
                return "content", "%s, the byte read at line %s" % (cfront.render(cond), bt["line"])
            return "content", cfront.render(cond)
        return "plain", self.expr(st, cond)

    # -- effects of one expression / declaration ---------------------------------------------------------------------------------------
    def effects(self, st, x):
        sp = self.sp
        calls = cfront.calls_in(x)
        for c in (list(reversed(calls)) if len(calls) > 1 else calls):
            nm = cfront.callee_name(c)
            args = cfront.call_args(c)
            if c.get("kind") == "CXXMemberCallExpr":
                c0 = cfront.strip(c["inner"][0])
                if c0.get("kind") == "MemberExpr" and cfront.strip((c0.get("inner") or [{}])[0]).get("kind") == "CXXThisExpr":
                    callee = self.cfun.get("Records::%s" % nm)
                    if callee is None or not _mv_touches_stream(callee, self.cfun):
                        continue
                    if self.depth >= 2 or len(cfront.params_of(callee)) != 1 or len(args) != 1:
                        raise _MvUnsup("call of %s, which moves the cursor" % nm)
                    sub = _mv_summary(callee, self.cfun, self.depth + 1)
                    a = self.expr(st, args[0])
                    if sub is None or a is None:
                        raise _MvUnsup("call of %s, which moves the cursor in a way that is not followed" % nm)
                    st["disp"] = st["disp"] + sub.subs(sp.Symbol(cfront.params_of(callee)[0]), a)
                    continue
                if any(_sk_is_file(a) for a in args):
                    raise _MvUnsup("the stream is handed to %s" % nm)
                continue
            if not any(_sk_is_file(a) for a in args):
                continue
            if nm in _MV_SEEK and len(args) == 3:
                e = self.expr(st, args[1])
                wh = _sk_const(args[2])
                if e is None or wh not in (0, 1):
                    raise _MvUnsup("seek %s" % cfront.render(c))
                st["disp"] = (st["disp"] + e) if wh == 1 else (e - self.P0)
            elif nm in _MV_GETC and len(args) == 1:
                st["disp"] = st["disp"] + 1
            elif nm in _MV_READ and len(args) == 4:
                size = sp.Integer(1) if cfront.strip(args[1]).get("kind") == "UnaryExprOrTypeTraitExpr" and \
                    "char" in (cfront.strip(args[1]).get("argType", {}) or {}).get("qualType", "") else self.expr(st, args[1])
                cnt = self.expr(st, args[2])
                if size is None or cnt is None:
                    raise _MvUnsup("read %s" % cfront.render(c))
                st["disp"] = st["disp"] + size * cnt
                b = _sk_name(args[0])
                if b:
                    st["tainted"].add(b)
            elif nm in _MV_TELL + _MV_EOFQ + _MV_NEUTRAL:
                pass
            else:
                raise _MvUnsup("the stream is handed to %s" % nm)
        # assignments to plain locals
        k = x.get("kind")
        if k == "DeclStmt":
            for v in _sk_inner(x):
                if v.get("kind") != "VarDecl":
                    continue
                nm = v.get("name")
                st["env"].pop(nm, None)
                st["holders"].pop(nm, None)
                ini = _sk_inner(v)
                if ini and "init" in v:
                    self.assign(st, nm, ini[-1], v.get("line", 0))
            return
        for y in cfront.walk(x):
            yk = y.get("kind")
            kids = _sk_inner(y)
            if yk == "BinaryOperator" and y.get("opcode") == "=" and len(kids) == 2:
                nm = _sk_name(kids[0])
                if nm:
                    self.assign(st, nm, kids[1], y.get("line", 0), top=(y is cfront.strip(x)))
            elif yk == "CompoundAssignOperator" and len(kids) == 2:
                nm = _sk_name(kids[0])
                if nm:
                    old = st["env"].get(nm, sp.Symbol(nm) if nm in cfront.params_of(self.fn) else None)
                    e = self.expr(st, kids[1]) if not self.mentions_content(st, kids[1]) else None
                    if old is not None and e is not None and y.get("opcode") in ("+=", "-=") and not cfront.calls_in(kids[1]):
                        st["env"][nm] = old + e if y["opcode"] == "+=" else old - e
                    else:
                        st["env"][nm] = sp.Symbol("%s@%s" % (nm, y.get("line", 0)))
                        if self.mentions_content(st, kids[1]):
                            st["tainted"].add(nm)
            elif yk == "UnaryOperator" and y.get("opcode") in ("++", "--") and kids:
                nm = _sk_name(kids[0])
                if nm:
                    old = st["env"].get(nm, sp.Symbol(nm) if nm in cfront.params_of(self.fn) else None)
                    st["env"][nm] = (old + (1 if y["opcode"] == "++" else -1)) if old is not None else sp.Symbol("%s@%s" % (nm, y.get("line", 0)))

    def assign(self, st, nm, rhs, line, top=True):
        sp = self.sp
        b = self.byte_of(st, rhs)
        st["holders"].pop(nm, None)
        if b is not None:
            st["holders"][nm] = self.held(nm, b)
            st["env"][nm] = sp.Symbol("%s@%s" % (nm, line))
            return
        if self.mentions_content(st, rhs):
            st["tainted"].add(nm)
            st["env"][nm] = sp.Symbol("%s@%s" % (nm, line))
            return
        st["tainted"].discard(nm)
        r0 = cfront.strip(rhs)
        if r0.get("kind") == "CallExpr" and cfront.callee_name(r0) in _MV_TELL:
            st["env"][nm] = self.P0 + st["disp"]
            return
        e = self.expr(st, rhs) if top and not cfront.calls_in(rhs) else None
        st["env"][nm] = e if e is not None else sp.Symbol("%s@%s" % (nm, line))

    # -- statements: list of (how the statement was left, state) -------------------------------------------------------------------------
    def block(self, stmts, st):
        live = [st]
        out = []
        for x in stmts:
            nxt = []
            for s in live:
                for kind, s2 in self.stmt(x, s):
                    (nxt if kind == "fall" else out).append((kind, s2) if kind != "fall" else s2)
            live = nxt
            if len(live) + len(out) > 48:
                raise _MvUnsup("too many paths")
        return [("fall", s) for s in live] + out

    def branch(self, st, cond, then, els):
        kids = _sk_inner(cfront.strip(cond))
        shortc = any(y.get("kind") == "BinaryOperator" and y.get("opcode") in ("&&", "||") for y in cfront.walk(cond))
        movers = [c for c in cfront.calls_in(cond) if any(_sk_is_file(a) for a in cfront.call_args(c)) and cfront.callee_name(c) not in _MV_EOFQ + _MV_TELL]
        if movers and shortc:
            raise _MvUnsup("the cursor moves inside the short-circuit condition %s" % cfront.render(cond))
        kind, v = self.classify(st, cond)       # before the effects: the holders named in the condition are those set so far or in it
        self.effects(st, cond)
        out = []
        sides = []
        if kind == "never":
            sides = [(not v, None)]
        elif kind == "content":
            self.found.append(v)
            sides = [(True, v), (False, v)]
        else:
            sides = [(True, None), (False, None)]
        for truth, content in sides:
            s = self.fork(st)
            if content is not None:
                s["content"].append(content)
            elif kind == "plain":
                s["conds"].append((v, truth, cfront.render(cond)))
            body = then if truth else els
            if body is None:
                out.append(("fall", s))
            else:
                out.extend(self.stmt(body, s))
        return out

    def stmt(self, x, st):
        sp = self.sp
        k = x.get("kind")
        kids = [c for c in (x.get("inner", []) or []) if isinstance(c, dict)]
        if k == "CompoundStmt":
            return self.block([c for c in kids if c.get("kind")], st)
        if k == "NullStmt":
            return [("fall", st)]
        if k == "ReturnStmt":
            self.effects(st, x)
            return [("return", st)]
        if k == "BreakStmt":
            return [("break", st)]
        if k == "ContinueStmt":
            return [("continue", st)]
        if any(y.get("kind") == "CXXThrowExpr" for y in cfront.walk(x)) and k not in ("IfStmt", "ForStmt", "WhileStmt"):
            return [("throw", st)]
        if k == "IfStmt":
            real = [c for c in kids if c.get("kind")]
            return self.branch(st, real[0], real[1], real[2] if len(real) > 2 else None)
        if k == "ForStmt":
            if len(kids) < 4:
                raise _MvUnsup("for statement form")
            init, test, inc, body = kids[0], kids[-3], kids[-2], kids[-1]
            ivar = lo = None
            i0 = cfront.strip(init) if init.get("kind") else {}
            if i0.get("kind") == "DeclStmt" and len(_sk_inner(i0)) == 1 and "init" in _sk_inner(i0)[0]:
                v = _sk_inner(i0)[0]
                ivar, lo = v.get("name"), _sk_inner(v)[-1]
            elif i0.get("kind") == "BinaryOperator" and i0.get("opcode") == "=":
                ivar, lo = _sk_name(_sk_inner(i0)[0]), _sk_inner(i0)[1]
            t = cfront.strip(test) if test.get("kind") else {}
            if ivar is None or not (t.get("kind") == "BinaryOperator" and t.get("opcode") in ("<", "<=", "!=") and _sk_name(_sk_inner(t)[0]) == ivar):
                raise _MvUnsup("loop header of line %s" % x.get("line", 0))
            if cfront.calls_in(test) or cfront.calls_in(init) or cfront.calls_in(inc):
                raise _MvUnsup("call in the loop header of line %s" % x.get("line", 0))
            lo_e, hi_e = self.expr(st, lo), self.expr(st, _sk_inner(t)[1])
            if lo_e is None or hi_e is None:
                raise _MvUnsup("loop bounds of line %s" % x.get("line", 0))
            if t["opcode"] == "<=":
                hi_e = hi_e + 1
            writes = [y for part in (inc, body) for y in cfront.walk(part)
                      if (y.get("kind") == "UnaryOperator" and y.get("opcode") in ("++", "--") or y.get("kind") == "CompoundAssignOperator"
                          or (y.get("kind") == "BinaryOperator" and y.get("opcode") == "=")) and _sk_name(_sk_inner(y)[0]) == ivar]
            okstep = len(writes) == 1 and any(writes[0] is y for y in cfront.walk(inc)) and \
                (writes[0].get("opcode") == "++" or (writes[0].get("opcode") == "+=" and _sk_const(_sk_inner(writes[0])[1]) == 1))
            if not okstep:
                raise _MvUnsup("the loop counter %s is not stepped by one in the loop header only" % ivar)
            bound_names = {str(s) for s in hi_e.free_symbols}
            for y in cfront.walk(body):
                if y.get("kind") in ("BinaryOperator", "CompoundAssignOperator", "UnaryOperator") and \
                        (y.get("opcode") in ("=", "++", "--") or y.get("kind") == "CompoundAssignOperator") and _sk_name(_sk_inner(y)[0]) in bound_names:
                    raise _MvUnsup("the loop bound is changed in the loop")
            return self.counted(x, st, body, ivar, sp.expand(hi_e - lo_e))
        if k == "WhileStmt":
            real = [c for c in kids if c.get("kind")]
            cond, body = real[0], real[-1]
            if cfront.calls_in(cond):
                raise _MvUnsup("call in the loop condition of line %s" % x.get("line", 0))
            t = cfront.strip(cond)
            var = want = hi = None
            if t.get("kind") == "DeclRefExpr":
                var, want = _sk_name(t), "-"
            elif t.get("kind") == "BinaryOperator" and len(_sk_inner(t)) == 2:
                l, r = _sk_inner(t)
                op = t.get("opcode")
                if op in (">", "!=") and _sk_name(l) and _sk_const(r) == 0:
                    var, want = _sk_name(l), "-"
                elif op == "<" and _sk_const(l) == 0 and _sk_name(r):
                    var, want = _sk_name(r), "-"
                elif op == "<" and _sk_name(l):
                    var, want, hi = _sk_name(l), "+", self.expr(st, r)
                elif op == ">" and _sk_name(r):
                    var, want, hi = _sk_name(r), "+", self.expr(st, l)
            if var is None or (want == "+" and hi is None):
                raise _MvUnsup("loop condition %s" % cfront.render(cond))
            cur = st["env"].get(var, sp.Symbol(var) if var in cfront.params_of(self.fn) else None)
            if cur is None or any("@" in str(s) for s in cur.free_symbols):
                raise _MvUnsup("loop condition %s: the number of rounds is not known" % cfront.render(cond))
            top = [c for c in _sk_inner(body)] if body.get("kind") == "CompoundStmt" else [body]
            steps = []
            for y in top:
                y0 = cfront.strip(y)
                if y0.get("kind") == "UnaryOperator" and y0.get("opcode") in ("++", "--") and _sk_name(_sk_inner(y0)[0]) == var:
                    steps.append((y, y0["opcode"][0]))
                elif y0.get("kind") == "CompoundAssignOperator" and y0.get("opcode") in ("+=", "-=") and _sk_name(_sk_inner(y0)[0]) == var \
                        and _sk_const(_sk_inner(y0)[1]) == 1:
                    steps.append((y, y0["opcode"][0]))
            allw = [y for y in cfront.walk(body) if (y.get("kind") == "UnaryOperator" and y.get("opcode") in ("++", "--") or
                                                     y.get("kind") == "CompoundAssignOperator" or (y.get("kind") == "BinaryOperator" and y.get("opcode") == "="))
                    and _sk_name(_sk_inner(y)[0]) == var]
            if len(steps) != 1 or steps[0][1] != want or len(allw) != 1:
                raise _MvUnsup("the loop counter %s is not stepped exactly once per round" % var)
            if any(y.get("kind") == "ContinueStmt" for y in cfront.walk(body)):
                raise _MvUnsup("continue in a while loop")
            rounds = cur if want == "-" else sp.expand(hi - cur)
            rest = dict(kind="CompoundStmt", inner=[y for y in top if y is not steps[0][0]], line=x.get("line", 0))
            res = self.counted(x, st, rest, var, rounds, after=(sp.Integer(0) if want == "-" else hi))
            return res
        self.effects(st, x)
        return [("fall", st)]

    def counted(self, x, st, body, ivar, rounds, after=None):
        """a loop of `rounds` rounds (when none is left early); the body is walked once from a symbolic round start"""
        sp = self.sp
        R = sp.Symbol("ROUNDSTART@%s" % x.get("line", 0))
        i = sp.Symbol("%s@round" % ivar)
        inner = self.fork(st)
        inner["disp"] = R
        inner["env"][ivar] = i
        inner["conds"] = []
        inner["content"] = []
        ends = self.stmt(body, inner)
        cont = [s for kind, s in ends if kind in ("fall", "continue")]
        early = [(kind, s) for kind, s in ends if kind in ("break", "return", "throw")]
        if not cont:
            raise _MvUnsup("the loop of line %s never completes a round" % x.get("line", 0))
        ds = {sp.expand(s["disp"] - R) for s in cont}
        if len(ds) != 1:
            raise _MvUnsup("the rounds of the loop of line %s move by different distances %s" % (x.get("line", 0), sorted(map(str, ds))))
        d = ds.pop()
        if d.has(R) or any("@" in str(sy) for sy in d.free_symbols):
            raise _MvUnsup("the distance moved per round, %s, depends on the round" % d)
        out = []
        for kind, s in early:
            if not s["content"]:
                if kind == "throw":
                    continue            # an error path that does not depend on the bytes
                raise _MvUnsup("the loop of line %s is left early on a test that is not about the bytes read" % x.get("line", 0))
            part = sp.expand(s["disp"] - R)
            if part.has(R) or any("@" in str(sy) for sy in part.free_symbols):
                raise _MvUnsup("distance moved before the loop is left")
            self.nk += 1
            K = sp.Symbol("K%d" % self.nk, integer=True, nonnegative=True)
            o = self.fork(st)
            o["disp"] = st["disp"] + K * d + part
            o["content"] = st["content"] + ["the loop of line %s is left in an arbitrary round %s when %s" % (x.get("line", 0), K, "; ".join(s["content"]))]
            o["env"][ivar] = sp.Symbol("%s@%s" % (ivar, x.get("line", 0)))
            out.append((("fall" if kind == "break" else kind), o))
        done = self.fork(st)
        done["disp"] = st["disp"] + rounds * d
        for s in cont:
            for nm in set(s["env"]) | set(st["env"]):
                if nm != ivar and s["env"].get(nm) != st["env"].get(nm):
                    done["env"][nm] = sp.Symbol("%s@after%s" % (nm, x.get("line", 0)))
            done["tainted"] |= s["tainted"]
            for nm, h in s["holders"].items():
                done["holders"].setdefault(nm, h)
        if after is not None:
            done["env"][ivar] = after
        else:
            done["env"].pop(ivar, None)
        out.append(("fall", done))
        return out

    def run(self):
        sp = self.sp
        st = dict(disp=sp.Integer(0), env={}, conds=[], holders={}, tainted=set(), content=[])
        return self.stmt(cfront.body_of(self.fn), st)


_mv_touch_cache = {}


def _mv_touches_stream(fn, cfun, depth=0):
    key = id(fn)
    if key in _mv_touch_cache:
        return _mv_touch_cache[key]
    _mv_touch_cache[key] = False
    r = any(_sk_is_file(y) for y in cfront.walk(cfront.body_of(fn)) if y.get("kind") in ("MemberExpr", "DeclRefExpr"))
    if not r and depth < 3:
        for c in cfront.calls_in(cfront.body_of(fn)):
            callee = cfun.get("Records::%s" % cfront.callee_name(c)) if c.get("kind") == "CXXMemberCallExpr" else None
            if callee is not None and callee is not fn and _mv_touches_stream(callee, cfun, depth + 1):
                r = True
                break
    _mv_touch_cache[key] = r
    return r


def _mv_feasible(sp, p, conds, lowest):
    """can the plain conditions of a path hold for some integer p >= lowest?  True / False / None (not decided)"""
    dom = sp.Interval(lowest, sp.oo)
    for c, truth, txt in conds:
        if c is None:
            return None
        try:
            c = c if truth else sp.Not(c)
            if c is sp.true:
                continue
            if c is sp.false:
                return False
            if c.free_symbols != {p}:
                return None
            dom = dom.intersect(sp.solveset(c, p, domain=sp.S.Reals))
        except Exception:
            return None
    if dom is sp.S.EmptySet:
        return False
    parts = dom.args if isinstance(dom, sp.Union) else [dom]
    for I in parts:
        if isinstance(I, sp.FiniteSet):
            if any(getattr(e, "is_integer", False) for e in I):
                return True
            continue
        if isinstance(I, sp.Interval):
            lo = sp.ceiling(I.start)
            if I.left_open and lo == I.start:
                lo = lo + 1
            if I.contains(lo) == sp.true:
                return True
            continue
        return None
    return False


def _mv_paths(fn, cfun, depth=0):
    an = _ByteMove(fn, cfun, depth)
    return an, [(kind, s) for kind, s in an.run() if kind in ("fall", "return", "throw")]


def _mv_summary(fn, cfun, depth):
    """displacement term of a callee that moves the cursor, when all its normal paths for a positive argument agree; else None"""
    import sympy as sp
    try:
        an, paths = _mv_paths(fn, cfun, depth)
    except _MvUnsup:
        return None
    p = sp.Symbol(cfront.params_of(fn)[0])
    terms = set()
    for kind, s in paths:
        if kind == "throw":
            if s["content"]:
                return None
            continue
        if s["content"]:
            return None
        if _mv_feasible(sp, p, s["conds"], 1) is False:
            continue
        terms.add(sp.expand(s["disp"]))
    if len(terms) != 1:
        return None
    t = terms.pop()
    if any("@" in str(sy) for sy in t.free_symbols):
        return None
    return t


def _r02_7k_binary_movers(chk, cfun):
    import sympy as sp
    roots = [r for r in ("read_binary_columns", "read_binary_slice") if ("Records::" + r) in cfun]
    inbin = _mv_reach(cfun, roots, True)
    intext = _mv_reach(cfun, [r for r in ("read_text_columns",) if ("Records::" + r) in cfun], False)
    for nm in sorted(inbin - intext - set(roots)):
        fn = cfun["Records::" + nm]
        ps = [x for x in fn.get("inner", []) or [] if isinstance(x, dict) and x.get("kind") == "ParmVarDecl"]
        if len(ps) != 1 or _mv_type(ps[0]) not in _MV_INT_TYPES or not (fn.get("type", {}) or {}).get("qualType", "").startswith("void"):
            continue
        if not _mv_stream_calls(fn):
            continue
        chk.analysed_unit("Records::" + nm)
        key = "Records::%s::displacement-fixed-by-argument" % nm
        pname = ps[0].get("name")
        msg = "a binary skip helper leaves the file cursor exactly %s bytes (or %s whole rows) ahead on every path that returns, " \
              "whatever bytes the skipped stretch holds" % (pname, pname)
        try:
            an, paths = _mv_paths(fn, cfun)
        except _MvUnsup as e:
            chk.ob("R02.7k", key, None, _cwhere(fn), msg + " [cursor not followed: %s]" % e)
            continue
        except AnalysisError:
            raise
        except Exception as e:          # a defect of the analysis must never become a verdict
            chk.ob("R02.7k", key, None, _cwhere(fn), msg + " [analysis failed: %s: %s]" % (type(e).__name__, e))
            continue
        p = sp.Symbol(pname)
        rowsize = sp.Symbol("mRowSize")
        bad, unknown, good = [], [], 0
        for kind, s in paths:
            under = " and ".join(("" if tr else "not ") + t for _, tr, t in s["conds"]) or "always"
            if kind == "throw":
                if s["content"] and _mv_feasible(sp, p, s["conds"], 1) is not False:
                    bad.append("an exception is raised on a test of the skipped bytes (%s; under %s)" % ("; ".join(s["content"]), under))
                continue
            t = sp.expand(s["disp"])
            ks = [sy for sy in t.free_symbols if str(sy).startswith("K") and str(sy)[1:].isdigit()]
            if sp.expand(t - p) == 0 or sp.expand(t - rowsize * p) == 0:
                good += 1
                continue
            feas = _mv_feasible(sp, p, s["conds"], 2 if ks else 1)
            if feas is False:
                continue
            if any("@" in str(sy) for sy in t.free_symbols) or feas is None or not (t.free_symbols <= set([p, rowsize] + ks)):
                unknown.append("displacement %s under %s" % (t, under))
                continue
            if ks:
                bad.append("%s: the cursor is then %s bytes ahead (0 <= %s < number of rounds) instead of %s (under %s)"
                           % ("; ".join(s["content"]), t, ks[0], pname, under))
            else:
                bad.append("the cursor is %s bytes ahead instead of %s (under %s)" % (t, pname, under))
        if bad:
            chk.ob("R02.7k", key, False, _cwhere(fn), msg + " -- " + " | ".join(bad[:2]))
        elif unknown or not good:
            chk.ob("R02.7k", key, None, _cwhere(fn), msg + " [not decided: %s]" % ("; ".join(unknown[:2]) or "no path that returns normally"))
        else:
            chk.ob("R02.7k", key, True, _cwhere(fn), msg + " [%d path(s) followed symbolically]" % good)


def _r02_7j_semantic(chk, cfun):
    """reports the instance; returns (True, counter names) when it holds, else (None / False, ())"""
    fn = cfun.get("Records::skip_text_rows")
    if fn is None:
        return None, ()
    key = "sem::Records::skip_text_rows::row-counted-iff-newline-consumed"
    msg = "the text row skipper advances its row counter exactly when it has consumed that row's newline"
    try:
        an = _SkipCount(fn)
        ctr, neg, pos = an.run()
    except _SkUnsup as e:
        chk.ob("R02.7j", key, None, _cwhere(fn), "%s (not recognised: %s)" % (msg, e))
        return None, ()
    except AnalysisError:
        raise
    except Exception as e:            # a defect of the analysis must never become a verdict
        chk.ob("R02.7j", key, None, _cwhere(fn), "%s (analysis failed: %s: %s)" % (msg, type(e).__name__, e))
        return None, ()
    chk.assume("the rows to skip exist in the file (row selections are range checked): reads inside the skipped region do not hit EOF")
    if neg and not an.imprecise:
        chk.ob("R02.7j", key, False, _cwhere(fn),
               "%s: on return the counter %s can be ahead of the newlines consumed -- a row is counted although %s"
               % (msg, ctr[0], "; or ".join(sorted({an.describe(e, blame=True) for e in (
                      [x for x in neg if (x[3] or (x[1], x[2]))[1] not in _SK_NLCLS] or neg)})[:3])))
    elif neg or pos or an.imprecise:
        why = an.imprecise[:2] or ["a newline may be consumed without being counted (%s)" % "; ".join(sorted({an.describe(e) for e in pos})[:2])]
        chk.ob("R02.7j", key, None, _cwhere(fn), "%s (not decided: %s)" % (msg, "; ".join(why)))
    else:
        chk.ob("R02.7j", key, True, _cwhere(fn),
               "%s: at every return the number of steps of %s equals the number of newlines consumed (reads: %s)"
               % (msg, ctr[0], ", ".join(sorted({s["text"] for s in an.sites.values()}))))
        return True, tuple(ctr)
    return (False if neg and not an.imprecise else None), ()


def _skip_total_is_nskip(fn, counters):
    """does the row skipper leave its loop after exactly <number of rows to skip> steps of its row counter?  Recognised: one loop,
    left only through its condition (no break / return / goto inside), with a single step of the counter in it, counting
      up:    counter starts at 0, steps +1, the loop runs while counter < N
      down:  counter starts at N (or is N), steps -1, the loop runs while counter > 0
    where N is the parameter, which is not assigned otherwise.  Returns (True, text) / (None, why not recognised)."""
    params = [p for p in cfront.params_of(fn) if p]
    body = cfront.body_of(fn)
    if len(params) != 1 or len(counters) != 1:
        return None, "expected one parameter and one row counter (%s; %s)" % (params, list(counters))
    N, c = params[0], counters[0]
    loops = [x for x in cfront.walk(body) if x.get("kind") in ("ForStmt", "WhileStmt", "DoStmt")]
    if len(loops) != 1 or loops[0].get("kind") == "DoStmt":
        return None, "expected a single while / for loop"
    lp = loops[0]
    parts = [x for x in (lp.get("inner", []) or []) if isinstance(x, dict)]
    if lp.get("kind") == "ForStmt":
        if len(parts) != 5:
            return None, "for loop not understood"
        init, cond, loopbody = parts[0], parts[2], [parts[3], parts[4]]
    else:
        init, cond, loopbody = None, parts[0], [parts[-1]]
    inside = [y for part in loopbody for y in cfront.walk(part)]
    if any(y.get("kind") in ("BreakStmt", "ReturnStmt", "GotoStmt") for y in inside):
        return None, "the loop can be left other than through its condition"

    def writes(x, v):
        """'+' / '-' for a step of v by one, 'w' for any other write of v, None"""
        k = x.get("kind")
        if k == "UnaryOperator" and x.get("opcode") in ("++", "--") and _sk_name(_sk_inner(x)[0]) == v:
            return "+" if x["opcode"] == "++" else "-"
        if k == "CompoundAssignOperator" and _sk_name(_sk_inner(x)[0]) == v:
            return {"+=": "+", "-=": "-"}.get(x.get("opcode"), "w") if _sk_const(_sk_inner(x)[1]) == 1 else "w"
        if k == "BinaryOperator" and x.get("opcode") == "=" and _sk_name(_sk_inner(x)[0]) == v:
            r = cfront.strip(_sk_inner(x)[1])
            if r.get("kind") == "BinaryOperator" and r.get("opcode") in ("+", "-"):
                a, b = _sk_inner(r)
                if _sk_name(a) == v and _sk_const(b) == 1:
                    return r["opcode"]
                if r["opcode"] == "+" and _sk_name(b) == v and _sk_const(a) == 1:
                    return "+"
            return "w"
        if k == "UnaryOperator" and x.get("opcode") == "&" and _sk_name(_sk_inner(x)[0]) == v:
            return "w"
        return None

    steps = [w for y in inside + list(cfront.walk(cond)) for w in [writes(y, c)] if w]
    if len(steps) != 1 or steps[0] == "w" or any(writes(y, c) for y in cfront.walk(cond)):
        return None, "the counter %s is not stepped exactly once per round of the loop" % c
    outside = [y for y in cfront.walk(body) if id(y) not in {id(z) for z in inside} and id(y) not in {id(z) for z in cfront.walk(cond)}]
    if c != N and any(writes(y, N) for y in cfront.walk(body)):
        return None, "the number of rows to skip, %s, is modified" % N
    starts = []
    for y in outside:
        if y.get("kind") == "VarDecl" and y.get("name") == c and "init" in y and _sk_inner(y):
            starts.append(cfront.strip(_sk_inner(y)[-1]))
        elif writes(y, c):
            if y.get("kind") == "BinaryOperator" and y.get("opcode") == "=":
                starts.append(cfront.strip(_sk_inner(y)[1]))
            else:
                return None, "the counter %s is modified outside the loop" % c
    cc = cfront.strip(cond)
    rel = None
    if cc.get("kind") == "BinaryOperator" and cc.get("opcode") in ("<", ">"):
        l, r = (cfront.strip(x) for x in _sk_inner(cc))
        if cc["opcode"] == ">":
            l, r = r, l
        rel = (l, r)                  # l < r
    if rel is None:
        return None, "loop condition %s not understood" % cfront.render(cond)
    l, r = rel
    if steps[0] == "+":
        ok = len(starts) == 1 and _sk_const(starts[0]) == 0 and _sk_name(l) == c and _sk_name(r) == N and c != N
        return (True, "%s counts from 0 up while %s < %s" % (c, c, N)) if ok else (None, "counting up, but not from 0 while %s < %s" % (c, N))
    ok = _sk_const(l) == 0 and _sk_name(r) == c and ((c == N and not starts) or (c != N and len(starts) == 1 and _sk_name(starts[0]) == N))
    return (True, "%s counts from %s down while %s > 0" % (c, N, c)) if ok else (None, "counting down, but not from %s while %s > 0" % (N, c))


def _r02_7j_structural(chk, cfun, sem=None):
    sk = cfun.get("Records::skip_binary_rows")
    if sk is not None:
        okk = any(cfront.render(c).replace(" ", "") in ("myfseeko(mFptr,(mRowSize*nskip),1)", "myfseeko(mFptr,(nskip*mRowSize),1)") for c in cfront.calls_in(sk))
        chk.ob("R02.7j", "Records::skip_binary_rows::distance", okk, _cwhere(sk),
               "skipping n binary rows seeks n*rowsize bytes forward from the current position")
    sr = cfun.get("Records::skip_rows")
    if sr is not None:
        asg = [cfront.render(x["inner"][1]) for x in cfront.walk(cfront.body_of(sr))
               if x.get("kind") == "BinaryOperator" and x.get("opcode") == "=" and cfront.render(x["inner"][0]) == "rows2skip"]
        asg += [cfront.render([c for c in x.get("inner", []) if isinstance(c, dict) and c.get("kind")][-1]) for x in cfront.walk(cfront.body_of(sr))
                if x.get("kind") == "VarDecl" and x.get("name") == "rows2skip" and "init" in x and cfront.render([c for c in x.get("inner", []) if isinstance(c, dict) and c.get("kind")][-1]) != "0"]
        chk.ob("R02.7j", "Records::skip_rows::distance", bool(asg) and all(a == "(row2read - current_row)" for a in asg), _cwhere(sr),
               "skip_rows skips row2read-current_row rows")
    st = cfun.get("Records::skip_text_rows")
    if st is not None:
        txt = [cfront.render(x) for x in cfront.walk(cfront.body_of(st)) if x.get("kind") in ("BinaryOperator",) and x.get("opcode") in ("<", "==")]
        okk = "(nlines < nskip)" in txt and any("'\\n'" in t for t in txt)
        how = str(txt)
        if not okk and sem and sem[0] is True:
            # other spellings of the loop: the counter steps exactly once per newline consumed (semantic instance above) and the loop
            # ends after exactly nskip steps
            tot, why = _skip_total_is_nskip(st, sem[1])
            if tot:
                okk, how = True, "the row counter steps exactly with the newlines consumed, and %s" % why
            else:
                how += "; " + why
        chk.ob("R02.7j", "Records::skip_text_rows::counts-newlines", okk, _cwhere(st),
               "skipping text rows counts newline characters until nskip lines passed (%s)" % how)



# ===========================================================================
# Bounded abstract evaluation of the Python side.
#
# The selection helpers of Recfile / SFile are small, loop-free (or loop over a
# handful of elements) integer / dispatch code.  Instead of recognising how a
# helper is *spelled*, the rules below evaluate the parsed function bodies on
# model values (a model Recfile with `nrows`, `is_ascii`, a recording `robj`,
# model arrays) for every input of a small box and compare what comes out --
# the value returned, the exception raised, the primitive that was reached and
# its arguments -- with the specification (Python's own slice semantics,
# sorted(set(rows)), file order of columns ...).  Nothing of /repo is imported
# or run: the evaluator walks the ast of the current tree, supports only the
# constructs listed here and answers "not recognised" (_Unsup) for anything
# else, in which case the rule falls back to its structural form.
# ===========================================================================
class _Unsup(Exception):
    """construct outside the evaluator's fragment: no verdict from the evaluation"""


class _PyRaise(Exception):
    def __init__(self, name, node=None):
        Exception.__init__(self, name)
        self.name = name
        self.node = node


class _Ret(Exception):
    def __init__(self, value):
        self.value = value


class _Brk(Exception):
    pass


class _Cont(Exception):
    pass


class _MArr(list):
    """model of a 1-d numpy array"""
    dtype = None

    @property
    def size(self):
        return len(self)


class _MBuf(object):
    """model of numpy.zeros(n, dtype=<structured>)"""

    def __init__(self, n, dtype):
        self.n = n
        self.dtype = dtype

    @property
    def size(self):
        return self.n

    def __repr__(self):
        return "zeros(%r, dtype=%r)" % (self.n, self.dtype)


class _MObj(object):
    """model object: attributes, stub methods (python callables), and optionally the repo class whose methods are evaluated"""

    def __init__(self, name, attrs=None, stubs=None, cls=None, getitem=None):
        self.name = name
        self.attrs = dict(attrs or {})
        self.stubs = dict(stubs or {})
        self.cls = cls
        self.getitem = getitem

    def __repr__(self):
        return "<%s>" % self.name


class _Tag(tuple):
    """opaque tagged result of a stub: ('split', x) ..."""

    def __repr__(self):
        return "%s(%s)" % (self[0], ", ".join(repr(x) for x in self[1:]))


class _Func(object):
    def __init__(self, fi, selfobj=None):
        self.fi = fi
        self.selfobj = selfobj


class _Closure(object):
    def __init__(self, node, frame):
        self.node = node
        self.frame = frame


class _Frame(object):
    def __init__(self, fi, env, parent=None):
        self.fi = fi
        self.env = env
        self.parent = parent

    def lookup(self, name):
        f = self
        while f is not None:
            if name in f.env:
                return True, f.env[name]
            f = f.parent
        return False, None


_MODEL_TYPES = (_MObj, _MBuf, _MArr, _Tag)
_INT_CODES = ("i8", "i4", "int", "int64", "int32", "<i8", "intp")


def _is_model(*vs):
    return any(isinstance(v, _MODEL_TYPES) for v in vs)


class _PyMini(object):
    def __init__(self, repo, func_stubs=None, class_stubs=None, budget=40000):
        self.repo = repo
        self.func_stubs = dict(func_stubs or {})       # module-level function name -> python callable
        self.class_stubs = dict(class_stubs or {})     # class name -> python callable (constructor)
        self.budget = budget
        self.steps = 0
        self.trace = []
        self.numpy = self._numpy_model()
        self.copy = _MObj("copy", stubs={"deepcopy": lambda x: _Tag(("copy", x)), "copy": lambda x: _Tag(("copy", x))})

    # -- models ----------------------------------------------------------
    def _numpy_model(self):
        def zeros(n, dtype=None):
            if isinstance(n, bool) or not isinstance(n, int):
                raise _Unsup("zeros with non-integer size %r" % (n,))
            if dtype in _INT_CODES or dtype is int:
                return _MArr([0] * n)
            return _MBuf(n, dtype)

        def arange(*a, **kw):
            kw.pop("dtype", None)
            if kw or not all(isinstance(x, int) and not isinstance(x, bool) for x in a):
                raise _Unsup("arange%r" % (a,))
            return _MArr(range(*a))

        def seq(x):
            if isinstance(x, (list, tuple, range)):
                return _MArr(x)
            if _is_model(x) or isinstance(x, (dict, slice)) or x is None:
                raise _Unsup("array of %r" % (x,))
            return _MArr([x])

        def array(x, dtype=None, **kw):
            if isinstance(x, (list, tuple, range)):
                return _MArr(x)
            raise _Unsup("numpy.array of a scalar")

        def unique(x):
            if not isinstance(x, (list, tuple)):
                raise _Unsup("unique of %r" % (x,))
            return _MArr(sorted(set(x)))

        def where(m):
            if not isinstance(m, _MArr):
                raise _Unsup("where of %r" % (m,))
            return (_MArr([i for i, v in enumerate(m) if v]),)

        def fromiter(it, dtype=None, count=-1):
            v = list(it)
            if count not in (-1, None) and count != len(v):
                raise _PyRaise("ValueError")
            return _MArr(v)

        def isscalar(x):
            return isinstance(x, (int, float, str, bytes, bool))

        def sort(x):
            return _MArr(sorted(x))

        def diff(x):
            if not isinstance(x, (list, tuple)):
                raise _Unsup("diff of %r" % (x,))
            return _MArr([b - a for a, b in zip(x[:-1], x[1:])])

        def red(f):
            def g(x):
                if not isinstance(x, (list, tuple)) or isinstance(x, _Tag):
                    raise _Unsup("reduction of %r" % (x,))
                if not x and f in (min, max):
                    raise _PyRaise("ValueError")
                return f(x)
            return g

        return _MObj("numpy", attrs={"ndarray": _MArr}, stubs={
            "zeros": zeros, "empty": zeros, "arange": arange, "atleast_1d": seq, "array": array, "asarray": array, "unique": unique,
            "where": where, "nonzero": where, "flatnonzero": lambda m: where(m)[0], "fromiter": fromiter, "isscalar": isscalar, "sort": sort,
            "int64": int, "intp": int, "diff": diff, "any": red(any), "all": red(all), "min": red(min), "max": red(max), "amin": red(min),
            "amax": red(max), "size": red(len), "count_nonzero": red(lambda x: sum(1 for v in x if v))})

    # -- function calls --------------------------------------------------
    def run(self, fi, args, kw, selfobj=None):
        """top-level evaluation of one scenario (fresh step budget)"""
        self.steps = 0
        return self.call_function(fi, args, kw, selfobj)

    def call_function(self, fi, args, kw, selfobj=None):
        if selfobj is not None:
            args = [selfobj] + list(args)
        env = self._bind(fi.node, list(args), dict(kw), fi)
        fr = _Frame(fi, env)
        return self._run_body(fi.node.body, fr)

    def _run_body(self, body, fr):
        try:
            self.exec_block(body, fr)
        except _Ret as r:
            return r.value
        return None

    def _bind(self, fnode, args, kw, fi, frame=None):
        a = fnode.args
        pos = [x.arg for x in a.posonlyargs + a.args]
        kwonly = [x.arg for x in a.kwonlyargs]
        env = {}
        if len(args) > len(pos) and not a.vararg:
            raise _PyRaise("TypeError")
        for p, v in zip(pos, args):
            env[p] = v
        if a.vararg:
            env[a.vararg.arg] = tuple(args[len(pos):])
        extra = {}
        for k, v in kw.items():
            if k in pos or k in kwonly:
                if k in env:
                    raise _PyRaise("TypeError")
                env[k] = v
            elif a.kwarg:
                extra[k] = v
            else:
                raise _PyRaise("TypeError")
        if a.kwarg:
            env[a.kwarg.arg] = extra
        dfr = frame or _Frame(fi, {})
        for p, d in zip(pos[len(pos) - len(a.defaults):], a.defaults):
            if p not in env:
                env[p] = self.ev(d, dfr)
        for p, d in zip(kwonly, a.kw_defaults):
            if p not in env and d is not None:
                env[p] = self.ev(d, dfr)
        for p in pos + kwonly:
            if p not in env:
                raise _PyRaise("TypeError")
        return env

    def call_value(self, f, args, kw, node=None):
        if isinstance(f, _Func):
            decs = {dotted_name(d) for d in f.fi.node.decorator_list}
            if "classmethod" in decs:
                raise _Unsup("classmethod %s" % f.fi.name)
            return self.call_function(f.fi, args, kw, None if "staticmethod" in decs else f.selfobj)
        if isinstance(f, _Closure):
            env = self._bind(f.node, list(args), dict(kw), f.frame.fi, f.frame)
            return self._run_body(f.node.body, _Frame(f.frame.fi, env, f.frame))
        if f is _MArr:
            raise _Unsup("numpy.ndarray constructor")
        if callable(f):
            try:
                return f(*args, **kw)
            except (_Unsup, _PyRaise, _Ret):
                raise
            except (IndexError, KeyError, ZeroDivisionError) as e:
                raise _PyRaise(type(e).__name__, node)
            except (TypeError, ValueError, AttributeError) as e:
                if _is_model(*args) or _is_model(*kw.values()):
                    raise _Unsup("%s in a modelled call: %s" % (type(e).__name__, e))
                raise _PyRaise(type(e).__name__, node)
        raise _Unsup("call of %r" % (f,))

    # -- statements ------------------------------------------------------
    def exec_block(self, stmts, fr):
        for st in stmts:
            self.exec_stmt(st, fr)

    def exec_stmt(self, st, fr):
        self.steps += 1
        if self.steps > self.budget:
            raise _Unsup("evaluation budget exhausted")
        if isinstance(st, ast.Expr):
            if not isinstance(st.value, ast.Constant):
                self.ev(st.value, fr)
            return
        if isinstance(st, ast.Assign):
            v = self.ev(st.value, fr)
            for t in st.targets:
                self.assign(t, v, fr)
            return
        if isinstance(st, ast.AugAssign):
            cur = self.ev(_as_load(st.target), fr)
            self.assign(st.target, self.binop(st.op, cur, self.ev(st.value, fr), st), fr)
            return
        if isinstance(st, ast.AnnAssign):
            if st.value is not None:
                self.assign(st.target, self.ev(st.value, fr), fr)
            return
        if isinstance(st, ast.Return):
            raise _Ret(self.ev(st.value, fr) if st.value is not None else None)
        if isinstance(st, ast.If):
            self.exec_block(st.body if self.truth(self.ev(st.test, fr)) else st.orelse, fr)
            return
        if isinstance(st, ast.Pass):
            return
        if isinstance(st, ast.Raise):
            nm = "Exception"
            if st.exc is not None:
                e = st.exc.func if isinstance(st.exc, ast.Call) else st.exc
                nm = dotted_name(e) or "Exception"
            raise _PyRaise(nm.split(".")[-1], st)
        if isinstance(st, ast.For):
            it = self.ev(st.iter, fr)
            if isinstance(it, dict):
                it = list(it)
            if not isinstance(it, (list, tuple, range, str)) and not hasattr(it, "__next__"):
                raise _Unsup("loop over %r" % (it,))
            broke = False
            for v in it:
                self.assign(st.target, v, fr)
                try:
                    self.exec_block(st.body, fr)
                except _Brk:
                    broke = True
                    break
                except _Cont:
                    continue
            if not broke:
                self.exec_block(st.orelse, fr)
            return
        if isinstance(st, ast.While):
            n = 0
            while self.truth(self.ev(st.test, fr)):
                n += 1
                if n > 2000:
                    raise _Unsup("while loop does not terminate within the bound")
                try:
                    self.exec_block(st.body, fr)
                except _Brk:
                    return
                except _Cont:
                    continue
            self.exec_block(st.orelse, fr)
            return
        if isinstance(st, ast.Break):
            raise _Brk()
        if isinstance(st, ast.Continue):
            raise _Cont()
        if isinstance(st, ast.Try):
            try:
                try:
                    self.exec_block(st.body, fr)
                except _PyRaise as e:
                    for h in st.handlers:
                        names = []
                        if h.type is not None:
                            names = [dotted_name(x) for x in (h.type.elts if isinstance(h.type, ast.Tuple) else [h.type])]
                        if h.type is None or "Exception" in names or "BaseException" in names or e.name in [(n or "").split(".")[-1] for n in names]:
                            if h.name:
                                fr.env[h.name] = _Tag(("exception", e.name))
                            self.exec_block(h.body, fr)
                            break
                    else:
                        raise
                else:
                    self.exec_block(st.orelse, fr)
            finally:
                if st.finalbody:
                    self.exec_block(st.finalbody, fr)
            return
        if isinstance(st, (ast.FunctionDef,)):
            fr.env[st.name] = _Closure(st, fr)
            return
        if isinstance(st, ast.With):
            entered = []
            for it in st.items:
                o = self.ev(it.context_expr, fr)
                if not isinstance(o, _MObj):
                    raise _Unsup("with over %r" % (o,))
                v = self.call_value(self.attr(o, "__enter__"), [], {}, st)
                entered.append(o)
                if it.optional_vars is not None:
                    self.assign(it.optional_vars, v, fr)
            try:
                self.exec_block(st.body, fr)
            finally:
                for o in reversed(entered):
                    self.call_value(self.attr(o, "__exit__"), [None, None, None], {}, st)
            return
        if isinstance(st, ast.Assert):
            if not self.truth(self.ev(st.test, fr)):
                raise _PyRaise("AssertionError", st)
            return
        if isinstance(st, ast.Delete):
            for t in st.targets:
                if isinstance(t, ast.Name) and t.id in fr.env:
                    del fr.env[t.id]
                elif isinstance(t, ast.Subscript):
                    o = self.ev(t.value, fr)
                    if not isinstance(o, (dict, list)) or _is_model(o):
                        raise _Unsup("del on %r" % (o,))
                    try:
                        del o[self.ev(t.slice, fr)]
                    except (KeyError, IndexError) as e:
                        raise _PyRaise(type(e).__name__, st)
                else:
                    raise _Unsup("del target")
            return
        raise _Unsup("statement %s" % type(st).__name__)

    def assign(self, t, v, fr):
        if isinstance(t, ast.Name):
            fr.env[t.id] = v
            return
        if isinstance(t, (ast.Tuple, ast.List)):
            if any(isinstance(e, ast.Starred) for e in t.elts):
                raise _Unsup("starred assignment target")
            if isinstance(v, (_MObj, _MBuf, _Tag)) or not isinstance(v, (list, tuple)):
                raise _Unsup("unpacking of %r" % (v,))
            if len(v) != len(t.elts):
                raise _PyRaise("ValueError", t)
            for e, x in zip(t.elts, v):
                self.assign(e, x, fr)
            return
        if isinstance(t, ast.Attribute):
            o = self.ev(t.value, fr)
            if isinstance(o, _MObj):
                o.attrs[t.attr] = v
                return
            raise _Unsup("attribute store on %r" % (o,))
        if isinstance(t, ast.Subscript):
            o = self.ev(t.value, fr)
            i = self.ev(t.slice, fr)
            if isinstance(o, (list, dict)) and not isinstance(o, (_MObj, _MBuf)):
                try:
                    o[i] = v
                except (IndexError, KeyError, TypeError) as e:
                    raise _PyRaise(type(e).__name__, t)
                return
            raise _Unsup("item store on %r" % (o,))
        raise _Unsup("assignment target %s" % type(t).__name__)

    # -- expressions -----------------------------------------------------
    def truth(self, v):
        if isinstance(v, _MArr):
            if len(v) == 1:
                return bool(v[0])
            if len(v) == 0:
                raise _Unsup("truth value of an empty array")
            raise _PyRaise("ValueError")
        if isinstance(v, (_MObj, _MBuf, _Tag)) and not isinstance(v, _MArr):
            if isinstance(v, _MObj) and "__truth__" in v.attrs:
                return v.attrs["__truth__"]
            raise _Unsup("truth value of %r" % (v,))
        return bool(v)

    def name(self, n, fr):
        ok, v = fr.lookup(n.id)
        if ok:
            return v
        mod = fr.fi.module
        nm = n.id
        if nm in self.func_stubs:
            return self.func_stubs[nm]
        if nm in self.class_stubs:
            return self.class_stubs[nm]
        if nm in mod.funcs:
            return _Func(mod.funcs[nm])
        if nm in mod.imports:
            tgt = mod.imports[nm]
            if tgt == "numpy" or tgt.startswith("numpy."):
                if tgt == "numpy":
                    return self.numpy
                return self.attr(self.numpy, tgt.split(".", 1)[1])
            if tgt == "copy":
                return self.copy
            full = self.repo.resolve_name(mod, nm)
            if full.split(".")[-1] in self.func_stubs:
                return self.func_stubs[full.split(".")[-1]]
            if self.repo.has(full):
                return _Func(self.repo.func(full))
            raise _Unsup("imported name %s" % nm)
        if nm in mod.classes:
            raise _Unsup("class %s has no model" % nm)
        if nm in mod.consts and isinstance(mod.consts[nm], (ast.Constant, ast.Tuple, ast.List, ast.UnaryOp, ast.BinOp, ast.Dict)):
            return self.ev(mod.consts[nm], _Frame(fr.fi, {}))
        if nm in _BUILTINS:
            return _BUILTINS[nm]
        for sm in mod.star:
            if self.repo.has(sm + "." + nm):
                return _Func(self.repo.func(sm + "." + nm))
        raise _Unsup("name %s" % nm)

    def attr(self, o, a):
        if isinstance(o, _MObj):
            if a in o.attrs:
                return o.attrs[a]
            if a in o.stubs:
                return o.stubs[a]
            if o.cls and self.repo.has(o.cls + "." + a):
                fi = self.repo.func(o.cls + "." + a)
                if "property" in {dotted_name(d) for d in fi.node.decorator_list}:
                    return self.call_function(fi, [], {}, o)
                return _Func(fi, o)
            raise _Unsup("attribute %s of %r" % (a, o))
        if isinstance(o, slice) and a in ("start", "stop", "step", "indices"):
            return getattr(o, a)
        if isinstance(o, _MArr):
            if a == "size":
                return len(o)
            if a == "dtype" and o.dtype is not None:
                return o.dtype
            m = _ARR_METHODS.get(a)
            if m is not None:
                return lambda *x, **k: m(o, *x, **k)
            raise _Unsup("array attribute %s" % a)
        if isinstance(o, _MBuf) and a in ("size", "dtype"):
            return getattr(o, a)
        if isinstance(o, list) and a in ("append", "extend", "index", "count", "copy"):
            return getattr(o, a)
        if isinstance(o, dict) and a in ("get", "keys", "values", "items", "pop"):
            return getattr(o, a)
        if isinstance(o, str) and a in ("lower", "upper", "strip", "startswith", "endswith", "format", "join", "split"):
            return getattr(o, a)
        raise _Unsup("attribute %s of %r" % (a, o))

    def ev(self, e, fr):
        self.steps += 1
        if self.steps > self.budget:
            raise _Unsup("evaluation budget exhausted")
        if isinstance(e, ast.Constant):
            return e.value
        if isinstance(e, ast.Name):
            return self.name(e, fr)
        if isinstance(e, ast.Attribute):
            return self.attr(self.ev(e.value, fr), e.attr)
        if isinstance(e, ast.Tuple):
            return tuple(self._elts(e.elts, fr))
        if isinstance(e, ast.List):
            return list(self._elts(e.elts, fr))
        if isinstance(e, ast.Dict):
            if any(k is None for k in e.keys):
                raise _Unsup("dict unpacking")
            return {self.ev(k, fr): self.ev(v, fr) for k, v in zip(e.keys, e.values)}
        if isinstance(e, ast.BoolOp):
            v = None
            for x in e.values:
                v = self.ev(x, fr)
                t = self.truth(v)
                if isinstance(e.op, ast.And) and not t:
                    return v
                if isinstance(e.op, ast.Or) and t:
                    return v
            return v
        if isinstance(e, ast.UnaryOp):
            v = self.ev(e.operand, fr)
            if isinstance(e.op, ast.Not):
                return not self.truth(v)
            if _is_model(v):
                if isinstance(v, _MArr) and isinstance(e.op, ast.Invert):
                    return _MArr([not x for x in v])
                raise _Unsup("unary operator on %r" % (v,))
            try:
                if isinstance(e.op, ast.USub):
                    return -v
                if isinstance(e.op, ast.UAdd):
                    return +v
                if isinstance(e.op, ast.Invert):
                    return ~v
            except TypeError:
                raise _PyRaise("TypeError", e)
        if isinstance(e, ast.BinOp):
            return self.binop(e.op, self.ev(e.left, fr), self.ev(e.right, fr), e)
        if isinstance(e, ast.Compare):
            l = self.ev(e.left, fr)
            res = True
            for op, c in zip(e.ops, e.comparators):
                r = self.ev(c, fr)
                res = self.compare(op, l, r, e)
                if isinstance(res, _MArr):
                    if len(e.ops) > 1:
                        raise _Unsup("chained element-wise comparison")
                    return res
                if not res:
                    return False
                l = r
            return res
        if isinstance(e, ast.IfExp):
            return self.ev(e.body if self.truth(self.ev(e.test, fr)) else e.orelse, fr)
        if isinstance(e, ast.Subscript):
            return self.subscript(self.ev(e.value, fr), self.ev(e.slice, fr), e)
        if isinstance(e, ast.Slice):
            return slice(*(self.ev(x, fr) if x is not None else None for x in (e.lower, e.upper, e.step)))
        if isinstance(e, ast.Call):
            return self.call(e, fr)
        if isinstance(e, (ast.ListComp, ast.GeneratorExp, ast.SetComp)):
            out = []
            self._comp(e.generators, 0, e.elt, _Frame(fr.fi, {}, fr), out)
            if isinstance(e, ast.SetComp):
                return set(out)
            return out if isinstance(e, ast.ListComp) else iter(out)
        if isinstance(e, ast.JoinedStr):
            return "<text>"
        if isinstance(e, ast.NamedExpr) and isinstance(e.target, ast.Name):
            v = self.ev(e.value, fr)
            fr.env[e.target.id] = v
            return v
        if isinstance(e, ast.Starred):
            raise _Unsup("starred expression")
        if isinstance(e, ast.Lambda):
            return _Closure(ast.FunctionDef(name="<lambda>", args=e.args, body=[ast.Return(value=e.body)], decorator_list=[]), fr)
        raise _Unsup("expression %s" % type(e).__name__)

    def _elts(self, elts, fr):
        out = []
        for x in elts:
            if isinstance(x, ast.Starred):
                v = self.ev(x.value, fr)
                if _is_model(v) and not isinstance(v, _MArr) or not isinstance(v, (list, tuple, range)):
                    raise _Unsup("star-expansion of %r" % (v,))
                out.extend(v)
            else:
                out.append(self.ev(x, fr))
        return out

    def _comp(self, gens, i, elt, fr, out):
        if i == len(gens):
            out.append(self.ev(elt, fr))
            return
        g = gens[i]
        it = self.ev(g.iter, fr)
        if isinstance(it, dict):
            it = list(it)
        if not isinstance(it, (list, tuple, range, str)) and not hasattr(it, "__next__"):
            raise _Unsup("comprehension over %r" % (it,))
        for v in it:
            self.assign(g.target, v, fr)
            if all(self.truth(self.ev(c, fr)) for c in g.ifs):
                self._comp(gens, i + 1, elt, fr, out)

    def binop(self, op, a, b, node):
        if isinstance(a, str) and isinstance(op, ast.Mod):
            try:
                return a % (b if not _is_model(b) else "?")
            except Exception:
                return "<text>"
        if _is_model(a, b):
            if isinstance(a, _MArr) or isinstance(b, _MArr):
                f = _OPS.get(type(op))
                if f is None:
                    raise _Unsup("array operator")
                try:
                    if isinstance(a, _MArr) and isinstance(b, _MArr):
                        if len(a) != len(b):
                            raise _Unsup("array shapes")
                        return _MArr([f(x, y) for x, y in zip(a, b)])
                    if isinstance(a, _MArr) and not _is_model(b):
                        return _MArr([f(x, b) for x in a])
                    if isinstance(b, _MArr) and not _is_model(a):
                        return _MArr([f(a, y) for y in b])
                except (TypeError, ZeroDivisionError) as e:
                    raise _PyRaise(type(e).__name__, node)
            raise _Unsup("operator on %r, %r" % (a, b))
        f = _OPS.get(type(op))
        if f is None:
            raise _Unsup("operator %s" % type(op).__name__)
        try:
            return f(a, b)
        except (TypeError, ZeroDivisionError, ValueError, OverflowError) as e:
            raise _PyRaise(type(e).__name__, node)

    def compare(self, op, l, r, node):
        if isinstance(op, ast.Is):
            return l is r
        if isinstance(op, ast.IsNot):
            return l is not r
        if isinstance(op, (ast.In, ast.NotIn)):
            if isinstance(r, _MObj) and "__contains__" in r.stubs:
                res = r.stubs["__contains__"](l)
            elif isinstance(r, (list, tuple, dict, set, str, range)):
                try:
                    res = l in r
                except TypeError:
                    raise _PyRaise("TypeError", node)
            else:
                raise _Unsup("membership in %r" % (r,))
            return res if isinstance(op, ast.In) else not res
        f = _CMPS[type(op)]
        if isinstance(l, _MArr) or isinstance(r, _MArr):
            try:
                if isinstance(l, _MArr) and isinstance(r, _MArr):
                    if len(l) != len(r):
                        raise _Unsup("array shapes")
                    return _MArr([f(x, y) for x, y in zip(l, r)])
                if isinstance(l, _MArr):
                    if _is_model(r):
                        raise _Unsup("array comparison")
                    return _MArr([f(x, r) for x in l])
                if _is_model(l):
                    raise _Unsup("array comparison")
                return _MArr([f(l, y) for y in r])
            except TypeError:
                raise _PyRaise("TypeError", node)
        if _is_model(l, r):
            if isinstance(op, (ast.Eq, ast.NotEq)):
                return f(l, r) if not (isinstance(l, _Tag) or isinstance(r, _Tag)) else ((tuple(l) == tuple(r)) == isinstance(op, ast.Eq) if isinstance(l, _Tag) and isinstance(r, _Tag) else isinstance(op, ast.NotEq))
            raise _Unsup("ordering of %r, %r" % (l, r))
        try:
            return f(l, r)
        except TypeError:
            raise _PyRaise("TypeError", node)

    def subscript(self, o, i, node):
        if isinstance(o, _MObj):
            if o.getitem is not None:
                return o.getitem(i)
            raise _Unsup("indexing of %r" % (o,))
        if isinstance(o, (_MBuf, _Tag)):
            return _Tag(("getitem", o, i))
        if isinstance(o, _MArr) and isinstance(i, _MArr):
            if i and all(isinstance(x, bool) for x in i):
                return _MArr([x for x, m in zip(o, i) if m])
            try:
                return _MArr([o[x] for x in i])
            except (IndexError, TypeError) as e:
                raise _PyRaise(type(e).__name__, node)
        if isinstance(o, (list, tuple, str, dict, range)):
            if _is_model(i):
                raise _Unsup("index %r" % (i,))
            try:
                v = o[i]
            except (IndexError, KeyError, TypeError) as e:
                raise _PyRaise(type(e).__name__, node)
            return _MArr(v) if isinstance(o, _MArr) and isinstance(i, slice) else v
        raise _Unsup("indexing of %r" % (o,))

    def call(self, c, fr):
        f = self.ev(c.func, fr)
        args = self._elts(c.args, fr)
        kw = {}
        for k in c.keywords:
            v = self.ev(k.value, fr)
            if k.arg is None:
                if not isinstance(v, dict):
                    raise _Unsup("** of %r" % (v,))
                kw.update(v)
            else:
                kw[k.arg] = v
        return self.call_value(f, args, kw, c)


def _as_load(t):
    import copy as _c
    t = _c.deepcopy(t)
    for x in ast.walk(t):
        if hasattr(x, "ctx"):
            x.ctx = ast.Load()
    return t


def _b_isinstance(x, t):
    ts = t if isinstance(t, tuple) else (t,)
    for k in ts:
        k = {_b_tuple: tuple, _b_list: list}.get(k, k) if callable(k) and not isinstance(k, type) else k
        if k is _MArr:
            if isinstance(x, _MArr):
                return True
        elif k in (list, tuple):
            if isinstance(x, k) and not isinstance(x, (_MArr, _Tag)):
                return True
        elif k is int:
            if isinstance(x, int) and not isinstance(x, bool):
                return True
        elif isinstance(k, type):
            if isinstance(x, k):
                return True
        else:
            raise _Unsup("isinstance against %r" % (k,))
    return False


def _b_hasattr(o, a):
    if isinstance(o, _MObj):
        return a in o.attrs or a in o.stubs
    if isinstance(o, (_MArr, _MBuf)):
        return a in ("dtype", "size", "shape")
    if _is_model(o):
        raise _Unsup("hasattr of %r" % (o,))
    return hasattr(o, a)


_NODEFAULT = object()


def _b_getattr(o, a, d=_NODEFAULT):
    if isinstance(o, _MObj):
        if a in o.attrs:
            return o.attrs[a]
        if d is _NODEFAULT:
            raise _PyRaise("AttributeError")
        return d
    if isinstance(o, (_MArr, _MBuf)) and a in ("dtype", "size"):
        v = getattr(o, a)
        if v is None and a == "dtype":
            raise _Unsup("dtype of a model array")
        return v
    if _is_model(o):
        raise _Unsup("getattr of %r" % (o,))
    if d is _NODEFAULT:
        if hasattr(o, a):
            raise _Unsup("getattr(%r, %s)" % (o, a))
        raise _PyRaise("AttributeError")
    if hasattr(o, a):
        raise _Unsup("getattr(%r, %s)" % (o, a))
    return d


def _b_len(x):
    if isinstance(x, _MObj):
        if "__len__" in x.attrs:
            return x.attrs["__len__"]
        raise _Unsup("len of %r" % (x,))
    if isinstance(x, _MBuf):
        return x.n
    if isinstance(x, _Tag):
        raise _Unsup("len of %r" % (x,))
    return len(x)


def _b_tuple(x=()):
    if _is_model(x) and not isinstance(x, _MArr):
        raise _Unsup("tuple of %r" % (x,))
    return tuple(x)


def _b_list(x=()):
    if _is_model(x) and not isinstance(x, _MArr):
        raise _Unsup("list of %r" % (x,))
    return list(x)


_BUILTINS = {
    "int": int, "len": _b_len, "range": range, "max": max, "min": min, "abs": abs, "divmod": divmod, "slice": slice,
    "isinstance": _b_isinstance, "tuple": _b_tuple, "list": _b_list, "str": str, "bool": bool, "float": float, "sorted": sorted,
    "set": set, "dict": dict, "hasattr": _b_hasattr, "getattr": _b_getattr, "enumerate": lambda x, start=0: list(enumerate(x, start)),
    "zip": lambda *a: list(zip(*a)), "sum": sum, "any": any, "all": all, "repr": repr,
    "True": True, "False": False, "None": None, "reversed": lambda x: list(reversed(x)), "iter": iter, "next": next,
    "ValueError": "ValueError", "IndexError": "IndexError", "TypeError": "TypeError", "Exception": "Exception", "KeyError": "KeyError",
    "RuntimeError": "RuntimeError",
}


import operator as _op

_OPS = {ast.Add: _op.add, ast.Sub: _op.sub, ast.Mult: _op.mul, ast.FloorDiv: _op.floordiv, ast.Mod: _op.mod, ast.Div: _op.truediv,
        ast.Pow: _op.pow, ast.BitAnd: _op.and_, ast.BitOr: _op.or_, ast.BitXor: _op.xor, ast.LShift: _op.lshift, ast.RShift: _op.rshift}
_CMPS = {ast.Eq: _op.eq, ast.NotEq: _op.ne, ast.Lt: _op.lt, ast.LtE: _op.le, ast.Gt: _op.gt, ast.GtE: _op.ge}
_ARR_METHODS = {
    "astype": lambda o, *a, **k: _MArr(o), "copy": lambda o: _MArr(o), "any": lambda o: any(o), "all": lambda o: all(o),
    "min": lambda o: _arr_reduce(min, o), "max": lambda o: _arr_reduce(max, o), "sum": lambda o: sum(o), "tolist": lambda o: list(o),
    "ravel": lambda o: _MArr(o), "sort": lambda o: list.sort(o), "nonzero": lambda o: (_MArr([i for i, v in enumerate(o) if v]),),
    "item": lambda o, *a: o[a[0] if a else 0],
}


def _arr_reduce(f, o):
    if not o:
        raise _PyRaise("ValueError")
    return f(o)


# ===========================================================================
# Bounded abstract evaluation of the C++ skip-and-read code over a file-cursor
# model (clang JSON AST; nothing is compiled or run).  The model file is a byte
# range (binary) or a character string of one-character tokens and delimiters
# (text); fread / fseek / fgetc and the per-column text scanner move the model
# cursor and log what was transferred where.  A rule compares the logged
# transfers, for every selection of a small table, with what indexing the
# fully-read table would give.
# ===========================================================================
class _CThrow(Exception):
    pass


class _CBad(Exception):
    """behaviour that is wrong whatever the caller does with it (out-of-bounds read of an index array ...)"""


class _CRet(Exception):
    def __init__(self, value):
        self.value = value


class _CBrk(Exception):
    pass


class _CCont(Exception):
    pass


class _CPtr(object):
    __slots__ = ("base", "off")

    def __init__(self, base, off):
        self.base = base
        self.off = off

    def __repr__(self):
        return "&%s[%d]" % (getattr(self.base, "name", self.base), self.off)


class _CRef(object):
    """a C++ reference (or the address of a local): an alias of the variable `key` of frame / member table `d`"""
    __slots__ = ("d", "key")

    def __init__(self, d, key):
        self.d = d
        self.key = key


class _CArr(object):
    """model of a PyArrayObject: `data` (list of ints) for the index arrays, None for the output buffer"""

    def __init__(self, name, size, itemsize, data=None):
        self.name = name
        self.size = size
        self.itemsize = itemsize
        self.stride = itemsize
        self.data = data

    def __repr__(self):
        return "<array %s>" % self.name


_C_NONE = type("PyNone", (), {"__repr__": lambda s: "Py_None"})()
_C_NONESTRUCT = object()
_C_CASTS = ("ImplicitCastExpr", "ParenExpr", "CStyleCastExpr", "ConstantExpr", "ExprWithCleanups", "MaterializeTemporaryExpr",
            "CXXBindTemporaryExpr", "CXXFunctionalCastExpr", "CXXStaticCastExpr", "CXXReinterpretCastExpr", "CXXConstCastExpr")
_C_SIZES = {"char": 1, "unsigned char": 1, "signed char": 1, "void": 1, "short": 2, "int": 4, "unsigned int": 4, "float": 4, "long": 8,
            "long long": 8, "unsigned long": 8, "double": 8, "npy_int64": 8, "npy_intp": 8, "npy_int32": 4, "size_t": 8, "npy_uint8": 1,
            "npy_int8": 1, "npy_int16": 2, "npy_float64": 8, "npy_float32": 4, "off_t": 8}
_C_PRIMS = {"fread", "fseek", "fseeko", "_fseeki64", "fseeko64", "ftell", "ftello", "fgetc", "getc", "rewind", "feof", "PyArray_BYTES",
            "PyArray_DATA", "PyArray_STRIDES", "PyArray_DIMS", "PyArray_NDIM", "PyArray_STRIDE", "PyArray_DIM", "PyArray_SIZE",
            "PyArray_Size", "PyArray_ITEMSIZE", "min", "max", "abs", "labs", "llabs"}
_tu_fn_cache = {}


def _tu_function(name, tu="records"):
    """a free function of the translation unit that the name-filtered dump does not contain, dumped on demand with its own filter"""
    if name in _tu_fn_cache:
        return _tu_fn_cache[name]
    key = "%s@%s" % (tu, name)
    cfront.TUS.setdefault(key, dict(cfront.TUS[tu], filt=name))
    try:
        fn = cfront.functions(cfront.load_tu(key, _raw=True)).get(name)
    except AnalysisError:
        fn = None
    _tu_fn_cache[name] = fn
    return fn


def _cdiv(a, b):
    if b == 0:
        raise _CBad("division by zero")
    q = abs(a) // abs(b)
    return q if (a >= 0) == (b >= 0) else -q


class _CFile(object):
    def __init__(self, kind, size, pos, text=None, data_start=0, nfields=1):
        self.kind = kind
        self.size = size
        self.pos = pos
        self.text = text
        self.data_start = data_start
        self.nfields = nfields
        self.events = []

    def fread(self, ptr, size, n):
        if self.kind != "bin":
            raise _Unsup("fread on the text model")
        if not isinstance(size, int) or not isinstance(n, int) or size <= 0 or n < 0:
            raise _Unsup("fread size")
        k = min(n, max(0, self.size - self.pos) // size)
        if k > 0:
            self.events.append(("rd", self.pos, size * k, ptr if isinstance(ptr, _CPtr) else None))
        self.pos += size * k
        return k

    def seek(self, off, whence):
        if not isinstance(off, int):
            raise _Unsup("seek offset %r" % (off,))
        new = {0: off, 1: self.pos + off, 2: self.size + off}.get(whence)
        if new is None:
            raise _Unsup("seek origin %r" % (whence,))
        if new < 0:
            return -1
        self.pos = new
        return 0

    def getc(self):
        if self.kind != "text":
            raise _Unsup("fgetc on the binary model")
        if self.pos >= len(self.text):
            return -1
        c = ord(self.text[self.pos])
        self.pos += 1
        return c

    def token(self, colarg, buff):
        """the per-column text scanner: consumes one token and its delimiter"""
        if self.kind != "text":
            raise _Unsup("text scanner on the binary model")
        rel = self.pos - self.data_start
        if rel < 0 or rel % 2 != 0:
            raise _CBad("text column read while the cursor is not at the start of a value (file position %d)" % self.pos)
        if self.pos >= len(self.text):
            raise _CThrow("EOF")
        t = rel // 2
        self.events.append(("tok", t // self.nfields, t % self.nfields, colarg, buff if isinstance(buff, _CPtr) else None))
        self.pos += 2


class _CSim(object):
    def __init__(self, cfun, members, fobj, cls="Records", stubs=None, budget=300000):
        self.cfun = cfun
        self.members = members
        self.file = fobj
        self.cls = cls
        self.stubs = dict(stubs or {})
        self.budget = budget
        self.steps = 0

    # -- calls -----------------------------------------------------------
    def call_method(self, name, args, depth=0):
        if name in self.stubs:
            return self.stubs[name](*args)
        fn = self.cfun.get("%s::%s" % (self.cls, name))
        if fn is None:
            raise _Unsup("method %s has no body in the translation unit" % name)
        return self.call_decl(fn, args, depth)

    def eval_args(self, fn, nodes, env, depth):
        """argument values for a call; a non-const reference parameter of an evaluated function receives an alias of the caller's variable"""
        out = []
        pds = [c for c in (fn.get("inner", []) or []) if c.get("kind") == "ParmVarDecl"] if fn is not None else []
        for i, a in enumerate(nodes):
            qt = ((pds[i].get("type") or {}).get("qualType", "") if i < len(pds) else "").strip()
            if qt.endswith("&") and not qt.startswith("const "):
                d, key = self.lvalue(a, env, depth)
                out.append(_CRef(d, key))
            else:
                out.append(self.ev(a, env, depth))
        return out

    def method_decl(self, name):
        return None if name in self.stubs else self.cfun.get("%s::%s" % (self.cls, name))

    def free_decl(self, name):
        """the declaration that call_free would evaluate for this name (None for modelled primitives)"""
        if name in _C_PRIMS or name.startswith(("Py_", "_Py_")):
            return None
        fn = self.cfun.get(name)
        if fn is None or not cfront.has_body(fn) or fn.get("kind") != "FunctionDecl":
            fn = _tu_function(name)
        return fn

    def call_decl(self, fn, args, depth=0):
        if depth > 12:
            raise _Unsup("call depth")
        ps = cfront.params_of(fn)
        if len(ps) != len(args):
            raise _Unsup("arity of %s" % fn.get("name"))
        env = dict(zip(ps, args))
        try:
            self.exec(cfront.body_of(fn), env, depth)
        except _CRet as r:
            return r.value
        return None

    def call_free(self, name, args, depth):
        f = self.file
        if name in ("fread",):
            return f.fread(args[0], args[1], args[2])
        if name in ("fseek", "fseeko", "_fseeki64", "fseeko64"):
            return f.seek(args[1], args[2])
        if name in ("ftell", "ftello"):
            return f.pos
        if name in ("fgetc", "getc"):
            return f.getc()
        if name == "rewind":
            f.pos = 0
            return None
        if name == "feof":
            return int(f.pos >= f.size)
        if name in ("PyArray_BYTES", "PyArray_DATA"):
            return _CPtr(self._arr(args[0]), 0)
        if name == "PyArray_STRIDES":
            return ("strides", self._arr(args[0]))
        if name == "PyArray_DIMS":
            return ("dims", self._arr(args[0]))
        if name == "PyArray_NDIM":
            self._arr(args[0])
            return 1
        if name in ("PyArray_STRIDE", "PyArray_DIM"):
            if args[1] != 0:
                raise _CBad("axis %r of a 1-d array" % (args[1],))
            return self._arr(args[0]).stride if name == "PyArray_STRIDE" else self._arr(args[0]).size
        if name in ("PyArray_SIZE", "PyArray_Size"):
            return self._arr(args[0]).size
        if name == "PyArray_ITEMSIZE":
            return self._arr(args[0]).itemsize
        if name.startswith(("Py_", "_Py_")):
            return args[0] if args else 0
        if name in ("min", "max") and len(args) == 2 and all(isinstance(a, (int, float)) for a in args):
            return min(args) if name == "min" else max(args)
        if name in ("abs", "labs", "llabs") and len(args) == 1 and isinstance(args[0], (int, float)):
            return abs(args[0])
        fn = self.cfun.get(name)
        if fn is None or not cfront.has_body(fn) or fn.get("kind") != "FunctionDecl":
            fn = _tu_function(name)
        if fn is None:
            raise _Unsup("function %s is not modelled and has no body in the translation unit" % name)
        return self.call_decl(fn, args, depth + 1)

    def _arr(self, v):
        if not isinstance(v, _CArr):
            raise _CBad("array accessor applied to %r" % (v,))
        return v

    # -- statements ------------------------------------------------------
    def exec(self, st, env, depth=0):
        self.steps += 1
        if self.steps > self.budget:
            raise _Unsup("evaluation budget exhausted")
        k = st.get("kind")
        inner = st.get("inner", []) or []
        if k == "CompoundStmt":
            for s in inner:
                self.exec(s, env, depth)
            return
        if k == "DeclStmt":
            for d in inner:
                if d.get("kind") != "VarDecl":
                    continue
                init = [c for c in d.get("inner", []) or [] if isinstance(c, dict) and c.get("kind")]
                qt = (d.get("type") or {}).get("qualType", "").strip()
                if init and "init" in d and qt.endswith("&") and not qt.startswith("const "):
                    env[d["name"]] = _CRef(*self.lvalue(init[-1], env, depth))
                else:
                    env[d["name"]] = self.ev(init[-1], env, depth) if init and "init" in d else 0
            return
        if k == "IfStmt":
            if st.get("hasInit") or st.get("hasVar"):
                raise _Unsup("if with initialiser")
            if self.truth(self.ev(inner[0], env, depth)):
                self.exec(inner[1], env, depth)
            elif len(inner) > 2:
                self.exec(inner[2], env, depth)
            return
        if k == "ForStmt":
            init, _cv, cond, inc, body = (list(inner) + [{}] * 5)[:5]
            if init and init.get("kind"):
                self.exec(init, env, depth)
            n = 0
            while not (cond and cond.get("kind")) or self.truth(self.ev(cond, env, depth)):
                n += 1
                if n > 5000:
                    raise _Unsup("loop bound")
                try:
                    self.exec(body, env, depth)
                except _CBrk:
                    break
                except _CCont:
                    pass
                if inc and inc.get("kind"):
                    self.ev(inc, env, depth)
            return
        if k == "WhileStmt":
            n = 0
            while self.truth(self.ev(inner[0], env, depth)):
                n += 1
                if n > 5000:
                    raise _Unsup("loop bound")
                try:
                    self.exec(inner[-1], env, depth)
                except _CBrk:
                    break
                except _CCont:
                    pass
            return
        if k == "DoStmt":
            n = 0
            while True:
                n += 1
                if n > 5000:
                    raise _Unsup("loop bound")
                try:
                    self.exec(inner[0], env, depth)
                except _CBrk:
                    break
                except _CCont:
                    pass
                if not self.truth(self.ev(inner[1], env, depth)):
                    break
            return
        if k == "ReturnStmt":
            raise _CRet(self.ev(inner[0], env, depth) if inner else None)
        if k == "BreakStmt":
            raise _CBrk()
        if k == "ContinueStmt":
            raise _CCont()
        if k == "NullStmt":
            return
        if k in ("CXXTryStmt", "SwitchStmt", "GotoStmt", "LabelStmt", "CXXForRangeStmt"):
            raise _Unsup("statement %s" % k)
        self.ev(st, env, depth)

    # -- expressions -----------------------------------------------------
    def truth(self, v):
        if isinstance(v, (int, float)):
            return v != 0
        if isinstance(v, (_CPtr, _CArr, _CRef)) or v is _C_NONE:
            return True
        if v is None:
            return False
        raise _Unsup("truth of %r" % (v,))

    def lvalue(self, n, env, depth):
        s = cfront.strip(n)
        k = s.get("kind")
        if k == "DeclRefExpr":
            rd = s.get("referencedDecl") or {}
            nm = rd.get("name")
            if nm in env:
                v = env[nm]
                qt = (rd.get("type") or {}).get("qualType", "")
                if isinstance(v, _CRef) and "&" in qt and "*" not in qt:
                    return (v.d, v.key)
                return (env, nm)
            raise _Unsup("store to %s" % nm)
        if k == "UnaryOperator" and s.get("opcode") == "*":
            p = self.ev(s["inner"][0], env, depth)
            if isinstance(p, _CRef):
                return (p.d, p.key)
            raise _Unsup("store through %r" % (p,))
        if k == "MemberExpr" and s.get("inner") and cfront.strip(s["inner"][0]).get("kind") == "CXXThisExpr":
            if s.get("name") in self.members:
                return (self.members, s["name"])
            raise _Unsup("store to member %s" % s.get("name"))
        raise _Unsup("store through %s" % k)

    def _scale(self, n):
        qt = (n.get("type") or {}).get("qualType", "")
        if "*" not in qt:
            return 1
        base = qt.rsplit("*", 1)[0].replace("const", "").replace("__restrict", "").strip()
        if base.endswith("*"):
            return 8
        if base in _C_SIZES:
            return _C_SIZES[base]
        raise _Unsup("pointer arithmetic on %s" % qt)

    def load(self, p):
        a = p.base
        if not isinstance(a, _CArr) or a.data is None:
            raise _Unsup("load through %r" % (p,))
        if p.off % a.itemsize != 0 or not (0 <= p.off // a.itemsize < len(a.data)):
            raise _CBad("read of element at byte %d of the %d-element array `%s`" % (p.off, len(a.data), a.name))
        return a.data[p.off // a.itemsize]

    def arith(self, op, a, b, n):
        if isinstance(a, _CPtr) or isinstance(b, _CPtr):
            sc = self._scale(n)
            if op == "+" and isinstance(a, _CPtr) and isinstance(b, int):
                return _CPtr(a.base, a.off + b * sc)
            if op == "+" and isinstance(b, _CPtr) and isinstance(a, int):
                return _CPtr(b.base, b.off + a * sc)
            if op == "-" and isinstance(a, _CPtr) and isinstance(b, int):
                return _CPtr(a.base, a.off - b * sc)
            if op == "-" and isinstance(a, _CPtr) and isinstance(b, _CPtr) and a.base is b.base:
                return (a.off - b.off) // max(1, self._scale(n["inner"][0]))
            if op in ("==", "!=") :
                same = isinstance(a, _CPtr) and isinstance(b, _CPtr) and a.base is b.base and a.off == b.off
                if (isinstance(a, int) and a == 0) or (isinstance(b, int) and b == 0):
                    same = False
                return int(same == (op == "=="))
            raise _Unsup("pointer operator %s" % op)
        if op in ("==", "!="):
            if a in ("OBJ", "STR") or b in ("OBJ", "STR"):
                raise _Unsup("comparison of opaque objects")
            if (isinstance(a, (int, float)) and isinstance(b, (int, float))) or (isinstance(a, str) and isinstance(b, str)):
                return int((a == b) == (op == "=="))
            return int((a is b) == (op == "=="))
        if not (isinstance(a, (int, float)) and isinstance(b, (int, float))):
            raise _Unsup("operator %s on %r, %r" % (op, a, b))
        if op == "+":
            return a + b
        if op == "-":
            return a - b
        if op == "*":
            return a * b
        if op == "/":
            if isinstance(a, float) or isinstance(b, float):
                if b == 0:
                    raise _CBad("division by zero")
                return a / b
            return _cdiv(a, b)
        if op == "%":
            return a - _cdiv(a, b) * b
        if op == "<":
            return int(a < b)
        if op == "<=":
            return int(a <= b)
        if op == ">":
            return int(a > b)
        if op == ">=":
            return int(a >= b)
        if isinstance(a, int) and isinstance(b, int):
            if op == "&":
                return a & b
            if op == "|":
                return a | b
            if op == "^":
                return a ^ b
            if op == "<<":
                return a << b
            if op == ">>":
                return a >> b
        raise _Unsup("operator %s" % op)

    def ev(self, n, env, depth=0):
        self.steps += 1
        if self.steps > self.budget:
            raise _Unsup("evaluation budget exhausted")
        k = n.get("kind")
        inner = [c for c in (n.get("inner", []) or []) if isinstance(c, dict) and c.get("kind")]
        if k in _C_CASTS:
            if not inner:
                raise _Unsup("empty %s" % k)
            v = self.ev(inner[-1] if k == "CXXFunctionalCastExpr" else inner[0], env, depth)
            ck = n.get("castKind")
            if ck in ("IntegralToBoolean", "PointerToBoolean", "FloatingToBoolean"):
                return int(self.truth(v))
            if ck == "NullToPointer":
                return 0
            if ck == "IntegralCast" and isinstance(v, int) and (n.get("type") or {}).get("qualType") in ("char", "signed char"):
                return ((v + 128) % 256) - 128
            if ck in ("FloatingToIntegral",) and isinstance(v, float):
                return int(v)
            return v
        if k == "IntegerLiteral":
            return int(n.get("value"))
        if k == "CharacterLiteral":
            return int(n.get("value"))
        if k == "CXXBoolLiteralExpr":
            return 1 if n.get("value") else 0
        if k == "FloatingLiteral":
            return float(n.get("value"))
        if k == "StringLiteral":
            return "STR"
        if k in ("GNUNullExpr", "CXXNullPtrLiteralExpr"):
            return 0
        if k == "ImplicitValueInitExpr":
            return 0
        if k == "DeclRefExpr":
            rd = n.get("referencedDecl") or {}
            nm = rd.get("name")
            if rd.get("kind") in ("VarDecl", "ParmVarDecl"):
                if nm in env:
                    v = env[nm]
                    if isinstance(v, _CRef) and "&" in (rd.get("type") or {}).get("qualType", "") and "*" not in (rd.get("type") or {}).get("qualType", ""):
                        return v.d[v.key]
                    return v
                if nm == "_Py_NoneStruct":
                    return _C_NONESTRUCT
                if nm == "PyArray_API":
                    return "PyArray_API"
                if nm in self.members:
                    return self.members[nm]
                raise _Unsup("variable %s" % nm)
            if rd.get("kind") in ("FunctionDecl", "CXXMethodDecl"):
                return ("fn", nm)
            if rd.get("kind") == "EnumConstantDecl":
                return ("enum", nm)
            raise _Unsup("reference to %s" % nm)
        if k == "MemberExpr":
            if inner and cfront.strip(inner[0]).get("kind") == "CXXThisExpr":
                if n.get("name") in self.members:
                    return self.members[n["name"]]
                raise _Unsup("member %s is not modelled" % n.get("name"))
            raise _Unsup("member access %s" % cfront.render(n))
        if k == "CXXThisExpr":
            return "this"
        if k == "UnaryOperator":
            op = n.get("opcode")
            if op == "&":
                s = cfront.strip(inner[0])
                if s.get("kind") == "DeclRefExpr" and (s.get("referencedDecl") or {}).get("name") == "_Py_NoneStruct":
                    return _C_NONE
                if s.get("kind") in ("DeclRefExpr", "MemberExpr"):
                    d, key = self.lvalue(s, env, depth)
                    if isinstance(d[key], (int, float)):
                        return _CRef(d, key)
                raise _Unsup("address-of %s" % cfront.render(s))
            if op in ("++", "--"):
                d, key = self.lvalue(inner[0], env, depth)
                old = d[key]
                if isinstance(old, _CPtr):
                    new = _CPtr(old.base, old.off + (1 if op == "++" else -1) * self._scale(inner[0]))
                elif isinstance(old, (int, float)):
                    new = old + (1 if op == "++" else -1)
                else:
                    raise _Unsup("increment of %r" % (old,))
                d[key] = new
                return old if n.get("isPostfix") else new
            v = self.ev(inner[0], env, depth)
            if op == "*":
                if isinstance(v, _CRef):
                    return v.d[v.key]
                if isinstance(v, _CPtr):
                    return self.load(v)
                if isinstance(v, tuple):
                    return v
                raise _Unsup("dereference of %r" % (v,))
            if op == "!":
                return int(not self.truth(v))
            if isinstance(v, (int, float)):
                if op == "-":
                    return -v
                if op == "+":
                    return v
                if op == "~" and isinstance(v, int):
                    return ~v
            raise _Unsup("unary %s on %r" % (op, v))
        if k == "BinaryOperator":
            op = n.get("opcode")
            if op == "=":
                v = self.ev(inner[1], env, depth)
                d, key = self.lvalue(inner[0], env, depth)
                d[key] = v
                return v
            if op == ",":
                self.ev(inner[0], env, depth)
                return self.ev(inner[1], env, depth)
            if op == "&&":
                return int(self.truth(self.ev(inner[0], env, depth)) and self.truth(self.ev(inner[1], env, depth)))
            if op == "||":
                return int(self.truth(self.ev(inner[0], env, depth)) or self.truth(self.ev(inner[1], env, depth)))
            return self.arith(op, self.ev(inner[0], env, depth), self.ev(inner[1], env, depth), n)
        if k == "CompoundAssignOperator":
            op = n.get("opcode", "")[:-1]
            d, key = self.lvalue(inner[0], env, depth)
            v = self.arith(op, d[key], self.ev(inner[1], env, depth), inner[0] if isinstance(d[key], _CPtr) else n)
            d[key] = v
            return v
        if k == "ConditionalOperator":
            return self.ev(inner[1] if self.truth(self.ev(inner[0], env, depth)) else inner[2], env, depth)
        if k == "ArraySubscriptExpr":
            b = self.ev(inner[0], env, depth)
            i = self.ev(inner[1], env, depth)
            return self.index(b, i, n)
        if k == "CXXOperatorCallExpr":
            op = cfront.callee_name(n)
            args = inner[1:]
            if op == "operator[]" and len(args) == 2:
                return self.index(self.ev(args[0], env, depth), self.ev(args[1], env, depth), n)
            if op in ("operator<<", "operator+", "operator=", "operator+="):
                return "OBJ"
            raise _Unsup("operator call %s" % op)
        if k in ("CXXConstructExpr", "CXXTemporaryObjectExpr", "CXXDefaultArgExpr", "CXXStdInitializerListExpr", "InitListExpr"):
            return "OBJ"
        if k == "CXXThrowExpr":
            raise _CThrow(cfront.render(n)[:80])
        if k == "CallExpr":
            c = cfront.strip(inner[0])
            if c.get("kind") == "DeclRefExpr" and (c.get("referencedDecl") or {}).get("kind") == "FunctionDecl":
                nm = c["referencedDecl"]["name"]
                return self.call_free(nm, self.eval_args(self.free_decl(nm), inner[1:], env, depth), depth)
            f = self.ev(c, env, depth)
            if isinstance(f, tuple) and f[0] == "fn":
                return self.call_free(f[1], self.eval_args(self.free_decl(f[1]), inner[1:], env, depth), depth)
            args = [self.ev(a, env, depth) for a in inner[1:]]
            if f == ("api", 158):
                if len(args) == 2 and isinstance(args[0], tuple) and args[0][0] == "dims":
                    return args[0][1].size
                raise _Unsup("PyArray_MultiplyList arguments")
            raise _Unsup("indirect call %r" % (f,))
        if k == "CXXMemberCallExpr":
            c = cfront.strip(inner[0])
            if c.get("kind") == "MemberExpr" and c.get("inner") and cfront.strip(c["inner"][0]).get("kind") == "CXXThisExpr":
                args = self.eval_args(self.method_decl(c.get("name")), inner[1:], env, depth)
                return self.call_method(c.get("name"), args, depth + 1)
            if c.get("kind") == "MemberExpr" and c.get("name") in ("size", "at") and c.get("inner"):
                b = cfront.strip(c["inner"][0])
                if b.get("kind") == "MemberExpr" and b.get("name") in self.members and isinstance(self.members[b["name"]], list):
                    tbl = self.members[b["name"]]
                    if c["name"] == "size":
                        return len(tbl)
                    return self.index(tbl, self.ev(inner[1], env, depth), n)
            return "OBJ"
        if k == "UnaryExprOrTypeTraitExpr":
            t = (n.get("argType") or {}).get("qualType")
            if t in _C_SIZES:
                return _C_SIZES[t]
            raise _Unsup("sizeof %s" % t)
        raise _Unsup("expression %s" % k)

    def index(self, b, i, n):
        if isinstance(b, list):
            if not isinstance(i, int) or not (0 <= i < len(b)):
                raise _CBad("index %r outside a %d-element table" % (i, len(b)))
            return b[i]
        if isinstance(b, tuple) and b[0] == "strides":
            if i != 0:
                raise _CBad("stride %r of a 1-d array" % (i,))
            return b[1].stride
        if isinstance(b, tuple) and b[0] == "dims":
            if i != 0:
                raise _CBad("dimension %r of a 1-d array" % (i,))
            return b[1].size
        if b == "PyArray_API":
            return ("api", i)
        if isinstance(b, _CPtr) and isinstance(i, int):
            return self.load(_CPtr(b.base, b.off + i * self._scale(n["inner"][0] if n.get("inner") else n)))
        raise _Unsup("subscript of %r" % (b,))


# -- scenarios for the C++ evaluation ----------------------------------------
_C_OFF = 3          # data offset of the model file (non-zero so that a position that forgets the offset is seen)
_C_START = 1        # where the model file cursor is when a reader is entered (readers must not depend on it)


def _c_members(nrows, sizes, ftype):
    offs = [sum(sizes[:i]) for i in range(len(sizes))]
    return dict(mNrows=nrows, mNfields=len(sizes), mRowSize=sum(sizes), mSizes=list(sizes), mOffsets=offs, mFileOffset=_C_OFF,
                mFptr="FILE", mFileType=ftype, mDebug=0, mReadAsWhitespace=0, BINARY_FILE="BINARY_FILE", ASCII_FILE="ASCII_FILE",
                mNel=[1] * len(sizes))


def _c_file(kind, nrows, sizes, start=_C_START):
    if kind == "bin":
        return _CFile("bin", _C_OFF + nrows * sum(sizes), start)
    nf = len(sizes)
    text = "h" * _C_OFF + "".join("a" + ("," if c < nf - 1 else "\n") for r in range(nrows) for c in range(nf))
    return _CFile("text", len(text), start, text=text, data_start=_C_OFF, nfields=nf)


def _c_sim(cfun, kind, nrows, sizes, start=_C_START):
    f = _c_file(kind, nrows, sizes, start)
    noop = lambda *a: None
    stubs = {"ensure_readable": noop, "ensure_writable": noop, "ensure_text": noop, "ensure_binary": noop}
    if kind == "text":
        stubs["read_from_text_column"] = f.token
    return _CSim(cfun, _c_members(nrows, sizes, "BINARY_FILE" if kind == "bin" else "ASCII_FILE"), f, stubs=stubs), f


def _subsets(n):
    out = []
    for m in range(1, 2 ** n):
        out.append([i for i in range(n) if m >> i & 1])
    return out


def _transfers(f, sizes):
    """{(buffer name, byte offset in the buffer): source} from the logged events; source = file byte (binary) or
    (row, column, byte within the value) (text: the scanner stores a value of the column's size).  Also the list of scanner calls
    whose column argument is not the column under the cursor."""
    m = {}
    wrongcol = []
    for e in f.events:
        if e[0] == "rd":
            _, pos, nb, ptr = e
            if ptr is None:
                continue
            for k in range(nb):
                m[(ptr.base.name, ptr.off + k)] = pos + k
        else:
            _, row, col, colarg, ptr = e
            if colarg != col:
                wrongcol.append((row, col, colarg))
            if ptr is None:
                continue
            for k in range(sizes[col]):
                m[(ptr.base.name, ptr.off + k)] = (row, col, k)
    return m, wrongcol


def _sim_columns(cfun, fname, kind, start=_C_START):
    """evaluate read_text_columns / read_binary_columns for every selection of a 3-row, 3-column table;
    -> {facet: [counterexample text]}"""
    nrows, sizes = 3, [2, 3, 1]
    nf = len(sizes)
    offs = [sum(sizes[:i]) for i in range(nf)]
    rowsize = sum(sizes)
    bad = {"rows": [], "cols": [], "dest": []}
    for rows in [None, []] + _subsets(nrows):
        for cols in _subsets(nf):
            sim, f = _c_sim(cfun, kind, nrows, sizes, start)
            selrows = list(range(nrows)) if rows is None else rows
            stride = sum(sizes[c] for c in cols)
            out = _CArr("arrayobj", len(selrows), stride)
            colobj = _CArr("colnums", len(cols), 8, list(cols))
            rowobj = _C_NONE if rows is None else _CArr("rows", len(rows), 8, list(rows))
            what = "rows=%s columns=%s" % ("all" if rows is None else rows, cols)
            try:
                sim.call_method(fname.split("::")[-1], [out, colobj, rowobj])
            except _CThrow as e:
                bad["rows"].append("%s: throws %s" % (what, e))
                continue
            except _CBad as e:
                bad["rows"].append("%s: %s" % (what, e))
                continue
            got, wrongcol = _transfers(f, sizes)
            for row, col, colarg in wrongcol[:1]:
                bad["cols"].append("%s: the value of column %d in row %d is scanned as column %d" % (what, col, row, colarg))
            exp = {}
            for i, r in enumerate(selrows):
                d = i * stride
                for c in cols:
                    for k in range(sizes[c]):
                        exp[("arrayobj", d + k)] = (_C_OFF + r * rowsize + offs[c] + k) if kind == "bin" else (r, c, k)
                    d += sizes[c]
            if set(got) != set(exp):
                miss = sorted(set(exp) - set(got))[:1]
                extra = sorted(set(got) - set(exp))[:1]
                bad["dest"].append("%s: output bytes never written %s / written outside the selection %s" % (what, miss, extra))
            for key in sorted(set(got) & set(exp)):
                if got[key] == exp[key]:
                    continue
                if kind == "bin":
                    grow, gcolb = divmod(got[key] - _C_OFF, rowsize)
                    erow, ecolb = divmod(exp[key] - _C_OFF, rowsize)
                else:
                    grow, gcolb, erow, ecolb = got[key][0], got[key][1:], exp[key][0], exp[key][1:]
                if grow != erow:
                    bad["rows"].append("%s: output row %d receives file row %d instead of %d" % (what, key[1] // max(1, stride), grow, erow))
                else:
                    bad["cols"].append("%s: output byte %d of row %d receives %s of the file row instead of %s"
                                       % (what, key[1] % max(1, stride), erow, gcolb, ecolb))
                break
    return bad


def _sim_slice_reader(cfun, start=_C_START):
    """Records::read_binary_slice for every normalised slice of a 5-row table -> {facet: [counterexamples]}"""
    nrows, sizes = 5, [1, 3]
    rowsize = sum(sizes)
    bad = {"first": [], "stride": [], "size": []}
    for row1 in range(nrows + 1):
        for row2 in range(row1, nrows + 1):
            for step in (1, 2, 3):
                cnt = len(range(row1, row2, step))
                sim, f = _c_sim(cfun, "bin", nrows, sizes, start)
                out = _CArr("arrayobj", cnt, rowsize)
                what = "slice %d:%d:%d" % (row1, row2, step)
                try:
                    sim.call_method("read_binary_slice", [out, row1, row2, step])
                except _CThrow as e:
                    bad["first"].append("%s: throws %s" % (what, e))
                    continue
                except _CBad as e:
                    bad["first"].append("%s: %s" % (what, e))
                    continue
                got, _ = _transfers(f, sizes)
                exp = {("arrayobj", i * rowsize + k): _C_OFF + (row1 + i * step) * rowsize + k for i in range(cnt) for k in range(rowsize)}
                if set(got) != set(exp):
                    bad["size"].append("%s: output bytes never written %s / written outside the buffer %s"
                                       % (what, sorted(set(exp) - set(got))[:1], sorted(set(got) - set(exp))[:1]))
                for key in sorted(set(got) & set(exp)):
                    if got[key] != exp[key]:
                        i = key[1] // rowsize
                        bad["first" if i == 0 else "stride"].append(
                            "%s: output row %d receives file bytes of row %s instead of row %d"
                            % (what, i, (got[key] - _C_OFF) / float(rowsize), row1 + i * step))
                        break
    return bad


def _sim_process_slice(cfun):
    bad = []
    n = 7
    for row1 in range(n + 1):
        for row2 in range(row1, n + 1):
            for step in (1, 2, 3, 4, 5):
                sim, f = _c_sim(cfun, "bin", n, [4])
                try:
                    got = sim.call_method("process_slice", [row1, row2, step])
                except (_CThrow, _CBad) as e:
                    bad.append("process_slice(%d, %d, %d) fails: %s" % (row1, row2, step, e))
                    continue
                if got != len(range(row1, row2, step)):
                    bad.append("process_slice(%d, %d, %d) = %r, the slice has %d rows" % (row1, row2, step, got, len(range(row1, row2, step))))
    return bad


def _sim_skips(cfun):
    """skip_binary_rows / skip_text_rows / skip_rows move the model cursor by whole rows -> {name: [counterexamples]}"""
    nrows, sizes = 4, [2, 1]
    rowsize = sum(sizes)
    bad = {"skip_binary_rows": [], "skip_text_rows": [], "skip_rows": []}
    have = {k: cfun.get("Records::" + k) is not None for k in bad}
    for r in range(nrows):
        for n in range(-1, nrows - r + 1):
            rowlen = 2 * len(sizes)
            if have["skip_binary_rows"]:
                sim, f = _c_sim(cfun, "bin", nrows, sizes, _C_OFF + r * rowsize)
                try:
                    sim.call_method("skip_binary_rows", [n])
                    if f.pos != _C_OFF + (r + max(n, 0)) * rowsize:
                        bad["skip_binary_rows"].append("skip_binary_rows(%d) at row %d leaves the cursor at byte %d of the data" % (n, r, f.pos - _C_OFF))
                except (_CThrow, _CBad) as e:
                    bad["skip_binary_rows"].append("skip_binary_rows(%d) at row %d: %s" % (n, r, e))
            if have["skip_text_rows"]:
                sim, f = _c_sim(cfun, "text", nrows, sizes, _C_OFF + r * rowlen)
                try:
                    sim.call_method("skip_text_rows", [n])
                    if f.pos != _C_OFF + (r + max(n, 0)) * rowlen:
                        bad["skip_text_rows"].append("skip_text_rows(%d) at row %d leaves the cursor at character %d of the data" % (n, r, f.pos - _C_OFF))
                except (_CThrow, _CBad) as e:
                    bad["skip_text_rows"].append("skip_text_rows(%d) at row %d: %s" % (n, r, e))
            if n < 0 or not have["skip_rows"]:
                continue
            for kind, unit in (("bin", rowsize), ("text", rowlen)):
                sim, f = _c_sim(cfun, kind, nrows, sizes, _C_OFF + r * unit)
                try:
                    sim.call_method("skip_rows", [r, r + n])
                    if f.pos != _C_OFF + (r + n) * unit:
                        bad["skip_rows"].append("skip_rows(%d, %d) on a %s file leaves the cursor at row %s" % (r, r + n, kind, (f.pos - _C_OFF) / float(unit)))
                except (_CThrow, _CBad) as e:
                    bad["skip_rows"].append("skip_rows(%d, %d) on a %s file: %s" % (r, r + n, kind, e))
    return bad


# -- scenarios for the Python evaluation ---------------------------------------
_RU = "esutil.recfile.Util."
_NAMES = ("a", "b", "c")


class _Model(object):
    """a model Recfile (5 rows, columns a b c) whose C++ object records the calls that reach it"""

    def __init__(self, repo, nrows=5, ascii_=False, stub_read=False):
        self.calls = []
        self.nrows = nrows
        self.ascii = ascii_
        self.robj = _MObj("robj", stubs={"read_binary_slice": self._rec("read_binary_slice"), "read_columns": self._rec("read_columns")})
        self.descr = [(n, "<i4") for n in _NAMES]
        self.dtype = _MObj("DTYPE", attrs={"descr": list(self.descr), "names": tuple(_NAMES)})
        stubs = {}
        if stub_read:
            stubs["read"] = self._rec("read")
            stubs["Read"] = stubs["read"]
        self.rf = _MObj("recfile", attrs=dict(nrows=nrows, ncols=len(_NAMES), is_ascii=ascii_, robj=self.robj, dtype=self.dtype,
                                              colnames=_MArr(_NAMES), delim="," if ascii_ else None, __len__=nrows, __truth__=True),
                        stubs=stubs, cls=_RU + "Recfile")

    def _rec(self, name):
        def f(*a, **k):
            r = _Tag(("result-of-" + name, len(self.calls)))
            self.calls.append((name, a, k, r))
            return r
        return f


def _interp(repo):
    made = []

    def colsub(*a, **k):
        o = _MObj("RecfileColumnSubset-instance", attrs={"__ctor__": (a, k)})
        made.append(o)
        return o

    it = _PyMini(repo, func_stubs={"isstring": lambda x: isinstance(x, str), "split_fields": lambda d, *a, **k: _Tag(("split", d)),
                                   "reduce_array": lambda d: _Tag(("reduce", d))},
                 class_stubs={"RecfileColumnSubset": colsub})
    it.made = made
    return it


def _norm_slice_call(m, exp, n):
    """does the single robj.read_binary_slice(buffer, a, b, c) call of model m transfer exactly the rows `exp`?  -> list of complaints by facet"""
    out = {}
    name, a, k, _ = m.calls[0]
    if k or len(a) != 4:
        out["roles"] = "read_binary_slice%r %r" % (a, k)
        return out
    buf, r1, r2, st = a
    if not all(isinstance(x, int) and not isinstance(x, bool) for x in (r1, r2, st)):
        out["roles"] = "read_binary_slice receives non-integer bounds %r" % ((r1, r2, st),)
        return out
    if not (0 <= r1 <= r2 <= n and st >= 1):
        out["bounds"] = "read_binary_slice receives (%d, %d, %d) for a %d-row table (the C++ reader needs 0 <= start <= stop <= nrows, step >= 1)" % (r1, r2, st, n)
    if list(range(r1, r2, st)) != exp:
        out["rows"] = "the slice reader is given (%d, %d, %d) = rows %s, Python selects %s" % (r1, r2, st, list(range(r1, r2, st)), exp)
    if not isinstance(buf, _MBuf):
        out["buffer"] = "the output buffer is %r" % (buf,)
    else:
        if buf.n != len(range(r1, r2, st)):
            out["count"] = "the buffer for slice (%d, %d, %d) has %d rows, the slice has %d" % (r1, r2, st, buf.n, len(range(r1, r2, st)))
        if not (buf.dtype is m.dtype or buf.dtype == m.descr):
            out["buffer"] = "the output buffer has dtype %r, not the file dtype" % (buf.dtype,)
    return out


def _same_req(a, b, rows=False):
    """is request `a` the request `b` (same object, or equal value of the same kind: a name stays a name, a sequence a sequence;
    for rows a number and the one-element list of it select the same row)"""
    if a is b:
        return True
    if a is None or b is None:
        return False
    if isinstance(a, str) or isinstance(b, str):
        return isinstance(a, str) and isinstance(b, str) and a == b
    if isinstance(a, (_MObj, _MBuf, _Tag)) or isinstance(b, (_MObj, _MBuf, _Tag)):
        return False
    if isinstance(a, int) and isinstance(b, int):
        return a == b
    if isinstance(a, (list, tuple)) and isinstance(b, (list, tuple)):
        return list(a) == list(b)
    if rows and isinstance(a, (list, tuple)) and isinstance(b, int):
        return list(a) == [b]
    if rows and isinstance(b, (list, tuple)) and isinstance(a, int):
        return list(b) == [a]
    return False


def _sim_brackets(repo):
    """Recfile[...] and RecfileColumnSubset[...] for every slice of the property's box and for the other argument kinds
    -> {facet: [counterexamples]} (raises _Unsup when the code leaves the evaluator's fragment)"""
    bad = {k: [] for k in ("raise", "rows", "bounds", "count", "buffer", "roles", "dispatch", "unpack", "subset")}
    it = _interp(repo)
    gi = repo.func(_RU + "Recfile.__getitem__")
    cgi = repo.func(_RU + "RecfileColumnSubset.__getitem__")

    def colsubset(m):
        return _MObj("colsubset", attrs={"recfile": m.rf, "columns": "b"}, cls=_RU + "RecfileColumnSubset")

    def add(facet, text):
        if len(bad[facet]) < 6:
            bad[facet].append(text)

    for n in (4, 0):
        vals = [None] + list(range(-n - 2, n + 3))
        for a in vals:
            for b in vals:
                for st in (None, 1, 2, 3):
                    sl = slice(a, b, st)
                    exp = list(range(*sl.indices(n)))
                    for style in ("binary", "text", "column-subset"):
                        m = _Model(repo, n, style == "text", stub_read=True)
                        what = "%s [%s:%s:%s] on %d rows" % (style, a, b, st, n)
                        try:
                            if style == "column-subset":
                                res = it.run(cgi, [sl], {}, colsubset(m))
                            else:
                                res = it.run(gi, [sl], {}, m.rf)
                        except _PyRaise as e:
                            add("raise", "%s raises %s" % (what, e.name))
                            continue
                        if len(m.calls) != 1 or it.made:
                            add("dispatch", "%s reaches %s" % (what, [c[0] for c in m.calls] + it.made))
                            del it.made[:]
                            continue
                        name, ca, ck, r = m.calls[0]
                        if style == "binary" and name == "read":
                            # reading through the row list is also correct for a binary file
                            pass
                        if name == "read_binary_slice":
                            if style != "binary":
                                add("unpack", "%s is sent to the binary slice reader" % what)
                                continue
                            for facet, text in _norm_slice_call(m, exp, n).items():
                                add(facet, "%s: %s" % (what, text))
                            if not (isinstance(res, _MBuf) and res is ca[0]):
                                add("roles", "%s returns %r, not the buffer that was filled" % (what, res))
                        elif name == "read":
                            rows = ck.get("rows", ca[0] if ca else None)
                            other = {k: v for k, v in ck.items() if k != "rows"}
                            if style == "column-subset":
                                if other.pop("columns", None) != "b" and other.pop("fields", None) != "b":
                                    add("subset", "%s does not pass the subset's columns to read(): %r" % (what, ck))
                            if len(ca) > 1 or any(v not in (None, False) for k, v in other.items() if k not in ("columns", "fields")):
                                add("roles", "%s calls read%r %r" % (what, ca, ck))
                            if not isinstance(rows, (list, tuple)) or list(rows) != exp:
                                add("rows", "%s reads rows %r, Python selects %s" % (what, rows, exp))
                            if res is not r:
                                add("roles", "%s does not return what read() returned" % what)
                        else:
                            add("dispatch", "%s reaches %s" % (what, name))
    # the other argument kinds
    kinds = [("row list", [1, 3]), ("row tuple", (0, 2)), ("row array", _MArr([2, 0])), ("row number", 2),
             ("column name", "b"), ("column list", ["c", "a"]), ("column tuple", ("a", "b")), ("column array", _MArr(["b"]))]
    for style in ("binary", "text", "column-subset"):
        for kind, arg in kinds:
            m = _Model(repo, 4, style == "text", stub_read=True)
            what = "%s [%s %r]" % (style, kind, arg)
            del it.made[:]
            try:
                if style == "column-subset":
                    me = colsubset(m)
                    res = it.run(cgi, [arg], {}, me)
                else:
                    me = m.rf
                    res = it.run(gi, [arg], {}, me)
            except _PyRaise as e:
                add("dispatch", "%s raises %s" % (what, e.name))
                continue
            if kind.startswith("row"):
                if it.made or len(m.calls) != 1 or m.calls[0][0] != "read":
                    add("dispatch", "%s reaches %s instead of read(rows=...)" % (what, [c[0] for c in m.calls] + it.made))
                    continue
                name, ca, ck, r = m.calls[0]
                rows = ck.get("rows", ca[0] if ca else None)
                other = {k: v for k, v in ck.items() if k != "rows"}
                if style == "column-subset" and other.pop("columns", None) != "b" and other.pop("fields", None) != "b":
                    add("subset", "%s does not pass the subset's columns to read(): %r" % (what, ck))
                if not _same_req(rows, arg, rows=True) or len(ca) > 1 or any(v not in (None, False) for k, v in other.items() if k not in ("columns", "fields")):
                    add("roles", "%s calls read%r %r" % (what, ca, ck))
                if res is not r:
                    add("roles", "%s does not return what read() returned" % what)
            else:
                if m.calls or len(it.made) != 1 or res is not it.made[0]:
                    add("dispatch", "%s reaches %s instead of returning a column subset" % (what, [c[0] for c in m.calls] + it.made))
                    continue
                ca, ck = res.attrs["__ctor__"]
                cols = ck.get("columns", ck.get("fields", ca[1] if len(ca) > 1 else None))
                if not ca or ca[0] is not me or not _same_req(cols, arg):
                    add("roles", "%s builds RecfileColumnSubset%r %r" % (what, ca, ck))
    return bad


_ROWS_OK = [None, [], [1, 3], [3, 1], [1, 1, 4], [0, 1, 1, 2, 3, 3, 4], [4, 4, 0], (0, 2), _MArr([2, 0, 2]), [0, 1, 2, 3, 4], [2, 3, 4], 0, 2, 4, -1, -5]
_ROWS_BAD = [[5], [0, 5], [1, 7, 2], [100], 5, 100, -6]
_REQ_OK = [(None, None), ("b", None), (None, "b"), (None, ["c", "a"]), (["c", "a"], None), (None, ("b", "a")), (None, ["a", "a", "c"]),
           (None, ["a", "b", "c"]), (None, _MArr(["b"])), (None, ["b"])]
_REQ_BAD = [(None, "zz"), (None, ["a", "zz"]), ("zz", None)]


def _expect_rows(rows, n):
    """(row list or None for all, raises?)"""
    if rows is None:
        return None, False
    if isinstance(rows, int):
        if -n <= rows < n:
            return [rows % n], False
        return None, True
    if any(r < 0 or r >= n for r in rows):
        return None, True
    return sorted(set(rows)), False


def _expect_cols(fields, columns):
    req = columns if columns is not None else fields
    if req is None:
        return list(range(len(_NAMES))), False, None, False
    if isinstance(req, str):
        if req not in _NAMES:
            return None, True, req, True
        return [_NAMES.index(req)], True, req, False
    if any(x not in _NAMES for x in req):
        return None, False, req, True
    return sorted(set(_NAMES.index(x) for x in req)), False, req, False


def _sim_read(repo, which):
    """Recfile.read(rows=, fields=/columns=, split=) down to the call of the C++ reader, for the row inputs (`which`='rows'), the column
    inputs ('cols') or the dispatch between the two readers ('dispatch') -> {facet: [counterexamples]}"""
    bad = {k: [] for k in ("unique", "range", "clamp", "colnums", "unknown", "dtype", "scalar", "synonym", "fastpath", "fastslice", "roles", "split", "count")}
    it = _interp(repo)
    rd = repo.func(_RU + "Recfile.read")
    n = 5

    def add(facet, text):
        if len(bad[facet]) < 6:
            bad[facet].append(text)

    if which == "rows":
        cases = [(a, r, None, None, False) for a in (False, True) for r in _ROWS_OK + _ROWS_BAD]
    elif which == "cols":
        cases = [(a, None, f, c, False) for a in (False, True) for f, c in _REQ_OK + _REQ_BAD]
    else:
        cases = [(a, r, f, c, s) for a in (False, True) for r in (None, [], [0, 1, 2, 3, 4], [1, 2, 3], [0, 2], [3], 2)
                 for f, c in ((None, None), ("b", None), (None, ["c", "a"]), (None, ["a", "b", "c"])) for s in (False, True)]
    for ascii_, rows, fields, columns, split in cases:
        m = _Model(repo, n, ascii_)
        kw = {}
        if rows is not None:
            kw["rows"] = _MArr(rows) if isinstance(rows, _MArr) else (list(rows) if isinstance(rows, list) else rows)
        if fields is not None:
            kw["fields"] = fields
        if columns is not None:
            kw["columns"] = columns
        if split:
            kw["split"] = True
        what = "%s read(%s)" % ("text" if ascii_ else "binary", ", ".join("%s=%r" % kv for kv in sorted(kw.items())))
        erows, rraise = _expect_rows(rows, n)
        ecols, escalar, req, craise = _expect_cols(fields, columns)
        try:
            res = it.run(rd, [], kw, m.rf)
        except _PyRaise as e:
            if not (rraise or craise):
                add("unique" if which == "rows" else "colnums" if which == "cols" else "roles", "%s raises %s" % (what, e.name))
            continue
        if rraise:
            add("clamp" if isinstance(rows, int) or len(rows) == 1 else "range",
                "%s is out of range for %d rows but is accepted (reader called with %s)" % (what, n, [(c[0], [x for x in c[1] if not isinstance(x, _MBuf)]) for c in m.calls]))
            continue
        if craise:
            add("unknown", "%s names an unknown column but is accepted" % what)
            continue
        allrows = list(range(n))
        want_rows = allrows if erows is None else erows
        allcols = ecols == list(range(len(_NAMES)))
        if not m.calls and not want_rows and isinstance(res, _MBuf) and res.n == 0 and \
                (res.dtype == [m.descr[c] for c in ecols] or (res.dtype is m.dtype and allcols)) and not escalar and not split:
            continue        # an empty selection answered without touching the file
        if len(m.calls) != 1:
            add("roles", "%s reaches the C++ object %d times (%s)" % (what, len(m.calls), [c[0] for c in m.calls]))
            continue
        name, ca, ck, _ = m.calls[0]
        buf = ca[0] if ca else None
        if name == "read_columns":
            if ck or len(ca) != 3 or not isinstance(buf, _MBuf):
                add("roles", "%s calls read_columns%r %r" % (what, ca, ck))
                continue
            _, cn, rw = ca
            if cn is None and not ascii_:
                add("roles", "%s passes None as the column numbers of a binary read (the C++ binary reader indexes them unconditionally)" % what)
                continue
            got_cols = list(range(len(_NAMES))) if cn is None else (list(cn) if isinstance(cn, (list, tuple)) else cn)
            got_rows = allrows if rw is None else (list(rw) if isinstance(rw, (list, tuple)) else rw)
            if got_cols != ecols:
                add("synonym" if (fields is not None) != (columns is not None) and got_cols == list(range(len(_NAMES))) else "colnums",
                    "%s reads column numbers %r, the request is %r (file order, no repeats)" % (what, got_cols, ecols))
            if got_rows != want_rows:
                add("unique", "%s reads rows %r, the distinct requested rows in ascending order are %r" % (what, got_rows, want_rows))
            if buf.n != len(want_rows):
                add("count", "%s allocates %d rows for %d requested" % (what, buf.n, len(want_rows)))
            if isinstance(got_cols, list) and not (buf.dtype == [m.descr[c] for c in got_cols if 0 <= c < len(m.descr)] or (buf.dtype is m.dtype and got_cols == list(range(len(_NAMES))))):
                add("dtype", "%s: the output dtype is %r for column numbers %r" % (what, buf.dtype, got_cols))
        elif name == "read_binary_slice":
            if ascii_ or not allcols:
                add("fastpath", "%s is sent to the whole-row binary slice reader" % what)
                continue
            for facet, text in _norm_slice_call(m, want_rows, n).items():
                add({"rows": "fastslice", "bounds": "fastslice", "count": "count", "buffer": "dtype", "roles": "roles"}[facet], "%s: %s" % (what, text))
        else:
            add("roles", "%s reaches %s" % (what, name))
            continue
        # what is handed back
        if escalar:
            if not (isinstance(res, _Tag) and res[0] == "getitem" and res[1] is buf and res[2] == req):
                add("synonym" if isinstance(res, _Tag) and res[0] == "getitem" and res[2] is None else "scalar",
                    "%s returns %r; a single column name yields the plain array result[%r]" % (what, res, req))
        elif split:
            if not (isinstance(res, _Tag) and res[0] == "split" and res[1] is buf):
                add("split", "%s returns %r, not split_fields(result)" % (what, res))
        elif res is not buf:
            add("scalar" if isinstance(res, _Tag) and res[0] == "getitem" else "roles", "%s returns %r, not the array that was filled" % (what, res))
    return bad


def _sim_subsets(repo):
    """RecfileColumnSubset / RecfileSubset objects built from either synonym forward rows, columns and split to Recfile.read
    -> {facet: [counterexamples]}"""
    bad = {"RecfileColumnSubset.read": [], "RecfileSubset.read": []}
    it = _interp(repo)
    for cls in ("RecfileColumnSubset", "RecfileSubset"):
        init = repo.func(_RU + cls + ".__init__")
        rd = repo.func(_RU + cls + ".read")
        for syn in ("columns", "fields"):
            for cols in ("b", ["c", "a"]):
                for rows in (None, [3, 1, 1]):
                    for split in (False, True):
                        m = _Model(repo, 5, False, stub_read=True)
                        me = _MObj(cls, cls=_RU + cls)
                        what = "%s(rf, %s=%r%s).read(%s)" % (cls, syn, cols, ", rows=%r" % rows if cls == "RecfileSubset" else "",
                                                             ", ".join(x for x in ("rows=%r" % rows if cls != "RecfileSubset" else "", "split=True" if split else "") if x))
                        try:
                            kw = {syn: cols}
                            if cls == "RecfileSubset":
                                kw["rows"] = rows
                            it.run(init, [m.rf], kw, me)
                            kw = {"split": True} if split else {}
                            if cls != "RecfileSubset" and rows is not None:
                                kw["rows"] = rows
                            res = it.run(rd, [], kw, me)
                        except _PyRaise as e:
                            bad[cls + ".read"].append("%s raises %s" % (what, e.name))
                            continue
                        calls = [c for c in m.calls if c[0] == "read"]
                        if len(calls) != 1 or len(m.calls) != 1:
                            bad[cls + ".read"].append("%s reaches %s" % (what, [c[0] for c in m.calls]))
                            continue
                        _, ca, ck, r = calls[0]
                        got_cols = ck.get("columns") if ck.get("columns") is not None else ck.get("fields")
                        got_rows = ck.get("rows", ca[0] if ca else None)
                        exp_rows = rows if cls != "RecfileSubset" else (None if rows is None else sorted(set(rows)))
                        rows_ok = _same_req(got_rows, exp_rows, rows=True) or _same_req(got_rows, rows, rows=True)   # read() normalises (again)
                        if len(ca) > 1 or not _same_req(got_cols, cols) or not rows_ok or bool(ck.get("split", False)) != split or res is not r:
                            bad[cls + ".read"].append("%s calls recfile.read%r %r" % (what, ca, ck))
    return bad


def _sfile_model(repo, m):
    robj = _MObj("recfile-of-sfile", stubs={"read": m._rec("read")}, getitem=lambda k: m._rec("getitem")(k))
    hdr = {"k": 1}
    sf = _MObj("sfile", attrs={"_robj": robj, "_hdr": hdr}, stubs={"_ensure_open_for_reading": lambda: None, "close": lambda: None},
               cls="esutil.sfile.SFile")
    return sf, hdr


def _sim_sfile(repo):
    """SFile.read / SFile[...] / sfile.read(filename, ...) -> {facet: [counterexamples]}"""
    bad = {"forward": [], "synonym": [], "split": [], "reduce": [], "header": [], "getitem": [], "module-read": []}
    it = _interp(repo)
    rd = repo.func("esutil.sfile.SFile.read")
    for rows in (None, [2, 0]):
        for fields, columns in ((None, None), ("b", None), (None, "b"), (None, ["c", "a"]), (["c", "a"], None)):
            for split, reduce_ in ((False, False), (True, False), (False, True)):
                for header in (False, True):
                    for via in ("SFile.read", "sfile.read"):
                        m = _Model(repo, 5, False)
                        sf, hdr = _sfile_model(repo, m)
                        kw = {k: v for k, v in (("rows", rows), ("fields", fields), ("columns", columns)) if v is not None}
                        for k, v in (("split", split), ("reduce", reduce_), ("header", header)):
                            if v:
                                kw[k] = True
                        what = "%s(%s)" % (via, ", ".join("%s=%r" % kv for kv in sorted(kw.items())))
                        try:
                            if via == "SFile.read":
                                res = it.run(rd, [], kw, sf)
                            else:
                                if not repo.has("esutil.sfile.read"):
                                    continue
                                it.class_stubs["SFile"] = lambda *a, **k: sf
                                res = it.run(repo.func("esutil.sfile.read"), ["file.rec"], kw)
                        except _PyRaise as e:
                            bad["forward"].append("%s raises %s" % (what, e.name))
                            continue
                        fac = "module-read" if via == "sfile.read" else None
                        if len(m.calls) != 1 or m.calls[0][0] != "read":
                            bad[fac or "forward"].append("%s reaches %s" % (what, [c[0] for c in m.calls]))
                            continue
                        _, ca, ck, r = m.calls[0]
                        got_cols = ck.get("columns") if ck.get("columns") is not None else ck.get("fields")
                        want_cols = columns if columns is not None else fields
                        if ca or not _same_req(ck.get("rows"), rows, rows=True) or any(k not in ("rows", "columns", "fields") and v not in (None, False) for k, v in ck.items()):
                            bad[fac or "forward"].append("%s calls recfile.read%r %r" % (what, ca, ck))
                        if not _same_req(got_cols, want_cols):
                            bad[fac or "synonym"].append("%s asks the recfile for columns %r, the request is %r" % (what, got_cols, want_cols))
                        body = res
                        if header:
                            if not (isinstance(res, tuple) and len(res) == 2 and isinstance(res[1], _Tag) and res[1][0] == "copy" and res[1][1] is hdr):
                                bad[fac or "header"].append("%s returns %r; header=True gives (data, copy of the header)" % (what, res))
                                continue
                            body = res[0]
                        want = _Tag(("split", r)) if split else _Tag(("reduce", r)) if reduce_ else r
                        if not (body is r if want is r else isinstance(body, _Tag) and tuple(body) == tuple(want)):
                            bad[fac or ("split" if split else "reduce" if reduce_ else "forward")].append("%s returns %r, expected %r" % (what, body, want))
    gi = repo.func("esutil.sfile.SFile.__getitem__")
    for arg in (slice(1, 3), [0, 2], "b"):
        m = _Model(repo, 5, False)
        sf, hdr = _sfile_model(repo, m)
        try:
            res = it.run(gi, [arg], {}, sf)
        except _PyRaise as e:
            bad["getitem"].append("SFile[%r] raises %s" % (arg, e.name))
            continue
        if len(m.calls) != 1 or m.calls[0][0] != "getitem" or m.calls[0][1] != (arg,) or res is not m.calls[0][3]:
            bad["getitem"].append("SFile[%r] reaches %s" % (arg, [(c[0], c[1]) for c in m.calls]))
    return bad


def _data_model(names):
    """model structured array: dtype.names / dtype.fields, data[name] -> a tagged view"""
    fields = None if names is None else {n: ("<i4", 4 * i) for i, n in enumerate(names)}
    dt = _MObj("dtype", attrs={"names": None if names is None else tuple(names), "fields": fields,
                               "descr": [] if names is None else [(n, "<i4") for n in names], "__len__": 0 if names is None else len(names)})
    d = _MObj("data", attrs={"dtype": dt, "size": 3}, getitem=lambda k: _Tag(("view", k)))
    return d


def _sim_reduce(repo, fi):
    bad = {"single": [], "other": [], "total": []}
    it = _interp(repo)
    plain = _MObj("object-without-dtype")
    for what, d, want in (("an object without dtype", plain, plain), ("a plain array", _data_model(None), None),
                          ("a one-field array", _data_model(["x"]), _Tag(("view", "x"))), ("a two-field array", _data_model(["x", "y"]), None),
                          ("a three-field array", _data_model(["x", "y", "z"]), None)):
        try:
            res = it.run(fi, [d], {})
        except _PyRaise as e:
            bad["total"].append("reduce_array(%s) raises %s" % (what, e.name))
            continue
        if res is None:
            bad["total"].append("reduce_array(%s) returns None" % what)
        elif isinstance(want, _Tag):
            if not (isinstance(res, _Tag) and tuple(res) == tuple(want)):
                bad["single"].append("reduce_array(%s) returns %r, not the view of its only field" % (what, res))
        elif res is not d:
            bad["other"].append("reduce_array(%s) returns %r, not the input itself" % (what, res))
    return bad


def _sim_split(repo, fi):
    bad = {"order": [], "tuple": [], "default": [], "missing": [], "names": []}
    it = _interp(repo)
    names = ["x", "y", "z"]
    for req, getnames in ((None, False), ("y", False), (["z", "x"], False), (["y", "y"], False), (("x",), False), (None, True), (["z", "x"], True),
                          (["x", "nope"], False), ("nope", False)):
        d = _data_model(names)
        kw = {}
        if req is not None:
            kw["fields"] = req
        if getnames:
            kw["getnames"] = True
        what = "split_fields(data%s)" % "".join(", %s=%r" % kv for kv in sorted(kw.items()))
        want = names if req is None else ([req] if isinstance(req, str) else list(req))
        try:
            res = it.run(fi, [d], kw)
        except _PyRaise as e:
            if all(w in names for w in want):
                bad["order" if req is not None else "default"].append("%s raises %s" % (what, e.name))
            continue
        if not all(w in names for w in want):
            bad["missing"].append("%s names a field that does not exist but returns %r" % (what, res))
            continue
        body = res
        if getnames:
            if not (isinstance(res, tuple) and len(res) == 2):
                bad["names"].append("%s returns %r, not (views, names)" % (what, res))
                continue
            body, nm = res
            try:
                if list(nm) != want:
                    bad["names"].append("%s returns the names %r" % (what, nm))
            except TypeError:
                bad["names"].append("%s returns the names %r" % (what, nm))
        if not isinstance(body, tuple) or isinstance(body, _Tag):
            bad["tuple"].append("%s returns %r, not a tuple" % (what, body))
            continue
        if [tuple(v) if isinstance(v, _Tag) else v for v in body] != [("view", w) for w in want]:
            bad["default" if req is None else "order"].append("%s returns %r, expected the views of %s in that order" % (what, body, want))
    d = _data_model(None)
    try:
        res = it.run(fi, [d], {})
        if not (isinstance(res, tuple) and len(res) == 1 and res[0] is d):
            bad["default"].append("split_fields(<array without fields>) returns %r, not (data,)" % (res,))
    except _PyRaise as e:
        bad["default"].append("split_fields(<array without fields>) raises %s" % e.name)
    try:
        res = it.run(fi, [d], {"fields": ["x"]})
        bad["missing"].append("split_fields(<array without fields>, fields=['x']) returns %r" % (res,))
    except _PyRaise:
        pass
    return bad
