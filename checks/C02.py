"""C02 -- row/column subset reads equal indexing the fully-read table.

Structural rules (DESIGN 5/C02): slice normalisation, row-list normalisation,
column normalisation, fields/columns synonym discipline, one funnel into the
C++ read primitives, total post-processing helpers, cursor pairing in the C++
skip-and-read loops.
"""
import ast

from vcheck import cfront, rules
from vcheck.core import PyRepo, AnalysisError, call_name, dotted_name, kwarg, norm, walk_no_nested
from vcheck.rules import cfg_of

MANIFEST = dict(
    text="Structural rule checking (not a behavioural proof), for all selections at once: (1) every slice consumed on a path "
         "from Recfile/RecfileColumnSubset bracket access is normalised by slice.indices(<row count>) (Python's own slice "
         "semantics) with results used unmodified, empty selections do not raise, and the row-count formula is the ceiling "
         "division in Python and C++ alike; (2) explicit row lists pass numpy.unique, are range-checked by a raise that "
         "dominates the normal return and are never clamped; (3) column names map to unique sorted column numbers and unknown "
         "names raise; (4) the fields/columns synonyms are merged before either is used; (5) only Recfile's two private readers "
         "call the C++ read primitives and every access style (keyword read, brackets, column-subset objects, SFile) funnels "
         "into them with argument roles preserved; (6) split/reduce helpers are total and order preserving; (7) in the C++ "
         "skip-and-read loops every skip is followed by the matching cursor update and each iteration advances the cursors once.",
    note="Not decided: element-wise equality with in-memory indexing (numpy indexing, libc reads trusted). Assumes positive "
         "slice steps (property quantifier). Trusted: slice.indices, numpy.unique, CPython ast, clang AST, SWIG naming.",
    technique="static analysis: AST/CFG dominance and def-use rules, who-may-call over the resolved call graph, C++ loop cursor-pairing on clang AST",
)


# rules that keep their verdict however the code is laid out (decided by term equality, effect analysis or dominance over
# resolved calls); every other rule of this check is a template rule (vcheck.core.Check.obt)
SEMANTIC = ('R02.1b', 'R02.1c', 'R02.2a', 'R02.2b', 'R02.2c', 'R02.4', 'R02.6b', 'R02.6c', 'R02.7i')


def run(chk):
    repo = PyRepo()
    chk.set_templates(repo, semantic=SEMANTIC)
    chk.explanation = MANIFEST["text"]
    chk.trusted = ["slice.indices", "numpy.unique", "CPython ast", "clang 14 AST", "networkx"]
    chk.assume("slice steps are positive (property quantifier)")
    chk.floor = 40
    U = "esutil.recfile.Util."
    F = {k: repo.func(U + "Recfile." + k) for k in
         ("read", "_read_columns", "_read_binary_slice", "__getitem__", "_get_slice_nrows", "_process_args_as_rows_or_columns",
          "_get_rows2read", "_get_colnums_to_read", "get_colnums", "get_colnum")}
    for f in F.values():
        chk.analysed_unit(f.qualname)
    cfun = cfront.functions(cfront.load_tu("records"))

    r02_1(chk, repo, F, cfun)
    r02_2(chk, repo, F)
    r02_3(chk, repo, F)
    r02_4(chk, repo)
    r02_5(chk, repo, F, cfun)
    r02_6(chk, repo)
    r02_7(chk, cfun)


# ---------------------------------------------------------------------------
def _slice_consumers(repo):
    """functions of recfile.Util that read .start/.stop/.step of a parameter or
    take (start, stop, step) parameters"""
    out = []
    for q, fi in repo.funcs.items():
        if not q.startswith("esutil.recfile.Util."):
            continue
        attrs = {x.attr for x in ast.walk(fi.node) if isinstance(x, ast.Attribute) and isinstance(x.value, ast.Name)
                 and x.value.id in fi.params}
        if {"start", "stop"} <= attrs or {"start", "stop"} <= set(fi.params):
            out.append(fi)
    return out


def r02_1(chk, repo, F, cfun):
    pa = F["_process_args_as_rows_or_columns"]
    cfg = cfg_of(pa)
    view = cfg.view()
    # which callees receive the slice (or its parts) under isinstance(arg, slice)
    normalisers = []
    for n in cfg.nodes:
        ts = rules.controlling_tests(view, n)
        if not any("isinstance(arg, slice)" in t and lab == "T" for t, lab in ts):
            continue
        for c in rules.stmts_calls(n):
            d = dotted_name(c.func) or ""
            if d.startswith("self.") and repo.has("esutil.recfile.Util.Recfile." + d[5:]):
                normalisers.append((n, c, repo.func("esutil.recfile.Util.Recfile." + d[5:])))
    chk.ob("R02.1", "slice-normalisers-found", len(normalisers) >= 1, pa.where(),
           "slice arguments are handed to: %s" % [x[2].name for x in normalisers])
    seen = set()
    for n, c, fi in normalisers:
        if fi.qualname in seen:
            continue
        seen.add(fi.qualname)
        chk.analysed_unit(fi.qualname)
        _check_slice_normaliser(chk, repo, fi)
    # row-count formula: python and C++ agree with ceil((stop-start)/step)
    gs = F["_get_slice_nrows"]
    ok, why = _is_ceil_div_py(gs.node)
    chk.ob("R02.1e", gs.qualname + "::row-count-is-ceil-division", ok, gs.where(),
           "number of rows of a normalised slice is ceil((stop-start)/step): %s" % why)
    ps = cfun.get("Records::process_slice")
    if ps is None:
        raise AnalysisError("C++ anchor Records::process_slice not found")
    ok, why = _is_ceil_div_c(ps)
    chk.ob("R02.1e", "Records::process_slice::row-count-is-ceil-division", ok, "esutil/recfile/records.cpp",
           "C++ row count of a slice is ceil((row2-row1)/step): %s" % why)
    # the array handed to the C++ slice reader is sized by that count and has the file dtype
    rb = F["_read_binary_slice"]
    zs = [x for x in ast.walk(rb.node) if isinstance(x, ast.Call) and call_name(x) == "zeros"]
    ok = False
    for z in zs:
        dt = kwarg(z, "dtype")
        if z.args and isinstance(z.args[0], ast.Name) and dt is not None and norm(dt) == "self.dtype":
            # provenance of the size variable
            for x in ast.walk(rb.node):
                if isinstance(x, ast.Assign) and norm(x.targets[0]) == z.args[0].id and isinstance(x.value, ast.Call) \
                        and call_name(x.value) == "_get_slice_nrows":
                    ok = True
    chk.ob("R02.1f", rb.qualname + "::buffer-sized-by-count", ok, rb.where(),
           "the slice read buffer is zeros(<slice row count>, dtype=self.dtype)")
    # argument roles of the C++ call
    ok = False
    for x in ast.walk(rb.node):
        if isinstance(x, ast.Call) and call_name(x) == "read_binary_slice" and len(x.args) == 4:
            roles = [norm(a) for a in x.args[1:]]
            ok = all(r.replace("int(", "").rstrip(")") == "arg." + w for r, w in zip(roles, ("start", "stop", "step")))
    chk.ob("R02.1f", rb.qualname + "::start-stop-step-roles", ok, rb.where(),
           "read_binary_slice receives (buffer, start, stop, step) in that order")


def _check_slice_normaliser(chk, repo, fi):
    """accepted idiom: s.indices(self.nrows) / slice(a,b,c).indices(self.nrows); results unmodified except stop>=start clamp"""
    calls = [x for x in walk_no_nested(fi.node) if isinstance(x, ast.Call) and call_name(x) == "indices"]
    key = fi.qualname
    if not calls:
        # hand-rolled normalisation: apply the local necessary conditions
        _hand_rolled_slice(chk, repo, fi)
        return
    c = calls[0]
    ok = len(c.args) == 1 and norm(c.args[0]) in ("self.nrows", "nrows", "len(self)")
    chk.ob("R02.1a", key + "::delegates-to-slice.indices", ok, fi.where(c),
           "slice bounds are normalised by slice.indices(%s) -- must be the row count" % (norm(c.args[0]) if c.args else ""))
    # the three results must be bound directly and not re-assigned except `stop = start` under `stop < start`
    tgt = None
    for x in walk_no_nested(fi.node):
        if isinstance(x, ast.Assign) and x.value is c and isinstance(x.targets[0], ast.Tuple):
            tgt = [norm(e) for e in x.targets[0].elts]
    direct = tgt is not None and len(tgt) == 3
    inline = any(isinstance(x, ast.Starred) and x.value is c for x in ast.walk(fi.node))
    chk.ob("R02.1a", key + "::indices-result-bound", direct or inline, fi.where(c),
           "the (start, stop, step) triple from slice.indices is used as a whole (%s)" % (tgt or ("star-expanded" if inline else "NOT RECOGNISED")))
    if direct:
        cfg = cfg_of(fi)
        view = cfg.view()
        for n in cfg.nodes:
            a = n.ast
            if n.kind == "stmt" and isinstance(a, (ast.Assign, ast.AugAssign)):
                t = norm(a.targets[0]) if isinstance(a, ast.Assign) else norm(a.target)
                if t in tgt and not (isinstance(a, ast.Assign) and a.value is c):
                    ts = rules.controlling_tests(view, n)
                    allowed = isinstance(a, ast.Assign) and t == tgt[1] and norm(a.value) == tgt[0] and \
                        any(tt.replace(" ", "") in ("%s<%s" % (tgt[1], tgt[0]), "%s>%s" % (tgt[0], tgt[1])) and lab == "T" for tt, lab in ts)
                    chk.ob("R02.1b", key + "::no-adjustment-of-normalised-bounds::" + norm(a), allowed, fi.where(a),
                           "normalised slice bounds may only be adjusted by the empty-slice clamp `stop = start if stop < start` (found `%s` under %s)" % (norm(a), ts))
    # no raise that is not about the step
    for n in rules.raise_nodes(cfg_of(fi)):
        ts = rules.controlling_tests(cfg_of(fi).view(), n)
        about_step = any("step" in t for t, _ in ts)
        chk.ob("R02.1c", key + "::no-raise-on-valid-slice::" + norm(n.ast)[:50], about_step, fi.where(n.ast),
               "a slice with positive step never raises (Python semantics give an empty result); raise is controlled by %s" % ts)


def _hand_rolled_slice(chk, repo, fi, depth=0):
    """local necessary conditions on hand-written slice normalisation (DESIGN R02.1 a-d)"""
    key = fi.qualname
    cfg = cfg_of(fi)
    view = cfg.view()
    # (a) no raise not controlled by a step test
    for n in rules.raise_nodes(cfg):
        ts = rules.controlling_tests(view, n)
        about_step = any("step" in t for t, _ in ts)
        chk.ob("R02.1c", key + "::no-raise-on-valid-slice::" + _guard_key(ts), about_step, fi.where(n.ast),
               "a slice with positive step never raises under Python semantics (out-of-range or reversed bounds give a "
               "clamped / empty result); this raise is controlled by %s" % [t for t, _ in ts])
    # (b) under a guard `b < 0` the bound becomes exactly n + b
    for n in cfg.nodes:
        a = n.ast
        if n.kind == "stmt" and isinstance(a, ast.Assign) and isinstance(a.targets[0], ast.Name):
            v = a.targets[0].id
            ts = rules.controlling_tests(view, n)
            neg = any(t.replace(" ", "") == v + "<0" and lab == "T" for t, lab in ts)
            if neg and isinstance(a.value, ast.BinOp):
                ok = _is_n_plus(a.value, v)
                chk.ob("R02.1b", key + "::negative-bound-wraps-by-n::" + v, ok, fi.where(a),
                       "a negative slice bound b maps to nrows + b (found `%s`)" % norm(a))
    # follow helper calls that take a bound (e.g. _fix_range) with the slice flag
    if depth < 2:
        for x in walk_no_nested(fi.node):
            if isinstance(x, ast.Call):
                d = dotted_name(x.func) or ""
                if d.startswith("self.") and repo.has("esutil.recfile.Util.Recfile." + d[5:]):
                    callee = repo.func("esutil.recfile.Util.Recfile." + d[5:])
                    if callee is not fi and callee.name not in ("_get_slice_nrows",):
                        chk.analysed_unit(callee.qualname)
                        _hand_rolled_slice_helper(chk, callee)


def _hand_rolled_slice_helper(chk, fi):
    """helper taking one bound `num` and an isslice flag: on the slice arm, negative num -> nrows + num exactly"""
    cfg = cfg_of(fi)
    flagname = next((p for p in fi.params if p.startswith("isslice") or p == "slice"), None)
    view = cfg.specialise(flags={flagname: True}) if flagname else cfg.view()
    for n in view.nodes():
        a = n.ast
        if n.kind == "stmt" and isinstance(a, ast.Assign) and isinstance(a.targets[0], ast.Name):
            v = a.targets[0].id
            ts = rules.controlling_tests(view, n)
            neg = any(t.replace(" ", "") == v + "<0" and lab == "T" for t, lab in ts)
            if neg:
                ok = isinstance(a.value, ast.BinOp) and _is_n_plus(a.value, v)
                chk.ob("R02.1b", fi.qualname + "::slice-arm::negative-bound-wraps-by-n", ok, fi.where(a),
                       "on the slice arm a negative bound b maps to nrows + b (found `%s`)" % norm(a))


def _guard_key(ts):
    return "|".join(t for t, _ in ts)[:80] or "top"


def _is_n_plus(binop, v):
    """binop is exactly `<nrows> + v` or `v + <nrows>`"""
    if not isinstance(binop.op, ast.Add):
        return False
    l, r = norm(binop.left), norm(binop.right)
    return (l in ("self.nrows", "nrows") and r == v) or (r in ("self.nrows", "nrows") and l == v)


def _is_ceil_div_py(fn):
    """accept: len(range(a,b,s)); (d + s - 1)//s; d//s + extra with extra = 1 iff d % s != 0"""
    env = {}
    ret = None
    extra_cond = None
    for x in walk_no_nested(fn):
        if isinstance(x, ast.Assign) and isinstance(x.targets[0], ast.Name):
            env.setdefault(x.targets[0].id, []).append(x)
        if isinstance(x, ast.Return) and x.value is not None:
            ret = x.value

    def val(e):
        if isinstance(e, ast.Name) and e.id in env:
            # last non-constant definition
            for a in env[e.id]:
                if not isinstance(a.value, ast.Constant):
                    return a.value
        return e

    r = val(ret) if ret is not None else None
    if r is None:
        return False, "no return value"
    if isinstance(r, ast.Call) and call_name(r) == "len" and r.args and isinstance(r.args[0], ast.Call) and call_name(r.args[0]) == "range":
        return True, "len(range(...))"
    if isinstance(r, ast.BinOp) and isinstance(r.op, ast.Add):
        parts = [val(r.left), val(r.right)]
        fd = [p for p in parts if isinstance(p, ast.BinOp) and isinstance(p.op, ast.FloorDiv)]
        ex = [p for p in (r.left, r.right) if isinstance(p, ast.Name) and p.id in env and
              {getattr(a.value, "value", None) for a in env[p.id]} == {0, 1}]
        if len(fd) == 1 and len(ex) == 1:
            d, s = norm(val(fd[0].left)), norm(fd[0].right)
            # extra = 1 is controlled by (d % s) != 0
            for n in ast.walk(fn):
                if isinstance(n, ast.If):
                    sets1 = any(isinstance(b, ast.Assign) and norm(b.targets[0]) == ex[0].id and getattr(b.value, "value", None) == 1 for b in n.body)
                    t = n.test
                    if sets1 and isinstance(t, ast.Compare) and isinstance(t.ops[0], ast.NotEq) and isinstance(t.left, ast.BinOp) \
                            and isinstance(t.left.op, ast.Mod) and norm(t.left.right) == s and norm(val(t.left.left)) == d \
                            and getattr(t.comparators[0], "value", None) == 0:
                        if "stop" in d and "start" in d and d.replace(" ", "").find("stop-") >= 0:
                            return True, "(%s)//%s + [(%s) %% %s != 0]" % (d, s, d, s)
            return False, "floor-division plus flag, but the flag is not `1 iff remainder != 0` of the same operands"
    if isinstance(r, ast.BinOp) and isinstance(r.op, ast.FloorDiv):
        return False, "plain floor division drops the partial last step: %s" % norm(r)
    return False, "unrecognised count expression %s" % norm(r)


def _is_ceil_div_c(fn):
    env = {}
    ret = None
    body = cfront.body_of(fn)
    conds = []
    for x in cfront.walk(body):
        if x.get("kind") == "VarDecl":
            init = [c for c in x.get("inner", []) if isinstance(c, dict) and c.get("kind")]
            if init:
                env.setdefault(x["name"], []).append(init[-1])
        if x.get("kind") == "BinaryOperator" and x.get("opcode") == "=":
            l = cfront.strip(x["inner"][0])
            if l.get("kind") == "DeclRefExpr":
                env.setdefault(cfront.render(l), []).append(x["inner"][1])
        if x.get("kind") == "IfStmt":
            conds.append(x)
        if x.get("kind") == "ReturnStmt" and x.get("inner"):
            ret = x["inner"][0]
    if ret is None:
        return False, "no return"

    def val(e):
        s = cfront.strip(e)
        if s.get("kind") == "DeclRefExpr":
            nm = cfront.render(s)
            for d in env.get(nm, []):
                ds = cfront.strip(d)
                if ds.get("kind") != "IntegerLiteral":
                    return ds
        return s

    r = val(ret)
    if r.get("kind") == "BinaryOperator" and r.get("opcode") == "+":
        a, b = val(r["inner"][0]), cfront.strip(r["inner"][1])
        if a.get("kind") == "BinaryOperator" and a.get("opcode") == "/":
            d = cfront.render(val(a["inner"][0]))
            s = cfront.render(a["inner"][1])
            ex = cfront.render(b)
            for c in conds:
                ct = cfront.strip(c["inner"][0])
                sets1 = any(y.get("kind") == "BinaryOperator" and y.get("opcode") == "=" and cfront.render(y["inner"][0]) == ex
                            and cfront.render(y["inner"][1]) == "1" for y in cfront.walk(c["inner"][1]))
                if sets1 and ct.get("kind") == "BinaryOperator" and ct.get("opcode") == "!=" and cfront.render(ct["inner"][1]) == "0":
                    m = cfront.strip(ct["inner"][0])
                    if m.get("kind") == "BinaryOperator" and m.get("opcode") == "%" and cfront.render(val(m["inner"][0])) == d \
                            and cfront.render(m["inner"][1]) == s and d.replace(" ", "") == "(row2-row1)":
                        return True, "%s/%s + [%s %% %s != 0]" % (d, s, d, s)
            return False, "division plus flag but flag is not `1 iff remainder != 0`"
    return False, "unrecognised count expression %s" % cfront.render(ret)


# ---------------------------------------------------------------------------
def r02_2(chk, repo, F):
    fi = F["_get_rows2read"]
    cfg = cfg_of(fi)
    view = cfg.view()
    rets = [n for n in rules.return_nodes(cfg) if n.ast.value is not None and not (isinstance(n.ast.value, ast.Constant) and n.ast.value.value is None)]
    uniq = [n for n in cfg.nodes if n.kind == "stmt" and isinstance(n.ast, ast.Assign) and isinstance(n.ast.value, ast.Call)
            and call_name(n.ast.value) == "unique"]
    chk.ob("R02.2a", fi.qualname + "::unique-applied", len(uniq) >= 1, fi.where(),
           "the requested row list passes numpy.unique (distinct rows, ascending)")
    final_rets = []
    for r in rets:
        v = norm(r.ast.value)
        from_uniq = [u for u in uniq if norm(u.ast.targets[0]) == v and view.dominates(u, r)]
        # nothing re-assigns the variable between unique and return
        clobber = [n for n in cfg.nodes if n.kind == "stmt" and isinstance(n.ast, ast.Assign) and norm(n.ast.targets[0]) == v
                   and n not in uniq and any(view.reaches(u, n) for u in from_uniq)]
        early_empty = any("size" in t and "== 0" in t.replace("  ", " ") and lab == "T" for t, lab in rules.controlling_tests(view, r))
        if early_empty and not any(view.dominates(u, r) for u in uniq):
            early_empty = False      # an "empty" shortcut taken before de-duplication is not the de-duplicated list
        if early_empty:
            chk.ob("R02.2a", fi.qualname + "::empty-selection-returns", True, fi.where(r.ast), "empty selection is returned as is")
            continue
        final_rets.append(r)
        chk.ob("R02.2a", fi.qualname + "::returns-unique-result", bool(from_uniq) and not clobber, fi.where(r.ast),
               "the value returned (`%s`) is the numpy.unique result, not modified afterwards" % v)
    # range check: a raise controlled by a comparison with the row count dominates... i.e. its failing
    # outcome is the only way past it
    rc = []
    for n in rules.raise_nodes(cfg):
        ts = rules.controlling_tests(view, n)
        for t, lab in ts:
            if "nrows" in t and ("<" in t or ">" in t):
                rc.append((n, t, lab))
    chk.ob("R02.2b", fi.qualname + "::range-check-raises", bool(rc), fi.where(),
           "a range check against the row count raises (%s)" % ([t for _, t, _ in rc] or "NOT FOUND"))
    for n, t, lab in rc:
        tt = t.replace(" ", "")
        lo = "<0" in tt
        hi = ">=self.nrows" in tt or ">self.nrows-1" in tt or ">=nrows" in tt
        chk.ob("R02.2b", fi.qualname + "::range-check-bounds", lo and hi and lab == "T", fi.where(n.ast),
               "range check rejects rows < 0 and rows >= nrows (test: %s)" % t)
        # the branch of the range check dominates every final return
        b = [bb for bb, l in view.controlling_branches(n) if norm(bb.ast.test) == t]
        for r in final_rets:
            dom = bool(b) and view.dominates(b[0], r)
            chk.ob("R02.2b", fi.qualname + "::range-check-dominates-return", dom, fi.where(r.ast),
                   "the range check is on every path to the return of the row list")
    # no clamping of explicit rows: follow helper calls with the non-slice flag
    for x in walk_no_nested(fi.node):
        if isinstance(x, ast.Call):
            d = dotted_name(x.func) or ""
            if d.startswith("self.") and repo.has("esutil.recfile.Util.Recfile." + d[5:]):
                callee = repo.func("esutil.recfile.Util.Recfile." + d[5:])
                fl = kwarg(x, "isslice")
                flags = {"isslice": fl.value} if isinstance(fl, ast.Constant) else {}
                _no_clamp(chk, callee, flags)
    _no_clamp(chk, fi, {})


def _no_clamp(chk, fi, flags):
    cfg = cfg_of(fi)
    view = cfg.specialise(flags=flags)
    chk.analysed_unit(fi.qualname + ("[%s]" % flags if flags else ""))
    found = 0
    for n in view.nodes():
        a = n.ast
        if n.kind == "stmt" and isinstance(a, ast.Assign) and len(a.targets) == 1:
            tgt = a.targets[0]
            base = tgt.value if isinstance(tgt, ast.Subscript) else tgt
            if not isinstance(base, ast.Name):
                continue
            v = norm(tgt)
            ts = rules.controlling_tests(view, n)
            for t, lab in ts:
                tt = t.replace(" ", "")
                if lab == "T" and tt.startswith(v.replace(" ", "") + ">") and "nrows" in tt and "nrows" in norm(a.value):
                    found += 1
                    chk.ob("R02.2c", fi.qualname + "::no-clamp-of-explicit-row", False, fi.where(a),
                           "an explicit row number beyond the table is replaced by `%s` (under `%s`) instead of being rejected: "
                           "read(rows=[k]) with k >= nrows silently returns another row" % (norm(a.value), t))
    if not found:
        chk.ob("R02.2c", fi.qualname + "::no-clamp-of-explicit-row", True, fi.where(),
               "no value-clamping store of an explicit row number on the non-slice path")


# ---------------------------------------------------------------------------
def r02_3(chk, repo, F):
    gc = F["get_colnums"]
    rets = [x for x in walk_no_nested(gc.node) if isinstance(x, ast.Return) and x.value is not None]
    ok = bool(rets) and all(isinstance(r.value, ast.Call) and call_name(r.value) == "unique" for r in rets)
    chk.ob("R02.3a", gc.qualname + "::returns-unique-sorted", ok, gc.where(),
           "column numbers are returned through numpy.unique (file order, no repeats)")
    # every requested name is looked up (loop over all of colnames, store at same index)
    loop_ok = False
    for x in walk_no_nested(gc.node):
        if isinstance(x, ast.For) and isinstance(x.iter, ast.Call) and call_name(x.iter) == "range" and len(x.iter.args) == 1:
            i = norm(x.target)
            for b in x.body:
                if isinstance(b, ast.Assign) and isinstance(b.targets[0], ast.Subscript) and norm(b.targets[0].slice) == i \
                        and isinstance(b.value, ast.Call) and call_name(b.value) == "get_colnum" and b.value.args \
                        and isinstance(b.value.args[0], ast.Subscript) and norm(b.value.args[0].slice) == i \
                        and norm(x.iter.args[0]).endswith(".size"):
                    loop_ok = True
        if isinstance(x, (ast.ListComp,)):
            loop_ok = loop_ok or any(isinstance(y, ast.Call) and call_name(y) == "get_colnum" for y in ast.walk(x))
    chk.ob("R02.3a", gc.qualname + "::every-name-looked-up", loop_ok, gc.where(),
           "every requested column name is translated (loop over all names, same index on both sides)")
    g1 = F["get_colnum"]
    cfg = cfg_of(g1)
    view = cfg.view()
    ok = False
    for n in rules.raise_nodes(cfg):
        for t, lab in rules.controlling_tests(view, n):
            if ("size == 0" in t or "not in" in t or "size < 1" in t) and lab == "T":
                ok = True
    chk.ob("R02.3b", g1.qualname + "::unknown-name-raises", ok, g1.where(), "an unknown column name raises")
    rets = [x for x in walk_no_nested(g1.node) if isinstance(x, ast.Return) and x.value is not None]
    ok = bool(rets) and all(norm(r.value) in ("w[0]", "int(w[0])") for r in rets)
    cmp_ok = any(isinstance(x, ast.Compare) and norm(x) in ("self.colnames == colname", "colname == self.colnames") for x in ast.walk(g1.node))
    chk.ob("R02.3b", g1.qualname + "::position-of-equal-name", ok and cmp_ok, g1.where(),
           "the column number is the position where the stored names equal the requested name")
    # _read_columns: output dtype is built from the file descr at the (sorted) column numbers, in that order
    rcols = F["_read_columns"]
    ok = False
    for x in walk_no_nested(rcols.node):
        if isinstance(x, ast.For) and norm(x.iter) == "colnums":
            for b in x.body:
                if isinstance(b, ast.Expr) and isinstance(b.value, ast.Call) and call_name(b.value) == "append" and b.value.args \
                        and norm(b.value.args[0]) == "self.dtype.descr[%s]" % norm(x.target):
                    ok = True
    chk.ob("R02.3c", rcols.qualname + "::subset-dtype-from-file-descr", ok, rcols.where(),
           "the dtype of a column subset is the file descr entries at the sorted column numbers, appended in that order")
    cs = F["_get_colnums_to_read"]
    # scalar column name => plain array of that column: flag derived from numpy.isscalar(fields)
    ok = any(isinstance(x, ast.Assign) and isinstance(x.value, ast.Call) and call_name(x.value) == "isscalar" for x in ast.walk(cs.node))
    chk.ob("R02.3d", cs.qualname + "::scalar-flag", ok, cs.where(), "scalar-ness of the column request is derived by numpy.isscalar")


# ---------------------------------------------------------------------------
def r02_4(chk, repo):
    """fields/columns synonyms"""
    scope = [fi for q, fi in repo.funcs.items()
             if (q.startswith("esutil.recfile.Util.") or q.startswith("esutil.sfile.")) and {"fields", "columns"} <= set(fi.params)]
    chk.ob("R02.4", "synonym-functions-found", len(scope) >= 5, "esutil/recfile/Util.py",
           "functions taking both fields= and columns=: %s" % [f.qualname.split("esutil.")[1] for f in scope])
    for fi in scope:
        chk.analysed_unit(fi.qualname)
        cfg = cfg_of(fi)
        view = cfg.view()
        merges = []   # (node, merged var, other var)
        for n in cfg.nodes:
            a = n.ast
            if n.kind == "stmt" and isinstance(a, ast.Assign) and isinstance(a.targets[0], ast.Name) and isinstance(a.value, ast.Name):
                t, v = a.targets[0].id, a.value.id
                if {t, v} == {"fields", "columns"}:
                    ts = rules.controlling_tests(view, n)
                    if any(tt == "%s is None" % t and lab == "T" for tt, lab in ts):
                        merges.append((n, t, v))
        for n in cfg.nodes:
            if n.ast is None or any(n is m[0] for m in merges):
                continue
            roots = [n.ast.test] if n.kind == "branch" else ([n.ast] if n.kind in ("stmt", "return") else [])
            for r in roots:
                for x in walk_no_nested(r):
                    if isinstance(x, ast.Name) and isinstance(x.ctx, ast.Load) and x.id in ("fields", "columns"):
                        ok, why = _synonym_use_ok(cfg, view, n, x, r, merges)
                        chk.ob("R02.4", "%s::use-of-%s::%s" % (fi.qualname, x.id, norm(n.ast.test if n.kind == "branch" else n.ast)[:60]),
                               ok, fi.where(n.ast), why)


def _synonym_use_ok(cfg, view, n, name, root, merges):
    other = "columns" if name.id == "fields" else "fields"
    # (i) forwarded together with the other synonym in one call
    for c in ast.walk(root):
        if isinstance(c, ast.Call):
            passed = {norm(a) for a in c.args} | {norm(k.value) for k in c.keywords}
            if {"fields", "columns"} <= passed:
                return True, "both synonyms are forwarded together to %s" % (call_name(c))
    # (ii) the merge test itself (`if columns is None`)
    if n.kind == "branch" and norm(n.ast.test) in ("%s is None" % name.id, "%s is not None" % name.id):
        return True, "None-test of a synonym"
    # (ii') priority selection: the use is guarded by `<name> is not None`
    if any(t == "%s is not None" % name.id and lab == "T" for t, lab in rules.controlling_tests(view, n)):
        return True, "use guarded by `%s is not None` (priority selection between the synonyms)" % name.id
    # (iii) it is the merged variable and a merge dominates this use
    for m, t, v in merges:
        if name.id == t and view.dominates(m, n) or (name.id == t and _merge_guard_dominates(view, m, n)):
            return True, "use of the merged variable `%s` after the merge" % t
    if merges:
        m, t, v = merges[0]
        if name.id == t:
            # merged var used after the if-merge construct (merge node does not dominate because it is conditional)
            b = view.controlling_branches(m)
            if b and view.dominates(b[0][0], n):
                return True, "use of the merged variable `%s` after the merge" % t
        return False, "`%s` is read although the request was merged into `%s`: a caller using the other synonym is ignored here" % (name.id, t)
    return False, ("`%s` is used on its own and `%s` is never merged into it in this function: "
                   "a request made through the synonym `%s=` is ignored at this use" % (name.id, other, other))


def _merge_guard_dominates(view, m, n):
    b = view.controlling_branches(m)
    return bool(b) and view.dominates(b[0][0], n)


# ---------------------------------------------------------------------------
def r02_5(chk, repo, F, cfun):
    prims = ("read_columns", "read_binary_slice")
    callers = {}
    for q, fi in repo.funcs.items():
        if q.startswith("esutil.") and "tests" not in q:
            for x in walk_no_nested(fi.node):
                if isinstance(x, ast.Call) and call_name(x) in prims and isinstance(x.func, ast.Attribute) \
                        and norm(x.func.value).endswith("robj"):
                    callers.setdefault(call_name(x), set()).add(q)
    allowed = {"read_columns": {F["_read_columns"].qualname}, "read_binary_slice": {F["_read_binary_slice"].qualname}}
    for p in prims:
        chk.ob("R02.5a", "who-may-call::" + p, callers.get(p, set()) == allowed[p], "esutil/recfile/Util.py",
               "callers of the C++ primitive %s: %s (allowed: %s)" % (p, sorted(callers.get(p, ())), sorted(allowed[p])))
    # role-preserving forwarding along every access style
    fw = [
        ("esutil.recfile.Util.Recfile.__getitem__", "read", {"rows": "rows"}),
        ("esutil.recfile.Util.Recfile.__getitem__", "_read_binary_slice", {0: "res"}),
        ("esutil.recfile.Util.Recfile.__getitem__", "RecfileColumnSubset", {"columns": "res", 0: "self"}),
        ("esutil.recfile.Util.RecfileColumnSubset.read", "read", {"rows": "rows", "columns": "self.columns", "split": "split"}),
        ("esutil.recfile.Util.RecfileColumnSubset.__getitem__", "read", {"rows": "res"}),
        ("esutil.recfile.Util.RecfileSubset.read", "read", {"rows": "self.rows", "columns": "self.columns", "split": "split"}),
        ("esutil.sfile.SFile._do_read", "read", {"rows": "rows", "columns": "columns"}),
        ("esutil.sfile.SFile.read", "_do_read", {"rows": "rows", "fields": "fields", "columns": "columns"}),
        ("esutil.recfile.Util.Recfile._read_columns", "read_columns", {0: "data", 1: "colnums", 2: "rows"}),
        ("esutil.recfile.Util.Recfile.read", "_read_columns", {0: "colnums", 1: "rows"}),
    ]
    for q, callee, roles in fw:
        fi = repo.func(q)
        chk.analysed_unit(q)
        calls = [x for x in walk_no_nested(fi.node) if isinstance(x, ast.Call) and call_name(x) == callee]
        if not calls:
            chk.ob("R02.5b", "%s->%s::present" % (q, callee), False, fi.where(), "expected delegation to %s not found" % callee)
            continue
        for c in calls:
            bad = []
            for role, want in roles.items():
                got = norm(c.args[role]) if isinstance(role, int) and role < len(c.args) else (norm(kwarg(c, role)) if not isinstance(role, int) and kwarg(c, role) is not None else None)
                if got != want:
                    bad.append("%s=%s (want %s)" % (role, got, want))
            chk.ob("R02.5b", "%s->%s::roles" % (q, callee), not bad, fi.where(c),
                   "delegation %s -> %s keeps argument roles%s" % (fi.name, callee, "" if not bad else ": " + "; ".join(bad)))
    # SFile.__getitem__ delegates to the Recfile object
    g = repo.func("esutil.sfile.SFile.__getitem__")
    ok = any(isinstance(x, ast.Return) and x.value is not None and norm(x.value) == "self._robj[arg]" for x in ast.walk(g.node))
    chk.ob("R02.5b", g.qualname + "::delegates", ok, g.where(), "SFile[...] is Recfile[...]")
    # bracket dispatch table in _process_args_as_rows_or_columns / __getitem__
    gi = F["__getitem__"]
    cfg = cfg_of(gi)
    view = cfg.view()
    for n in cfg.nodes:
        for c in rules.stmts_calls(n):
            nm = call_name(c)
            if nm in ("_read_binary_slice", "read", "RecfileColumnSubset"):
                ts = dict(rules.controlling_tests(view, n))
                want = {"_read_binary_slice": {"isrows": "T", "isslice": "T"}, "read": {"isrows": "T", "isslice": "F"},
                        "RecfileColumnSubset": {"isrows": "F"}}[nm]
                ok = all(ts.get(k) == v for k, v in want.items())
                chk.ob("R02.5c", gi.qualname + "::dispatch::" + nm, ok, gi.where(n.ast),
                       "%s is selected under %s (found %s)" % (nm, want, ts))
    # text files and column subsets expand slices to rows (their reader takes row lists only)
    for q, want in (("esutil.recfile.Util.Recfile.__getitem__", None), ("esutil.recfile.Util.RecfileColumnSubset.__getitem__", "True")):
        fi = repo.func(q)
        for x in walk_no_nested(fi.node):
            if isinstance(x, ast.Call) and call_name(x) == "_process_args_as_rows_or_columns":
                u = kwarg(x, "unpack")
                if want is not None:
                    chk.ob("R02.5d", q + "::unpack", u is not None and norm(u) == want, fi.where(x),
                           "column-subset bracket access expands slices to row lists (unpack=%s)" % (norm(u) if u is not None else None))
                else:
                    # unpack must be True exactly for text files
                    srcs = [a for a in walk_no_nested(fi.node) if isinstance(a, ast.Assign) and norm(a.targets[0]) == norm(u)]
                    okk = False
                    cfg2 = cfg_of(fi)
                    v2 = cfg2.view()
                    vals = {}
                    for a in srcs:
                        n = rules.node_of_stmt(cfg2, a)
                        ts = dict(rules.controlling_tests(v2, n))
                        if "self.is_ascii" in ts:
                            vals[ts["self.is_ascii"]] = norm(a.value)
                    okk = vals == {"T": "True", "F": "False"} or (u is not None and norm(u) == "self.is_ascii")
                    chk.ob("R02.5d", q + "::unpack-iff-text", okk, fi.where(x),
                           "bracket access expands slices to row lists exactly for text files (%s)" % vals)
    # the whole-table fast path is only taken when all rows and all columns are requested
    rd = F["read"]
    cfg = cfg_of(rd)
    view = cfg.view()
    for n in cfg.nodes:
        for c in rules.stmts_calls(n):
            if call_name(c) == "_read_binary_slice":
                ts = dict(rules.controlling_tests(view, n))
                cond = [t for t in ts if "read_all_cols" in t and "read_all_rows" in t and " and " in t]
                okk = bool(cond) and ts[cond[0]] == "T" and ts.get("self.is_ascii") == "F"
                chk.ob("R02.5e", rd.qualname + "::fast-path-guard", okk, rd.where(n.ast),
                       "the single-fread path is taken only for binary files when all rows and all columns are requested (%s)" % ts)
                chk.ob("R02.5e", rd.qualname + "::fast-path-slice", norm(c.args[0]) == "slice(0, self.nrows, 1)", rd.where(n.ast),
                       "the fast path reads slice(0, nrows, 1) (found %s)" % norm(c.args[0]))
    defs = {norm(x.targets[0]): norm(x.value) for x in walk_no_nested(rd.node) if isinstance(x, ast.Assign)}
    chk.ob("R02.5e", rd.qualname + "::all-rows-definition", defs.get("read_all_rows", "").replace("(", "").replace(")", "") == "rows is None or rows.size == self.nrows",
           rd.where(), "read_all_rows := rows is None or rows.size == nrows (rows are distinct): found %s" % defs.get("read_all_rows"))
    chk.ob("R02.5e", rd.qualname + "::all-cols-definition", defs.get("read_all_cols", "").replace("(", "").replace(")", "") == "colnums is None or colnums.size == self.ncols",
           rd.where(), "read_all_cols := colnums is None or colnums.size == ncols: found %s" % defs.get("read_all_cols"))
    # scalar column reduction indexes the result with the merged column name
    for n in cfg.nodes:
        a = n.ast
        if n.kind == "stmt" and isinstance(a, ast.Assign) and isinstance(a.value, ast.Subscript) and norm(a.value.value) == "result":
            ts = dict(rules.controlling_tests(view, n))
            chk.ob("R02.5f", rd.qualname + "::scalar-column-reduction-guard", ts.get("isscalar") == "T", rd.where(a),
                   "the result is reduced to a plain column only for a scalar column request")


# ---------------------------------------------------------------------------
def r02_6(chk, repo):
    copies = [q for q in ("esutil.sfile.split_fields", "esutil.recfile.Util.split_fields", "esutil.numpy_util.split_fields") if repo.has(q)]
    chk.ob("R02.6a", "split_fields::copies-found", len(copies) == 3, "esutil", "three copies of split_fields: %s" % copies)
    for q in copies:
        fi = repo.func(q)
        chk.analysed_unit(q)
        check_split_fields(chk, fi, "R02.6a")
    # total helpers
    for q in ("esutil.sfile.reduce_array", "esutil.sfile.split_fields", "esutil.recfile.Util.split_fields"):
        fi = repo.func(q)
        chk.analysed_unit(q)
        cfg = cfg_of(fi)
        off = rules.falls_off_end(cfg)
        chk.ob("R02.6b", q + "::total", not off, fi.where(off[0].ast) if off and off[0].ast is not None else fi.where(),
               "every path through %s returns a value%s" % (fi.name, "" if not off else
                                                          ": falling off the end after `%s` returns None (e.g. reduce=True on a table with several columns)" % off[0].text()[:60]))
    ra = repo.func("esutil.sfile.reduce_array")
    # reduce: single-field structured array -> that field; anything else -> input unchanged
    rets = [norm(x.value) for x in walk_no_nested(ra.node) if isinstance(x, ast.Return) and x.value is not None]
    chk.ob("R02.6c", ra.qualname + "::returns", set(rets) <= {"data[data.dtype.names[0]]", "data"} and "data" in rets and len(rets) >= 2,
           ra.where(), "reduce_array returns the single field or the input itself (returns: %s)" % rets)
    sr = repo.func("esutil.sfile.SFile.read")
    cfg = cfg_of(sr)
    view = cfg.view()
    for n in cfg.nodes:
        for c in rules.stmts_calls(n):
            if call_name(c) in ("split_fields", "reduce_array"):
                ts = dict(rules.controlling_tests(view, n))
                want = {"split_fields": ("split", "T"), "reduce_array": ("reduce", "T")}[call_name(c)]
                chk.ob("R02.6d", sr.qualname + "::" + call_name(c), ts.get(want[0]) == want[1] and norm(c.args[0]) == "result" and
                       isinstance(n.ast, ast.Assign) and norm(n.ast.targets[0]) == "result", sr.where(n.ast),
                       "%s(result) replaces the result exactly under %s=True" % (call_name(c), want[0]))
    # header=True returns a copy of the stored header
    for n in rules.return_nodes(cfg):
        if isinstance(n.ast.value, ast.Tuple):
            second = n.ast.value.elts[1]
            chk.ob("R02.6e", sr.qualname + "::header-copy", isinstance(second, ast.Call) and call_name(second) in ("deepcopy", "copy"),
                   sr.where(n.ast), "read(header=True) returns a copy of the header")


def check_split_fields(chk, fi, rule):
    """structural spec of a split_fields copy (also used by C07)"""
    fn = fi.node
    loops = [x for x in walk_no_nested(fn) if isinstance(x, ast.For)]
    ok = False
    lst = None
    for lp in loops:
        if norm(lp.iter) == "fields":
            v = norm(lp.target)
            for b in lp.body:
                if isinstance(b, ast.Expr) and isinstance(b.value, ast.Call) and call_name(b.value) == "append" \
                        and b.value.args and norm(b.value.args[0]) == "data[%s]" % v:
                    # the append is unconditional within the loop body
                    ok = True
                    lst = norm(b.value.func.value)
            # nothing in the loop skips an element silently
            for x in ast.walk(lp):
                if isinstance(x, (ast.Continue, ast.Break)):
                    ok = False
    chk.ob(rule, fi.qualname + "::one-view-per-field-in-order", ok, fi.where(),
           "one `data[field]` view is appended per requested field, in request order, none skipped")
    rets = [x for x in walk_no_nested(fn) if isinstance(x, ast.Return) and x.value is not None]
    vals = set()
    env = {norm(x.targets[0]): norm(x.value) for x in walk_no_nested(fn) if isinstance(x, ast.Assign)}
    for r in rets:
        e = r.value.elts[0] if isinstance(r.value, ast.Tuple) and len(r.value.elts) == 2 and norm(r.value.elts[1]) == "fields" else r.value
        t = norm(e)
        vals.add(env.get(t, t))
    chk.ob(rule, fi.qualname + "::returns-tuple-of-views", lst is not None and vals <= {"tuple(%s)" % lst, "(data,)"} and ("tuple(%s)" % lst) in vals,
           fi.where(), "returns tuple(<the list of views>) (returns: %s)" % sorted(vals))
    # default: all fields of the dtype
    dflt = [x for x in walk_no_nested(fn) if isinstance(x, ast.Assign) and norm(x.targets[0]) == "fields"]
    okd = any(env.get(norm(x.value), norm(x.value)) in ("data.dtype.fields", "data.dtype.names") for x in dflt)
    chk.ob(rule, fi.qualname + "::default-all-fields", okd, fi.where(), "fields=None selects every field of the dtype in dtype order")
    # missing field raises
    cfg = cfg_of(fi)
    okr = any("not in" in t and lab == "T" for n in rules.raise_nodes(cfg) for t, lab in rules.controlling_tests(cfg.view(), n))
    chk.ob(rule, fi.qualname + "::missing-field-raises", okr, fi.where(), "a requested field that does not exist raises")


# ---------------------------------------------------------------------------
def r02_7(chk, cfun):
    """cursor pairing in the C++ skip/read loops"""
    for fname, colskip, coltest in (("Records::read_text_columns", "skip_ascii_col_range", "mNfields"),
                                    ("Records::read_binary_columns", "do_seek", "mRowSize")):
        fn = cfun.get(fname)
        if fn is None:
            raise AnalysisError("C++ anchor %s missing" % fname)
        chk.analysed_unit(fname)
        body = cfront.body_of(fn)
        fors = [x for x in cfront.walk(body) if x.get("kind") == "ForStmt"]
        chk.ob("R02.7", fname + "::two-nested-loops", len(fors) == 2, "esutil/recfile/records.cpp", "row loop and column loop found (%d for-loops)" % len(fors))
        if len(fors) != 2:
            continue
        rowloop, colloop = fors[0], fors[1]
        rbody = rowloop["inner"][-1]
        cbody = colloop["inner"][-1]
        # goto_offset dominates the row loop
        ccfg = cfront.CCFG(fn)
        view = ccfg.view()
        gos = [n for n in ccfg.nodes for c in cfront.node_calls(n) if cfront.callee_name(c) == "goto_offset"]
        loops = [n for n in ccfg.nodes if n.kind == "loop"]
        chk.ob("R02.7a", fname + "::starts-at-data-offset", bool(gos) and all(view.dominates(gos[0], l) for l in loops),
               "esutil/recfile/records.cpp", "goto_offset() dominates the read loops (reads always start at the data offset)")
        # row skip: `if (row2read > current_row) { skip_rows(current_row,row2read); current_row=row2read; }`
        ok_rowskip = False
        for st in cfront.walk(rbody):
            if st.get("kind") == "IfStmt":
                cond = cfront.render(st["inner"][0])
                then = st["inner"][1]
                calls = [cfront.render(c) for c in cfront.calls_in(then)]
                asg = [cfront.render(x) for x in cfront.walk(then) if x.get("kind") == "BinaryOperator" and x.get("opcode") == "="]
                if cond == "(row2read > current_row)":
                    ok_rowskip = "skip_rows(current_row, row2read)" in calls and "(current_row = row2read)" in asg
        chk.ob("R02.7b", fname + "::row-skip-paired", ok_rowskip, "esutil/recfile/records.cpp",
               "rows are skipped only when the wanted row is ahead of the cursor, by skip_rows(current_row,row2read) paired with current_row=row2read")
        # row cursor advanced exactly once per iteration, at top level of the row loop body
        top = rbody.get("inner", []) or []
        inc = [s for s in top if cfront.render(s) in ("current_row++", "++current_row", "(current_row += 1)")]
        chk.ob("R02.7c", fname + "::row-cursor-advances-once", len(inc) == 1, "esutil/recfile/records.cpp",
               "current_row is advanced exactly once per row read (found %d unconditional increments)" % len(inc))
        # column cursor reset per row and advanced once per column
        reset = [s for s in top if cfront.render(s) == "(current_col = 0)"]
        ctop = cbody.get("inner", []) or []
        cinc = [s for s in ctop if cfront.render(s) in ("current_col++", "++current_col")]
        chk.ob("R02.7d", fname + "::col-cursor-reset-and-advance", len(reset) == 1 and len(cinc) == 1, "esutil/recfile/records.cpp",
               "current_col is reset per row and advanced once per column read")
        # column skip pairing
        ok_colskip = False
        for st in ctop:
            if st.get("kind") == "IfStmt" and cfront.render(st["inner"][0]) == "(col2read > current_col)":
                then = st["inner"][1]
                calls = [cfront.callee_name(c) for c in cfront.calls_in(then)]
                asg = [cfront.render(x) for x in cfront.walk(then) if x.get("kind") in ("BinaryOperator", "CompoundAssignOperator")
                       and x.get("opcode") in ("=", "+=")]
                if colskip == "skip_ascii_col_range":
                    ok_colskip = any(cfront.render(c) == "skip_ascii_col_range(current_col, col2read)" for c in cfront.calls_in(then)) \
                        and "(current_col = col2read)" in asg
                else:
                    ok_colskip = "do_seek" in calls and "(current_col = col2read)" in asg and "(current_offset += seek_distance)" in asg \
                        and "(seek_distance = (mOffsets[col2read] - current_offset))" in asg
        chk.ob("R02.7e", fname + "::col-skip-paired", ok_colskip, "esutil/recfile/records.cpp",
               "columns are skipped only when the wanted column is ahead, with the cursor (and byte offset) updated to match")
        # the read of the wanted column and pointer advance by that column's size
        reads = [cfront.render(c) for c in cfront.calls_in(cbody) if cfront.callee_name(c) in ("read_from_text_column", "read_from_binary_column")]
        ptr = [cfront.render(x) for x in cfront.walk(cbody) if x.get("kind") == "CompoundAssignOperator" and cfront.render(x["inner"][0]) == "ptr"]
        okr = len(reads) == 1 and reads[0].endswith("(col2read, ptr)") and ptr in (["(ptr += mSizes[col2read])"], ["(ptr += colsize)"])
        chk.ob("R02.7f", fname + "::read-wanted-column-into-buffer", okr, "esutil/recfile/records.cpp",
               "each wanted column is read into the output pointer, which then advances by that column's size (%s; %s)" % (reads, ptr))
        # remainder of the row is skipped
        ok_rest = False
        for st in top:
            if st.get("kind") == "IfStmt":
                cond = cfront.render(st["inner"][0])
                calls = [cfront.render(c) for c in cfront.calls_in(st["inner"][1])]
                if colskip == "skip_ascii_col_range" and cond == "(current_col < mNfields)":
                    ok_rest = "skip_ascii_col_range(current_col, mNfields)" in calls
                if colskip == "do_seek" and cond == "(current_offset < mRowSize)":
                    asg = [cfront.render(x) for x in cfront.walk(st["inner"][1]) if x.get("kind") == "BinaryOperator" and x.get("opcode") == "="]
                    ok_rest = "(seek_distance = (mRowSize - current_offset))" in asg and "do_seek(seek_distance)" in calls
        chk.ob("R02.7g", fname + "::rest-of-row-skipped", ok_rest, "esutil/recfile/records.cpp",
               "after the last wanted column the rest of the row is skipped so the file cursor is at the next row")
        # row number comes from the rows array at the loop index (or the index itself when reading all rows)
        src = [cfront.render(x) for x in cfront.walk(rbody) if x.get("kind") == "BinaryOperator" and x.get("opcode") == "="
               and cfront.render(x["inner"][0]) == "row2read"]
        okk = "(row2read = irow)" in src and any("rows" in s and "irow" in s for s in src if s != "(row2read = irow)")
        chk.ob("R02.7h", fname + "::row-number-source", okk, "esutil/recfile/records.cpp",
               "the row to read is rows[irow] (or irow when all rows are read): %s" % src)
    # slice reader: skip to row1, then read nrows2read rows stepping by `step`
    fn = cfun["Records::read_binary_slice"]
    chk.analysed_unit("Records::read_binary_slice")
    body = cfront.body_of(fn)
    calls = [cfront.render(c) for c in cfront.calls_in(body)]
    chk.ob("R02.7i", "Records::read_binary_slice::skip-to-first-row", "skip_binary_rows(row1)" in calls, "esutil/recfile/records.cpp",
           "the slice reader skips row1 rows from the data offset")
    chk.ob("R02.7i", "Records::read_binary_slice::stride", "skip_binary_rows((step - 1))" in calls, "esutil/recfile/records.cpp",
           "between strided rows step-1 rows are skipped")
    freads = [c for c in cfront.calls_in(body) if cfront.callee_name(c) == "fread"]
    okf = len(freads) == 2 and all(cfront.render(cfront.call_args(c)[1]) == "mRowSize" for c in freads)
    chk.ob("R02.7i", "Records::read_binary_slice::row-sized-reads", okf, "esutil/recfile/records.cpp",
           "rows are read in units of the row size (%s)" % [cfront.render(c) for c in freads])
    ccfg = cfront.CCFG(fn)
    view = ccfg.view()
    gos = [n for n in ccfg.nodes for c in cfront.node_calls(n) if cfront.callee_name(c) == "goto_offset"]
    frn = [n for n in ccfg.nodes for c in cfront.node_calls(n) if cfront.callee_name(c) in ("fread", "skip_binary_rows")]
    chk.ob("R02.7a", "Records::read_binary_slice::starts-at-data-offset", bool(gos) and all(view.dominates(gos[0], n) for n in frn),
           "esutil/recfile/records.cpp", "goto_offset() dominates every read/skip of the slice reader")
    sk = cfun["Records::skip_binary_rows"]
    okk = any(cfront.render(c).replace(" ", "") in ("myfseeko(mFptr,(mRowSize*nskip),1)", "myfseeko(mFptr,(nskip*mRowSize),1)") for c in cfront.calls_in(sk))
    chk.ob("R02.7j", "Records::skip_binary_rows::distance", okk, "esutil/recfile/records.cpp",
           "skipping n binary rows seeks n*rowsize bytes forward from the current position")
    sr = cfun["Records::skip_rows"]
    args_ok = all(cfront.render(x["inner"][1]) == "(row2read - current_row)" for x in cfront.walk(cfront.body_of(sr))
                  if x.get("kind") == "BinaryOperator" and x.get("opcode") == "=" and cfront.render(x["inner"][0]) == "rows2skip")
    chk.ob("R02.7j", "Records::skip_rows::distance", args_ok, "esutil/recfile/records.cpp", "skip_rows skips row2read-current_row rows")
    st = cfun["Records::skip_text_rows"]
    txt = [cfront.render(x) for x in cfront.walk(cfront.body_of(st)) if x.get("kind") in ("BinaryOperator",) and x.get("opcode") in ("<", "==")]
    chk.ob("R02.7j", "Records::skip_text_rows::counts-newlines", "(nlines < nskip)" in txt and any("'\\n'" in t for t in txt), "esutil/recfile/records.cpp",
           "skipping text rows counts newline characters until nskip lines passed (%s)" % txt)
