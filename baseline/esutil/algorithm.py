"""
Module:
    algorithm
Functions:

    Sorting algorithms:
        These were implemented because the numerical python sort() method
        doesn't work as expected for memory mapped arrays.  It reads the entire
        array into memory to do the sort.

        quicksort(data):
            Run quick sort on an array or list, or something similar with a []
            operator.  Taken from
            http://hetland.org/coding/python/quicksort.html

        quicksort_keyvalue(keys,values):
            Run quick sort on key value pairs, which should be in lists, arrays
            or something similar with a [] operator.  The sorting is performed
            on the keys. Based on
            http://hetland.org/coding/python/quicksort.html
"""


def isplit(num, nchunks):
    """
    Get indices to split a sequence into a number of chunks.  This algorithm
    produces nearly equal chunks when the data cannot be equally split.

    Based on the algorithm for splitting arrays in numpy.array_split

    Parameters
    ----------
    num: int
        Number of elements to be split into chunks
    nchunks: int
        Number of chunks

    Returns
    -------
    subs: array
        Array with fields 'start' and 'end for each chunks, so a chunk can
        be gotten with

        subs = isplit(arr.size, nchunks)
        for i in range(nchunks):
            achunk = array[subs['start'][i]:subs['end'][i]]

    """
    import numpy as np

    nchunks = int(nchunks)

    if nchunks <= 0:
        raise ValueError(f'got nchunks={nchunks} < 0')

    neach_section, extras = divmod(num, nchunks)

    section_sizes = (
        [0] + extras * [neach_section+1]
        + (nchunks-extras) * [neach_section]
    )
    div_points = np.array(section_sizes, dtype=np.intp).cumsum()

    subs = np.zeros(nchunks, dtype=[('start', 'i8'), ('end', 'i8')])

    for i in range(nchunks):
        subs['start'][i] = div_points[i]
        subs['end'][i] = div_points[i + 1]

    return subs


def quicksort(data):
    """
    Name:
        quicksort
    Purpose:
        Run a quicksort on the input data
    Calling Sequence:
        quicksort(data)

    Inputs:
        data: Should support the [] operator for getting and setting values.
    Notes:
        Taken from: http://hetland.org/coding/python/quicksort.html
        See also the quicksort_keyvalue function.
    """

    start = 0
    end = len(data)-1
    _quicksort(data, start, end)


def _quicksort(data, start, end):
    if start < end:  # If there are two or more elements...
        split = partition(data, start, end)  # ... partition the subdata...
        _quicksort(data, start, split-1)  # ... and sort both halves.
        _quicksort(data, split+1, end)
    else:
        return


def partition(data, start, end):
    pivot = data[end]   # Partition around the last value
    bottom = start-1    # Start outside the area to be partitioned
    top = end           # Ditto

    done = 0
    while not done:  # Until all elements are partitioned...

        while not done:  # Until we find an out of place element...
            bottom = bottom+1  # ... move the bottom up.

            if bottom == top:  # If we hit the top...
                done = 1  # ... we are done.
                break

            if data[bottom] > pivot:  # Is the bottom out of place?
                data[top] = data[bottom]  # Then put it at the top...
                break                 # ... and start searching from the top.

        while not done:          # Until we find an out of place element...
            top = top-1          # ... move the top down.

            if top == bottom:    # If we hit the bottom...
                done = 1         # ... we are done.
                break

            if data[top] < pivot:     # Is the top out of place?
                data[bottom] = data[top]  # Then put it at the bottom...
                break                # ...and start searching from the bottom.

    data[top] = pivot                # Put the pivot in its place.
    return top                       # Return the split point


def quicksort_keyvalue(keys, data):
    """
    Name:
        quicksort_keyvalue
    Purpose:
        Run a quicksort on the input key-value pairs.  The sort
        is performed based on the keys.
    Calling Sequence:
        quicksort_keyvalue(keys, values)

    Inputs:
        keys: Should support the [] operator for getting and setting values.
        values: Should support the [] operator for getting and setting values.
    Notes:
        Based on: http://hetland.org/coding/python/quicksort.html
        See also the quicksort function.
    """

    start = 0
    end = len(data)-1
    _quicksort_keyvalue(keys, data, start, end)


def partition_keyvalue(keys, data, start, end):
    pivot = keys[end]        # Partition around the last value
    pivot_data = data[end]

    bottom = start-1         # Start outside the area to be partitioned
    top = end                # Ditto

    done = 0
    while not done:             # Until all elements are partitioned...

        while not done:         # Until we find an out of place element...
            bottom = bottom+1   # ... move the bottom up.

            if bottom == top:   # If we hit the top...
                done = 1        # ... we are done.
                break

            if keys[bottom] > pivot:      # Is the bottom out of place?
                keys[top] = keys[bottom]
                data[top] = data[bottom]  # Then put it at the top...
                break                 # ... and start searching from the top.

        while not done:           # Until we find an out of place element...
            top = top-1                   # ... move the top down.

            if top == bottom:             # If we hit the bottom...
                done = 1                  # ... we are done.
                break

            if keys[top] < pivot:         # Is the top out of place?
                keys[bottom] = keys[top]  # Then put it at the bottom...
                data[bottom] = data[top]  # Then put it at the bottom...
                break                # ...and start searching from the bottom.

    keys[top] = pivot                     # Put the pivot in its place.
    data[top] = pivot_data                # Put the pivot in its place.
    return top                            # Return the split point


def _quicksort_keyvalue(keys, data, start, end):
    if start < end:   # If there are two or more elements...
        # ... partition the subdata...
        split = partition_keyvalue(keys, data, start, end)
        # ... and sort both halves.
        _quicksort_keyvalue(keys, data, start, split-1)
        _quicksort_keyvalue(keys, data, split+1, end)
    else:
        return
