"""
Name:
    sqlite_util

Purpose:
    Some utilities to use sqlite databases with numpy

Classes:
    SqliteConnection, a numpy aware sqlite class, with other nice
    features added
"""
from __future__ import print_function

import numpy
import sqlite3
import os
import tempfile
from tempfile import NamedTemporaryFile
# import sys
from sys import stdout
from . import ostools
from . import recfile


# sqlite only has integer and real types.  Because we don't
# know the true size of each field we'll have to read them
# as 8-byte
_np2sqlite = {}
_np2sqlite['i1'] = 'integer'
_np2sqlite['int8'] = 'integer'
_np2sqlite['u1'] = 'integer'
_np2sqlite['uint8'] = 'integer'

_np2sqlite['i2'] = 'integer'
_np2sqlite['int16'] = 'integer'
_np2sqlite['u2'] = 'integer'
_np2sqlite['uint16'] = 'integer'

_np2sqlite['i4'] = 'integer'
_np2sqlite['int32'] = 'integer'
_np2sqlite['u4'] = 'integer'
_np2sqlite['uint32'] = 'integer'

_np2sqlite['i8'] = 'integer'
_np2sqlite['int64'] = 'integer'
# possible loss of information
_np2sqlite['u8'] = 'integer'
_np2sqlite['uint64'] = 'integer'

_np2sqlite['f4'] = 'real'
_np2sqlite['float32'] = 'real'
_np2sqlite['f8'] = 'real'
_np2sqlite['float64'] = 'real'


class SqliteConnection(sqlite3.Connection):
    """
    Class:
        SqliteConnection
    Purpose:
        Inherits from the sqlite3.Connection class and adds
        new functionality, including support numpy arrays.

    Useful Methods:
        See each method's documentation for more details.

            execute:
                Execute a query and return the cursor. Alternatively if
                the keyword asarray=True return the result as a numpy
                array with fields corresponding to the columns (recarray).

            array2table:
                Stuff a numpy array with fields (recarray) into a table,
                creating it if necessary.  The column names will match
                those in the array.  Requires the sqlite3 command
                line tool.

            table_exists:
                Check if the table exists.

            describe:
                Print a visually appealing description of a database,
                index, table, etc.

            info:
                Get info about objects in the database, e.g. tables,
                indexes.

            table_info:
                Get info about a table.

            drop:
                Drop an object from the database.

            add_index:
                Add an index to a table.

    Instantiation:

        sc = SqliteConnection(dbfile, tmpdir=, verbose=False, **kw)
        where **kw are sent to the sqlite connection

        Inputs:
            tmpdir: Where to place the temporary files when importing
                data.  Default is wherever the tempfile module chooses.
            verbose:
                print information about queries and processing.

    Examples:

        >>> sc = SqliteConnection('some file')

        # put a recarray into a table
        >>> print(arr.dtype)
        [('id', '<i8'), ('ra', '<f8'), ('dec', '<f8'),
         ('name', '|S25'), ('rmag', '<f4'), ('somestring', '|S10')]
        >>> sc.array2table(arr, 'test')

        # describe the table "test"
        >>> sc.describe('table','test')
        column                     type
        --------------------------------
        id                      integer
        ra                         real
        dec                        real
        name                       text
        rmag                       real
        somestring                 text

        # read some data
        >>> sc.execute('select id,ra,dec from test where ra > 100',
                       asarray=True)

        array([(0, 234.22054479562661, 51.847377397263408),
               (1, 191.35238390475229, 74.59074110561744),
               (2, 204.31881737647379, -79.021416563580445),
               (5, 273.42461342683248, -84.026182045433345)],
              dtype=[('id', '<i8'), ('ra', '<f8'), ('dec', '<f8')])
    """

    def __init__(self, dbfile, verbose=False, tmpdir=None, **keys):

        dbfile = os.path.expandvars(dbfile)
        dbfile = os.path.expanduser(dbfile)

        self.dbfile = dbfile
        self.verbose = verbose
        self.tmpdir = tmpdir

        sqlite3.Connection.__init__(self, dbfile, **keys)

        self.row_factory = sqlite3.Row

    def describe_table(self, name):
        """
        Print a visually appealing description of the database table.

        Parameters
        ----------
        name: str
            table name
        """

        self.describe(type='table', name=name)

    def describe(self, type=None, name=None):
        """
        Name:
            describe

        Purpose:
            Print a visually appealing description of the database or an
            object in the database, such as a table or index.  This just
            calls the .info or .table_info method and prints the results.

        Calling Sequence:
            describe(type=None, name=None)

        Inputs/Keywords:
            type: e.g. 'table','index'.  If None then all objects are
                described
            name: The name of an object.  If None, all objects of the
                specified type are described.

        """

        if type == 'table' and name is not None:
            # tables we print in a particular way
            info = self.table_info(name)

            stdout.write('%-15s %15s\n' % ('column', 'type'))
            stdout.write('-'*32+'\n')
            for row in info:
                stdout.write('%-15s %15s\n' % (row['name'], row['type']))

        else:
            # info for all objects of this type
            infolist = self.info(type, name)

            head = "%-10s %25s %15s %s" % ('type', 'name', 'tbl_name', 'sql')
            stdout.write(head)
            stdout.write("\n" + "-"*len(head)+"\n")

            for info in infolist:
                tup = (
                    info['type'],
                    info['name'],
                    info['tbl_name'],
                    info['sql'],
                )
                stdout.write("%-10s %25s %15s %s\n" % tup)

    def info(self, type=None, name=None):
        """
        Name:
            info

        Purpose:
            Query the sqlite_master table. This table holds info about
            objects in the database, such as tables and indexes. By
            default return all entries. If type is not None, return only
            entries of that type, e.g. 'table' or 'index'

        Each rows contains:
            type: e.g. 'table' or 'index'
            name: name of object
            tbl_name: name of associated table
            rootpage: ?
            sql:  sql query used to create object.

        """

        query = "select * from sqlite_master"

        clauses = []
        if type is not None:
            clauses.append("type = '%s'" % type)

        if name is not None:
            clauses.append("name = '%s'" % name)

        if len(clauses) > 0:
            clauses = ' and '.join(clauses)
            query += " where "+clauses
        if self.verbose:
            stdout.write(query+'\n')

        curs = self.cursor()
        res = curs.execute(query).fetchall()
        curs.close()
        return res

    def table_info(self, tablename=None, columns=None):
        """
        Name:
            table_info

        Calling Sequence:
            sc = SqliteConnection('some file')
            info = sc.table_info(tablename=None, columns=None)

        Inputs:
            tablename: Name of a table to query.  If None, get
                info for all tables.

            columns:
                if sent, a subset of columns will be returned.

        Output:
            if tablename is sent each row returned has fields:
                    cid: column id number
                    name: name of column
                    type: declared type.
                    notnull: If 1 can not be Null.
                    dflt_value: default value for column
                    pk: Do not know.

            if tablename is not sent:
                Retreive info about all tables from the sqlite_master table.
                Each rows contains:
                    type: This will always be 'table'
                    name: name of object
                    tbl_name: name of associated table
                    rootpage: ?
                    sql:  sql query used to create object.
        """

        curs = self.cursor()
        if tablename is not None:
            query = "pragma table_info(%s)" % tablename
        else:
            query = "select * from sqlite_master where type='table'"

        if self.verbose:
            stdout.write(query+'\n')

        res = curs.execute(query).fetchall()
        curs.close()

        if tablename is not None and columns is not None:
            # extract a subset of columns
            newres = []
            for info in res:
                if info['name'] in columns:
                    newres.append(info)
            return newres
        else:
            return res

    def table_exists(self, tablename):
        """
        Name:
            table_exists

        Calling Sequence:
            sc=SqliteConnection('some file')
            if sc.table_exists('tablename'):
                ... do something ...
        """
        query = """
            select
                name
            from
                sqlite_master
            where
                type='table' and name = '%s'\n""" % tablename

        if self.verbose:
            stdout.write(query)

        curs = self.cursor()
        res = curs.execute(query).fetchall()
        curs.close()
        if len(res) == 0:
            return False
        else:
            return True

    def execute(self, query, asarray=False, dtype=None):
        """
        Name:
            execute
        Purpose:
            Execute the input query and return the cursor object.
        Calling Sequence:
            sc = SqliteConnection('filename')
            curs = sc.execute('some query')
            OR
            arr = sc.execute('some query', asarray=True, dtype=None)

        Inputs:
            query:
                A query string
            asarray=False:

                If asarray=True then the result is converted to an
                array. The data type is determined from the returned
                data. Because the sqlite3 python module does not return
                declared column types, we are stuck with 'i8' 'f8' and
                string types.

                Note the length of the string column is determined from
                the *first* row, so you may end up with truncated data
                if the columns are variable length. TODO: allow getting
                the max size of string columns by looking at all the
                rows.

            dtype=None:
                Explicitly send the data type for each row.  This can
                save considerable memory if certain number columns are
                not 8-byte.  Also, string fields can be declared large
                enough to accomodate variable length columns.

        """

        if not asarray:
            curs = self.cursor()
            curs.execute(query)
            return curs

        # when row factory is Row, the proper iteration is not supported
        # for use with fromiter.  Temporarily turn it off.
        row_factory_old = self.row_factory
        self.row_factory = None
        curs = self.cursor()
        curs.execute(query)

        if dtype is None:
            # we have to get the data first in order to determine the
            # data types
            rows = curs.fetchall()
            if len(rows) == 0:
                return numpy.array([], dtype='i4')

            dtype = self._extract_row_dtype(curs.description, rows)
            res = numpy.array(rows, dtype=dtype)
        else:
            # this is cheaper
            res = numpy.fromiter(curs, dtype=dtype)

        curs.close()
        self.row_factory = row_factory_old
        return res

    def _extract_row_dtype(self, description, rows):
        """
        This method may change signature and return value type
        in the future, don't call it directly
        """

        row = rows[0]

        dt = []
        for i, val in enumerate(row):
            name = description[i][0].lower()
            if val is None:
                raise ValueError("Cannot work with None/Null types "
                                 "when converting to recarray")
            if isinstance(val, int):
                typecode = 'i8'
            elif isinstance(val, float):
                typecode = 'f8'
            elif isinstance(val, str):
                typecode = 'S%i' % len(val)
            else:
                print("Got type:", type(val))
                raise ValueError("Only support int/long, float, str/unicode")

            dt.append((name, typecode))
        return dt

    def drop(self, type, name):
        """
        Name:
            drop
        Calling Sequence:
            sc=SqliteConnection('some file')
            sc.drop(type, name)
        Purpose:
            Drop an object from the database.
        Inputs:
            type: The object type, e.g. table or index.
            name: The name of the object.
        """
        query = "drop %s %s" % (type, name)
        if self.verbose:
            stdout.write("%s\n" % query)
        curs = self.cursor()
        curs.execute(query)

    def add_index(self, tablename, columns):
        """
        Name:
            add_index
        Calling Sequence:
            sc = SqliteConnection('some file')
            sc.add_index(tablename, columns)
        Inputs:
            tablename:
                The name of the table where the index will be built.
            columns:
                The columns to use on the index. Can be a string or a
                list of strings for a multi-column index.
        """

        if not isinstance(columns, (list, tuple)):
            columns = [columns]

        curs = self.cursor()

        index_name = '_'.join(columns) + '_index'
        column_list = ','.join(columns)

        query = ("create index if not exists "
                 "%s on %s (%s)""" % (index_name, tablename, column_list))

        if self.verbose:
            stdout.write("Adding index: \n")
            stdout.write(query+'\n')

        curs.execute(query)

    def array2table(self, arr, tablename, create=False, cleanup=True):
        """
        Name:
            array2table
        Purpose:
            Stuff a recarray into an sqlite3 table Requires the sqlite3
            command line tool.

        Calling Sequence:
            sc = SqliteConnection('somefile')
            sc.array2table(arr, tablename, create=False,
                           cleanup=True)

        Inputs:
            arr: An array with fields. AKA recarray.
            tablename: The name for a table.  It is created
                if it doesn't exist.
        Keywords:
            create:
                If True, drop any existing table with the same name.
                Otherwise, attempt to append.
            cleanup:
                If not True, leave the temporary file for debugging

        """

        self._create_tabledef_from_array(arr, tablename, force=create)

        with NamedTemporaryFile(dir=self.tmpdir,
                                suffix='.csv',
                                delete=cleanup) as tmpf:

            self.write_import_file(tmpf.name, arr)
            self.import_file(tmpf.name, tablename)

    def _create_tabledef_from_array(self, arr, tablename, force=False):
        """
        Create the table definition from the array descriptor.
        If force=True we will drop any existing table with this name
        """
        exists = self.table_exists(tablename)
        if exists:
            if force:
                self.drop('table', tablename)
            else:
                # we'll assume the table has the right definition for
                # this array, for now
                return

        tabledef = descr2tabledef(arr.dtype.descr, tablename)
        curs = self.cursor()
        if self.verbose:
            stdout.write(tabledef)
        curs.execute(tabledef)
        curs.close()

    def import_file(self, filename, tablename):
        command = r"""
            sqlite3 -separator '|' %s ".import %s %s"
        """ % (self.dbfile, filename, tablename)

        status, stdo, stde = \
            ostools.exec_process(command, verbose=self.verbose)

        if status != 0:
            mess = """
            Error occurred:
                exit_status: %s
                stdout: %s
                stderr: %s
            """ % (status, stdo, stde)
            raise RuntimeError(mess)

    def write_import_file(self, fname, data):

        if self.verbose:
            stdout.write("Writing to temporary file: %s\n" % fname)

        with recfile.Recfile(fname, mode='w', delim='|', padnull=True) as rec:
            rec.write(data)

    def fromarray(self, arr, tablename, create=False, cleanup=True):
        """
        Deprecated. Use array2table
        """
        return self.array2table(arr, tablename,
                                create=create,
                                cleanup=cleanup)


def descr2tabledef(descr, tablename):
    """
    Convert a numpy type descriptor to a create table statement. Numpy
    type descriptors have the following form
        [(name1, type1), (name2,type2),...]

    Where names are strings and types are strings such as '<f4' or '|S20'.
    See numpy2sqlite() for how these type strings are converted to column
    type definitions.

    These can be retrieved from a recarray, or numpy array with fields, via
        arr.dtype.descr
    """

    coldefs = descr2coldefs(descr)

    coldefs = ",\n        ".join(coldefs)

    tabledef = """
    create table %s (
        %s
    )
    \n""" % (tablename, coldefs)

    return tabledef


def descr2coldefs(descr):
    """
    Convert a numpy type descriptor to a set of column definitions.  Numpy
    type descriptors have the following form
        [(name1, type1), (name2,type2),...]

    Where names are strings and types are strings such as '<f4' or '|S20'.
    See numpy2sqlite() for how these type strings are converted to column
    type definitions.

    The descr can be retrieved from a recarray, or numpy array with fields, via
        arr.dtype.descr
    """

    coldefs = []
    for d in descr:
        if len(d) > 2:
            mess = """
            Found array field: %s
            sqlite does not support array columns
            """ % str(d)
            raise ValueError(mess)
        name = d[0]
        tname = d[1]

        coltype = numpy2sqlite(tname)

        coldef = '%s %s not null' % (name, coltype)
        coldefs.append(coldef)

    return coldefs


def numpy2sqlite(typename):
    """
    Convert a numpy type to a sqlite column type.
    """

    tname = typename.strip().lower()
    tname = _remove_byteorder(tname)

    if tname[0] == 's':
        return 'text'

    if tname not in _np2sqlite:
        raise ValueError("unrecognized typename: %s" % tname)

    return _np2sqlite[tname]


def tabledef2dtype(table_info, columns=None, size=None):
    """
    Take output of table_info() and convert to a numpy descriptor.
    We can't really use this yet.

    Todo:
        variable length columns
        Implement sizes keyword
    """
    dtype = []
    for info in table_info:
        name = str(info['name'].lower())

        keepcol = True
        if columns is not None:
            if name not in columns:
                keepcol = False

        if keepcol:
            typ = sqlite2numpy(info['type'])

            if typ == 'S?':
                raise ValueError("Dont' support variable length columns yet")

            dtype.append((name, typ))

    return dtype


def _remove_byteorder(tname):
    if tname[0] == '>' or tname[0] == '<' or tname[0] == '|':
        return tname[1:]
    else:
        return tname


def sqlite2numpy(typename, size=None):
    """
    We can't use this yet....

    Convert a column type declaration from sqlite to a numpy data type.
    Determine sizes as best as possible from the declaration, or use the
    sizes= keyword to set sizes explicitly.

    We have to deal with some limitations.  Primarily:
        1) sqlite columns have no data type.
        2) numpy fields are fixed length.

    In sqlite, columns don't actually have data types.  When data are inserted
    the type is determined at run time and storage is determined based on
    the value.

    So integers are stored in a variable length encoding.  Even if a column is
    declared i4 it can store 8 bytes.  The actual storage depends on the value
    of the data.

    But if a column is declared to have specific size, we will honor this and
    assume the user knows what they are doing.  Since "integer" is how most
    people will declare all integer columns, we cannot be tempted to assign
    this 4 bytes.  Rather we will require explicit declaration of size.  We
    will honor tinyint,smallint,bigint as well but these are less clear.

    This goes for floating point too.  Internally, all floating point values
    are stored as 8 byte.  So we reqire an identifier such as f4 or f8, float
    or double.

    Note for text fields, which have no practical limit, a similar principle
    will hold.  If a field is simply declaed as "text" we must determine the
    size from the first row.  But if a size is specifically declared, we will
    honor it.  Note, character varying is treated like a text field.  Since
    n is meant to be a maximum size, this could potentially waste a lot of
    space, so we will guess from the first row.

        declared type           numpy conversion
        ----------------------------------------------------------
        text:                       S  size determined from the first result
        real:                       f8
        integer:                    i8

        f4, float32, float:         f4
        f8, float64, double:        f8

        i1, int8,  tinyint:         i1
        i2, int16, smallint:        i2
        i4, int32                   i4
        i8, int64, bigint:          i8

        char(n), character(n):      Sn
        varchar(n), character varying(n), character, char, string:
                                    S  size determined from the first result

    """
    typename = typename.strip().lower()
    if typename in ['i1', 'int8', 'tinyint']:
        return 'i1'
    elif typename in ['i2', 'int16', 'smallint']:
        return 'i2'
    elif typename in ['i4', 'int32']:
        return 'i4'
    elif typename in ['i8', 'int64', 'bigint', 'int', 'integer']:
        return 'i8'
    elif typename in ['f4', 'float32', 'float']:
        return 'f4'
    elif typename in ['f8', 'float64', 'double', 'real']:
        return 'f8'
    else:
        # if size is sent, allow it to override any size indicators
        if size is not None:
            try:
                szint = int(size)
            except ValueError:
                raise ValueError("could not convert input size "
                                 "'%s' to int" % size)
            return 'S%d' % szint

        # no size given in name.  Treat as text.
        if typename in ['char', 'character', 'text', 'string']:
            return 'S?'

        # varchar and character varying only have max limits, so we will
        # treat them like a "text" field even if they have sizes declared.
        if typename.find('varying') != -1 or typename.find('varchar') != -1:
            return 'S?'

        # Try to infer the size
        left = typename.find('(')
        if left != -1:
            right = typename.find(')')
            if right != -1:
                substr = typename[left+1:right]

                try:
                    szint = int(substr)
                except ValueError:
                    raise ValueError("could not convert size "
                                     "indicator '%s' to int in" % typename)
                return 'S%d' % szint

        # if we get here something went wrong
        raise ValueError("Unable to convert type name: '%s'" % typename)


#
# dict sqlite tools. These need to be incorporated into the
# SqliteConnection class
#

def py2sqlite(data):
    """
    Return an sqlite type name based on the type of the input data

    Can try to support numpy later
    """

    if isinstance(data, int):
        return 'integer'
    elif isinstance(data, float):
        return 'real'
    elif isinstance(data, str):
        return 'text'
    else:
        message = ('Error: python data must be one of the '
                   'following types: int, float, str')
        raise ValueError(message)


def dict2coldefs(data, types=None, keys=None):
    """
    Create a table definition based on the entries in the input dict

    Get the types from the dict unless types= is sent
    """

    if keys is None:
        keys = list(data.keys())

    coldefs = []
    i = 0
    for key in keys:
        if types is not None:
            typedef = types[i]
            i += 1
        else:
            typedef = py2sqlite(data[key])

        coldef = key+' '+typedef
        coldefs.append(coldef)

    return coldefs


def dict2tabledef(data, tablename, types=None, keys=None):
    coldefs = dict2coldefs(data, types=types, keys=keys)

    coldefs = ",\n            ".join(coldefs)
    tabledef = """
        create table %s (
            %s
        )
    \n""" % (tablename, coldefs)

    return tabledef


def dict2csv(data, filename, keys=None):
    """
    Write a sequence of dictionaries to a csv file
    """
    import csv

    data = dict_ensurelist(data)

    if keys is None:
        keys = list(data[0].keys())

    with open(filename, 'w') as fobj:
        writer = csv.DictWriter(fobj, keys)
        writer.writerows(data)


def dict_ensurelist(data):
    errormess = "Input data must be dict or sequence of dicts"
    if isinstance(data, (list, tuple)):
        if not isinstance(data[0], dict):
            raise ValueError(errormess)
    elif isinstance(data, dict):
        data = [data]
    else:
        raise ValueError(errormess)
    return data


def add_index(dbfile, tablename, columns, verbose=False):
    """
    Convenience function
    """
    conn = SqliteConnection(dbfile, isolation_level=None)
    conn.add_index(tablename, columns, verbose=verbose)
    conn.close()


def dict2table(data, dbfile, tablename,
               keys=None, types=None,
               indices=None,
               tmpdir='.', clobber=True,
               cleanup=True,
               verbose=False):
    """

    Convert a dict or list of dicts to an sqlite table, creating the table if
    needed.  If the table exists, the data are appended.
    """

    # ensure we have a list of dicts
    data = dict_ensurelist(data)

    # check paths
    dbpath = os.path.expanduser(dbfile)
    dbpath = os.path.expandvars(dbpath)

    if verbose:
        stdout.write("database file: %s\n" % dbfile)

    existing_db = False
    if os.path.exists(dbpath):
        if clobber:
            if verbose:
                stdout.write("Removing existing database file: %s\n" % dbpath)
            os.remove(dbpath)
        else:
            # it exists and we'll keep it
            if verbose:
                stdout.write("Using existing database file: %s\n" % dbpath)
            existing_db = True

    # open. This will create if new or open for updating if exists.
    conn = sqlite3.connect(dbpath, isolation_level=None)

    curs = conn.cursor()

    # see if the table exists
    existing_table = False
    if existing_db:
        q = "select name from sqlite_master where type='table' and name = ?"
        curs.execute(q, (tablename,))
        res = curs.fetchall()
        if len(res) != 0:
            # this will be a new table in an existing database
            existing_table = True

    if not existing_table:
        # Get the table definition
        tabledef = dict2tabledef(data[0], tablename, types=types, keys=keys)
        if verbose:
            stdout.write("Creating table '%s'\n" % tablename)
            stdout.write(tabledef)

        curs.execute(tabledef)
    else:
        if verbose:
            stdout.write("Appending to existing table '%s'\n" % tablename)

    conn.close()

    # write data to a temporary csv file and then import
    csvtmp = tempfile.mktemp(dir=tmpdir,
                             prefix=tablename+'-temp-',
                             suffix='.csv')

    if verbose:
        stdout.write("Writing to temporary file: %s\n" % csvtmp)

    dict2csv(data, csvtmp, keys=keys)

    #  Now execute the import statement
    if verbose:
        stdout.write("Importing data\n")
    comm = """
        sqlite3 -separator ',' %s ".import %s %s"
    """ % (dbpath, csvtmp, tablename)

    ostools.exec_process(comm, verbose=verbose)

    if cleanup:
        if verbose:
            stdout.write("Cleaning up temporary file %s\n" % csvtmp)
        os.remove(csvtmp)

    if indices is not None:
        for index in indices:
            add_index(dbpath, tablename, index, verbose=verbose)
