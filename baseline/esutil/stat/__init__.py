"""
Package:
    stat

This is a sub-package of the esutil package. The full reference is esutil.stat
See esutil.stat.util for documentation
"""
# flake8: noqa


from . import util
from .util import *
