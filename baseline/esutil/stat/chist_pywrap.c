#include <Python.h>
#include "numpy/arrayobject.h"

/*

   assume hist and rev are contiguous, which we can
   guarantee in the caller
*/

static PyObject* PyCHist_chist(PyObject* self, PyObject* args) {

    PyObject* data_pyobj=NULL;
    double datamin=0;
    PyObject* sort_pyobj=NULL;
    double binsize=0;
    PyObject* hist_pyobj=NULL;
    PyObject* rev_pyobj=NULL;

    npy_int64 *hist=NULL, *rev=NULL;

    int dorev=0;
    npy_intp nbin = 0, ndata=0, nrev=0;
    npy_int64
        i=0,
        binnum_old = 0,
        offset = 0, last_end = 0, data_index = 0, binnum=0, tbin = 0;
    double thisdata=0;

    if (!PyArg_ParseTuple(args, (char*)"OdOdOO",
                          &data_pyobj,
                          &datamin,
                          &sort_pyobj,
                          &binsize,
                          &hist_pyobj,
                          &rev_pyobj)) {
        return NULL;
    }

    if (rev_pyobj != Py_None) {
        dorev=1;
        rev = (npy_int64 *) PyArray_DATA(rev_pyobj);
        nrev = PyArray_SIZE(rev_pyobj);
    }

    ndata = PyArray_SIZE(sort_pyobj);
    nbin  = PyArray_SIZE(hist_pyobj);

    hist=(npy_int64 *) PyArray_DATA(hist_pyobj);

    // this is my reverse engineering of the IDL reverse
    // indices
    binnum_old = -1;

    // one past the last counted datum in the index area
    last_end = nbin + 1;

    for (i=0; i<ndata; i++) {

        offset = i+nbin+1;
        data_index = *(npy_int64 *) PyArray_GETPTR1(sort_pyobj, i);


        if (dorev) {
            rev[offset] = data_index;
        }

        // data might not be contiguous, so use the
        // more general getter
        thisdata = *(double *) PyArray_GETPTR1(data_pyobj, data_index);

        binnum = (npy_int64) ( (thisdata-datamin)/binsize);

        if (binnum >= 0 && binnum < nbin) {
            // Should we upate the reverse indices?
            if (dorev && (binnum > binnum_old) ) {
                tbin = binnum_old + 1;
                while (tbin <= binnum) {
                    rev[tbin] = offset;
                    tbin++;
                }
            }
            // Update the histogram
            hist[binnum] = hist[binnum] + 1;
            binnum_old = binnum;
            last_end = offset + 1;
        }
    }

    tbin = binnum_old + 1;
    while (tbin <= nbin) {
        if (dorev) {
            rev[tbin] = last_end;
        }
        tbin++;
    }

    Py_RETURN_NONE;

}

static PyMethodDef chist_methods[] = {
    {"chist",               (PyCFunction)PyCHist_chist, METH_VARARGS, "histogrammer"},
    {NULL}  /* Sentinel */
};

#if PY_MAJOR_VERSION >= 3
    static struct PyModuleDef moduledef = {
        PyModuleDef_HEAD_INIT,
        "_chist",      /* m_name */
        "Define c version of histogrammer",  /* m_doc */
        -1,                  /* m_size */
        chist_methods,    /* m_methods */
        NULL,                /* m_reload */
        NULL,                /* m_traverse */
        NULL,                /* m_clear */
        NULL,                /* m_free */
    };
#endif

#ifndef PyMODINIT_FUNC  /* declarations for DLL import/export */
#define PyMODINIT_FUNC void
#endif
PyMODINIT_FUNC
#if PY_MAJOR_VERSION >= 3
PyInit__chist(void) 
#else
init_chist(void) 
#endif
{
    PyObject* m;

#if PY_MAJOR_VERSION >= 3
    m = PyModule_Create(&moduledef);
    if (m==NULL) {
        return NULL;
    }

#else

    m = Py_InitModule3("_chist", chist_methods, "Define c version of histogrammer.");

    if (m==NULL) {
        return;
    }
#endif

    import_array();

#if PY_MAJOR_VERSION >= 3
    return m;
#endif
}
