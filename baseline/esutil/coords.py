"""
    NAME
        coords
    PURPOSE
        A set of astronomical utilities for dealing with coordinates and
        coordinate transformations.

    COORDINATE TRANSFORMATIONS
        euler:
            A generic routine for transforming between Galactic, Celestial,
            and ecliptic coords.  The following wrapper routines are also
            supplied for convenience:

        l,b = eq2gal(ra, dec, b1950=False, dtype='f8')
            Convert equatorial to glactic coordinates.

        # The following use the same interface:
        gal2eq
            Convert galactic to equatorial coordinates.
        eq2ec
            Convert equatorial to ecliptic coordinates.
        ec2eq
            Convert ecliptic to equatorial coordinates.
        ec2gal
            Convert ecliptic to galactic coordinates.
        gal2ec
            Convert galactic to ecliptic coordinates.

        # These SDSS specific functions do not use euler
        eq2sdss
            Convert between equatorial and corrected SDSS survey coords.
        sdss2eq
            Convert between corrected SDSS survey and equatorial coords.

        eq2xyz: Convert equatorial to x,y,z on the sphere according to
            the following transform:
                    x = sin(pi/2-dec)*cos(ra)
                    y = sin(pi/2-dec)*sin(ra)
                    z = cos(pi/2-dec)

        xyz2eq:
            inverse of eq2xyz

        sphdist:
            Calculate the arc length between two sets of points on the sphere.
            Currently only takes ra,dec.

        shiftlon:
            shift the input longitude.  By default wrap the coordinate to
            -180,180.  If a shift is entered, return the new value
            lon-shift such that the range is still [0,360)

        shiftra:
            shift right ascension.  This just calls shiftlon

        radec2aitoff:
            Convert ra,dec to aitoff coordinates.

        dec_parse(decstring)
            parse a colon separated string representing declination ito
            degrees.
        ra_parse(decstring)
            parse a colon separated string representing right ascension ito
            degrees.

        randsphere(numrand, system='eq', ra_range=[0,360], dec_range=[-90,90]):
            Generate random points on the sphere.  By default ra,dec are
            returned.  If system='xyz' then x,y,z are returned.

        randcap(nrand,ra,dec,rad,get_radius=False):
            Create random points in a cap, or disc, centered at the
            input ra,dec location and with radius rad.

        rect_area(lon_min, lon_max, lat_min, lat_max)
            Calculate the area of a rectangle on the sphere.


"""

import numpy as np
from numpy import (
    where,
    zeros,
    sin,
    cos,
    arccos,
    arcsin,
    arctan2,
    sqrt,
    rad2deg,
    deg2rad,
)

import math

PI = math.pi
HALFPI = PI / 2.0
D2R = PI / 180.0
R2D = 1.0 / D2R

_sdsspar = {}
_sdsspar["center_ra"] = 185.0
_sdsspar["center_dec"] = 32.5
_sdsspar["node"] = (_sdsspar["center_ra"] - 90.0) * D2R
_sdsspar["etapole"] = _sdsspar["center_dec"] * D2R
_sdsspar["etaoffset"] = 91.25

_sdsspar[
    "doc"
] = """
    A set of transformation functions for use with SDSS coordinate systems.

    eq2sdss(): Convert between equatorial and corrected SDSS survey coords.
    sdss2eq(): Convert between corrected SDSS survey and equatorial coords.

    Don't use these unless you have to, as these are the old coordinates
        eq2survey(): Convert between equatorial and uncorrected survey coords.
        survey2eq(): Convert between uncorrected survey and equatorial coords.

    Adapted from astrotools
        Erin Sheldon, NYU, 2006-03-11
    Force data type and allow selection of dtype through keyword.
        Erin Sheldon, NYU, 2007-05-23

"""


def euler(ai, bi, select, b1950=False, dtype="f8"):
    """
    NAME:
        euler
    PURPOSE:
        Transform between Galactic, celestial, and ecliptic coordinates.

    CALLING SEQUENCE:
        long_out, lat_out =
            euler(long_in, lat_in, type, b1950=False, dtype='f8')

    INPUTS:
       long_in - Input Longitude in DEGREES, scalar or vector.
       lat_in  - Input Latitude in DEGREES
       select  - Integer (1-6) specifying type of coordinate transformation.

      select   From          To        |   select      From            To
       1     RA-Dec (2000)  Galactic   |     4       Ecliptic      RA-Dec
       2     Galactic       RA-DEC     |     5       Ecliptic      Galactic
       3     RA-Dec         Ecliptic   |     6       Galactic      Ecliptic

      Celestial coordinates (RA, Dec) should be given in equinox J2000
      unless the b1950=True keyword is set.

    OUTPUTS:
       long_out - Output Longitude in DEGREES
       lat_out  - Output Latitude in DEGREES

    INPUT KEYWORD:
       b1950 - If this keyword is true then input and output
             celestial and ecliptic coordinates should be given in equinox
             B1950.
    REVISION HISTORY:
       Written W. Landsman,  February 1987
       Adapted from Fortran by Daryl Yentis NRL
       Converted to IDL V5.0   W. Landsman   September 1997
       Made J2000 the default, added /FK4 keyword  W. Landsman December 1998
       Add option to specify SELECT as a keyword W. Landsman March 2003

       Converted from IDL to numerical Python: Erin Sheldon, NYU, 2008-07-02

    """

    # Make a copy as an array. ndmin=1 to avoid messed up scalar arrays
    ai = np.array(ai, ndmin=1, copy=True, dtype=dtype)
    bi = np.array(bi, ndmin=1, copy=True, dtype=dtype)

    twopi = 2.0 * PI
    fourpi = 4.0 * PI

    #   J2000 coordinate conversions are based on the following constants
    #   (see the Hipparcos explanatory supplement).
    #  eps = 23.4392911111d           Obliquity of the ecliptic
    #  alphaG = 192.85948d            Right Ascension of Galactic North Pole
    #  deltaG = 27.12825d             Declination of Galactic North Pole
    #  lomega = 32.93192d             Galactic longitude of celestial equator
    #  alphaE = 180.02322d            Ecliptic longitude of Galactic North Pole
    #  deltaE = 29.811438523d         Ecliptic latitude of Galactic North Pole
    #  Eomega  = 6.3839743d           Galactic longitude of ecliptic equator
    # Parameters for all the different conversions
    if b1950:

        psi = np.array(
            [
                0.57595865315,
                4.9261918136,
                0.00000000000,
                0.0000000000,
                0.11129056012,
                4.7005372834,
            ],
            dtype=dtype,
        )
        stheta = np.array(
            [
                0.88781538514,
                -0.88781538514,
                0.39788119938,
                -0.39788119938,
                0.86766174755,
                -0.86766174755,
            ],
            dtype=dtype,
        )
        ctheta = np.array(
            [
                0.46019978478,
                0.46019978478,
                0.91743694670,
                0.91743694670,
                0.49715499774,
                0.49715499774,
            ],
            dtype=dtype,
        )
        phi = np.array(
            [
                4.9261918136,
                0.57595865315,
                0.0000000000,
                0.00000000000,
                4.7005372834,
                0.11129056012,
            ],
            dtype=dtype,
        )

    else:

        psi = np.array(
            [
                0.57477043300,
                4.9368292465,
                0.00000000000,
                0.0000000000,
                0.11142137093,
                4.71279419371,
            ],
            dtype=dtype,
        )
        stheta = np.array(
            [
                0.88998808748,
                -0.88998808748,
                0.39777715593,
                -0.39777715593,
                0.86766622025,
                -0.86766622025,
            ],
            dtype=dtype,
        )
        ctheta = np.array(
            [
                0.45598377618,
                0.45598377618,
                0.91748206207,
                0.91748206207,
                0.49714719172,
                0.49714719172,
            ],
            dtype=dtype,
        )
        phi = np.array(
            [
                4.9368292465,
                0.57477043300,
                0.0000000000,
                0.00000000000,
                4.71279419371,
                0.11142137093,
            ],
            dtype=dtype,
        )

    # The tabulated sines and cosines are rounded to 11 digits, so
    # stheta**2 + ctheta**2 differs from 1 by a few 1e-12.  At the pole of the
    # target system the sine of the new latitude equals that sum, which puts
    # the pole ~1e-4 degrees away from latitude 90; renormalize the pairs
    norm = np.sqrt(stheta * stheta + ctheta * ctheta)
    stheta = stheta / norm
    ctheta = ctheta / norm

    # zero offset
    i = select - 1
    a = ai * D2R - phi[i]

    b = bi * D2R
    sb = sin(b)
    cb = cos(b)
    cbsa = cb * sin(a)
    b = -stheta[i] * cbsa + ctheta[i] * sb
    np.clip(b, -1.0, 1.0, b)
    bo = arcsin(b) * R2D

    a = arctan2(ctheta[i] * cbsa + stheta[i] * sb, cb * cos(a))

    ao = ((a + psi[i] + fourpi) % twopi) * R2D

    return ao, bo


#
# Some clearer shortcut functions which call Euler
#
def eq2gal(ra, dec, b1950=False, dtype="f8"):
    """
    NAME
        eq2gal
    PURPOSE
        Convert from equatorial to galactic coordinates in units of degrees.
    CALLING SEQUENCE
        l,b = eq2gal(ra, dec, b1950=False, dtype='f8')
    INPUTS
        ra, dec: Equatorial coordinates.  May be Numpy arrays, sequences, or
            scalars as long as they are all the same length.  They must be
            convertible to a Numpy array with the specified datatype.
    KEYWORDS
        b1950:  If True, use b1950 coordiates.  By default j2000 are used.
        dtype:  The datatype of the output arrays.  Default is f8
    OUTPUTS
        l, b:  Galactic longitude and latitude.  The returned value is always
            a Numpy array with the specified dtype
    REVISION HISTORY
        Created Erin Sheldon, NYU, 2008-07-02
    """
    return euler(ra, dec, 1, b1950=b1950, dtype=dtype)


def gal2eq(gal_l, gal_b, b1950=False, dtype="f8"):
    """
    NAME
        gal2eq
    PURPOSE
        Convert from galactice to equatorial coordinates in units of degrees.
    CALLING SEQUENCE
        ra,dec = gal2eq(l, b, b1950=False, dtype='f8')
    INPUTS
        l, b: Galactic coordinates.  May be Numpy arrays, sequences, or
            scalars as long as they are all the same length.  They must be
            convertible to a Numpy array with the specified datatype.
    KEYWORDS
        b1950:  If True, use b1950 coordiates.  By default j2000 are used.
        dtype:  The datatype of the output arrays.  Default is f8
    OUTPUTS
        ra, dec:  Equatorial longitude and latitude.  The returned value is
            always a Numpy array with the specified dtype
    REVISION HISTORY
        Created Erin Sheldon, NYU, 2008-07-02
    """

    return euler(gal_l, gal_b, 2, b1950=b1950, dtype=dtype)


def eq2ec(ra, dec, b1950=False, dtype="f8"):
    """
    NAME
        eq2ec
    PURPOSE
        Convert from equatorial to ecliptic coordinates in units of degrees.
    CALLING SEQUENCE
        lam,beta = eq2ec(ra, dec, b1950=False, dtype='f8')
    INPUTS
        ra, dec: Equatorial coordinates.  May be Numpy arrays, sequences, or
            scalars as long as they are all the same length.  They must be
            convertible to a Numpy array with the specified datatype.
    KEYWORDS
        b1950:  If True, use b1950 coordiates.  By default j2000 are used.
        dtype:  The datatype of the output arrays.  Default is f8
    OUTPUTS
        lam, beta:  Ecliptic longitude and latitude.  The returned value is
            always a Numpy array with the specified dtype
    REVISION HISTORY
        Created Erin Sheldon, NYU, 2008-07-02
    """

    return euler(ra, dec, 3, b1950=b1950, dtype=dtype)


def ec2eq(lam, beta, b1950=False, dtype="f8"):
    """
    NAME
        ec2eq
    PURPOSE
        Convert from ecliptic to equatorial coordinates in units of degrees.
    CALLING SEQUENCE
        ra,dec = eq2gal(lam, beta, b1950=False, dtype='f8')
    INPUTS
        lam,beta: Ecliptic coordinates.  May be Numpy arrays, sequences, or
            scalars as long as they are all the same length.  They must be
            convertible to a Numpy array with the specified datatype.
    KEYWORDS
        b1950:  If True, use b1950 coordiates.  By default j2000 are used.
        dtype:  The datatype of the output arrays.  Default is f8
    OUTPUTS
        ra,dec:  Equatorial longitude and latitude.  The returned value is
            always a Numpy array with the specified dtype
    REVISION HISTORY
        Created Erin Sheldon, NYU, 2008-07-02
    """

    return euler(lam, beta, 4, b1950=b1950, dtype=dtype)


def ec2gal(lam, beta, b1950=False, dtype="f8"):
    """
    NAME
        ec2gal
    PURPOSE
        Convert from ecliptic to galactic coordinates in units of degrees.
    CALLING SEQUENCE
        l,b = eq2gal(lam, beta, b1950=False, dtype='f8')
    INPUTS
        lam, beta: Ecliptic coordinates.  May be Numpy arrays, sequences, or
            scalars as long as they are all the same length.  They must be
            convertible to a Numpy array with the specified datatype.
    KEYWORDS
        b1950:  If True, use b1950 coordiates.  By default j2000 are used.
        dtype:  The datatype of the output arrays.  Default is f8
    OUTPUTS
        l, b:  Galactic longitude and latitude.  The returned value is always
            a Numpy array with the specified dtype
    REVISION HISTORY
        Created Erin Sheldon, NYU, 2008-07-02
    """

    return euler(lam, beta, 5, b1950=b1950, dtype=dtype)


def gal2ec(gal_l, gal_b, b1950=False, dtype="f8"):
    """
    NAME
        gal2ec
    PURPOSE
        Convert from Galactic to Ecliptic coordinates in units of degrees.
    CALLING SEQUENCE
        lam,beta = eq2gal(l, b, b1950=False, dtype='f8')
    INPUTS
        l, b: Galactic coordinates.  May be Numpy arrays, sequences, or
            scalars as long as they are all the same length.  They must be
            convertible to a Numpy array with the specified datatype.
    KEYWORDS
        b1950:  If True, use b1950 coordiates.  By default j2000 are used.
        dtype:  The datatype of the output arrays.  Default is f8
    OUTPUTS
        lam,beta:  Ecliptic longitude and latitude.  The returned value is
            always a Numpy array with the specified dtype
    REVISION HISTORY
        Created Erin Sheldon, NYU, 2008-07-02
    """

    return euler(gal_l, gal_b, 6, b1950=b1950, dtype=dtype)


def _thetaphi2xyz(theta, phi):
    """
    theta and phi in radians relative to the SDSS node at ra=95 degrees
    """
    x = cos(theta) * cos(phi)
    y = sin(theta) * cos(phi)
    z = sin(phi)

    return x, y, z


def _xyz2thetaphi(x, y, z):
    """
    returns theta, phi in radians relative to the SDSS node at ra=95 degrees
    """
    phi = arcsin(z)
    theta = arctan2(y, x)

    return theta, phi


def eq2xyz(ra, dec, dtype="f8", units="deg", stomp=False):
    """
    Convert equatorial coordinates RA and DEC to x,y,z on the unit sphere

    parameters
    ----------
    ra: scalar or array
        Right ascension. Can be an array
    dec: scalar or array
        Declination. Can be an array
    units: string, optional
        'deg' if the input is degrees, 'rad' if input
        is in radians.  Default is degrees.
    stomp: bool, optional
        if set to True, use the stomp convention.
    """

    theta = np.array(ra, ndmin=1, copy=True, dtype=dtype)
    phi = np.array(dec, ndmin=1, copy=True, dtype=dtype)

    # in place is more efficient
    if units == "deg":
        np.deg2rad(theta, theta)
        np.deg2rad(phi, phi)

    if stomp:
        theta -= _sdsspar["node"]

    return _thetaphi2xyz(theta, phi)


def xyz2eq(xin, yin, zin, units="deg", stomp=False):
    """
    Convert x,y,z on the unit sphere to RA DEC.

    parameters
    ----------
    x,y,z:
        scalars or arrays as given by eq2xyz
    units: string, optional
        'deg' if the output is to be degrees, 'rad' if it is to be radians.
        Default is degrees.
    stomp: bool, optional
        if set to True, use the stomp convention.
    """

    x = np.atleast_1d(xin)
    y = np.atleast_1d(yin)
    z = np.atleast_1d(zin)

    theta, phi = _xyz2thetaphi(x, y, z)
    if stomp:
        theta += _sdsspar["node"]

    if units == "deg":
        np.rad2deg(theta, theta)
        np.rad2deg(phi, phi)

        atbound(theta, 0.0, 360.0)
    else:
        # arctan2 gives (-pi, pi]
        (w,) = np.where(theta < 0.0)
        theta[w] += 2.0 * PI

    # theta->ra, phi->dec
    return theta, phi


def sphdist(ra1, dec1, ra2, dec2, units=["deg", "deg"]):
    """
    Get the arc length between two points on the unit sphere

    parameters
    ----------
    ra1,dec1,ra2,dec2: scalar or array
        Coordinates of two points or sets of points.
        Must be the same length.
    units: sequence
        A sequence containing the units of the input and output.  Default
        ['deg',deg'], which means inputs and outputs are in degrees.  Units
        can be 'deg' or 'rad'

    Credits
    -------
    Method from galsim.CelestialCoord.distanceTo(), vectorization
        from Josh Meyers
    This replaces the less precise previous method
    """

    units_in, units_out = units

    ra1 = np.atleast_1d(ra1)
    dec1 = np.atleast_1d(dec1)
    ra2 = np.atleast_1d(ra2)
    dec2 = np.atleast_1d(dec2)

    # note x,y,z from eq2xyz always returns 8-byte float
    x1, y1, z1 = eq2xyz(ra1, dec1, units=units_in)
    x2, y2, z2 = eq2xyz(ra2, dec2, units=units_in)

    dsq = (x1-x2)**2 + (y1-y2)**2 + (z1-z2)**2
    dis = 2*np.arcsin(0.5*np.sqrt(dsq))
    w = dsq >= 3.99
    if np.any(w):
        cross = np.cross(
            np.array([x1[w], y1[w], z1[w]]),
            np.array([x2[w], y2[w], z2[w]]),
            axis=0,
        )
        crosssq = cross[0]**2 + cross[1]**2 + cross[2]**2
        dis[w] = np.pi - np.arcsin(np.sqrt(crosssq))

    if units_out == "deg":
        np.rad2deg(dis, dis)

    (w,) = np.where((ra1 == ra2) & (dec1 == dec2))
    dis[w] = 0.0

    return dis


def gcirc(ra1deg, dec1deg, ra2deg, dec2deg, getangle=False):
    """
    This is currently very inflexible: degrees in, radians out
    """
    ra1 = np.array(ra1deg, dtype="f8", ndmin=1)
    dec1 = np.array(dec1deg, dtype="f8", ndmin=1)
    ra2 = np.array(ra2deg, dtype="f8", ndmin=1)
    dec2 = np.array(dec2deg, dtype="f8", ndmin=1)

    deg2rad(ra1, ra1)
    deg2rad(dec1, dec1)
    deg2rad(ra2, ra2)
    deg2rad(dec2, dec2)

    sindec1 = sin(dec1)
    cosdec1 = cos(dec1)

    sindec2 = sin(dec2)
    cosdec2 = cos(dec2)

    radiff = ra2 - ra1
    cosradiff = cos(radiff)
    cosdis = sindec1 * sindec2 + cosdec1 * cosdec2 * cosradiff

    cosdis.clip(-1.0, 1.0, out=cosdis)
    dis = arccos(cosdis)

    (w,) = np.where((ra1 == ra2) & (dec1 == dec2))
    dis[w] = 0.0

    if getangle:
        theta = (
            arctan2(
                sin(radiff),
                (sindec1 * cosradiff - cosdec1 * sindec2 / cosdec2)
            ) - HALFPI
        )
        return dis, theta
    else:
        return dis


# utility functions
def atbound(longitude, minval, maxval):
    (w,) = np.where(longitude < minval)
    while w.size > 0:
        longitude[w] += 360.0
        (w,) = np.where(longitude < minval)

    (w,) = np.where(longitude > maxval)
    while w.size > 0:
        longitude[w] -= 360.0
        (w,) = np.where(longitude > maxval)

    return


def atbound2(theta, phi):

    atbound(theta, -180.0, 180.0)

    (w,) = np.where(np.abs(theta) > 90.0)
    if w.size > 0:
        theta[w] = 180.0 - theta[w]
        phi[w] += 180.0

    atbound(theta, -180.0, 180.0)
    atbound(phi, 0.0, 360.0)

    (w,) = np.where(np.abs(theta) == 90.0)
    if w.size > 0:
        phi[w] = 0.0


#
# SDSS specific conversions
#


def eq2sdss(ra_in, dec_in, dtype="f8"):
    """
    NAME:
      eq2sdss
    PURPOSE:
       Convert from ra, dec to the corrected clambda, ceta
       SDSS survey coordinate system.  It is corrected so that the
       longitude eta ranges from [-180.0, 180.0] and the latitude
       lambda ranges from [-90.0,90.0].  The standard lambda/eta
       both range from [-180.0,180.0] which doesn't make sense.
       NOTE: lambda is often referred to as longitude but this
       is incorrect since it has poles at [-90,90]

    CALLING SEQUENCE:
      from esutil import coords
      (clambda, ceta) = coords.eq2sdss(ra, dec, dtype='f8')

    INPUTS:
      ra: Equatorial latitude in degrees.
      dec: Equatorial longitude in degrees.
    OPTIONAL INPUTS:
        dtype: The data type of output.  Default is 'f8'. See
        numpy.typeDict for a list of possible types.
        dtype: The data type of output.  Default is 'f8'.

    OUTPUTS:
      clambda: Corrected Survey longitude (actually lattitude) in degrees
      ceta: Corrected Survey latitude (actually logitude) in degrees

    REVISION HISTORY:
      Written: 11-March-2006  Converted from IDL program.
    """

    # Make a copy as an array. ndmin=1 to avoid messed up scalar arrays
    ra = np.array(ra_in, ndmin=1, copy=True, dtype=dtype)
    dec = np.array(dec_in, ndmin=1, copy=True, dtype=dtype)

    if ra.size != dec.size:
        raise ValueError("RA, DEC must be same size")

    # range checking
    if (ra.min() < 0.0) | (ra.max() > 360.0):
        raise ValueError("RA must we within [0,360]")
    if (dec.min() < -90.0) | (dec.max() > 90.0):
        raise ValueError("DEC must we within [-90,90]")

    ra *= D2R
    dec *= D2R
    ra -= _sdsspar["node"]

    # generate x,y,z on unit sphere, clearing memory as we go
    cdec = cos(dec)

    x = cos(ra) * cdec
    y = sin(ra) * cdec

    ra = 0
    cdec = 0  # mem

    z = np.sin(dec)

    dec = 0  # mem

    # generate clambda, ceta
    # do things in place to save memory

    # clambda = -arcsin( x ) (not a copy clambda=x)
    arcsin(x, x)
    clambda = x
    clambda *= -1

    arctan2(z, y, z)
    ceta = z
    ceta -= _sdsspar["etapole"]

    clambda *= R2D
    ceta *= R2D

    atbound(ceta, -180.0, 180.0)

    return (clambda, ceta)


def sdss2eq(clambda_in, ceta_in, dtype="f8"):
    """
    NAME:
      sdss2eq
    PURPOSE:
       Convert corrected clambda, ceta SDSS survey coordinate system t
       equatorial coords.

    CALLING SEQUENCE:
      from esutil import coords
      (ra, dec) = coords.sdss2eq(clambda, ceta, dtype='f8')

    INPUTS:
      clambda: Corrected Survey longitude (actually lattitude) in degrees
      ceta: Corrected Survey latitude (actually logitude) in degrees
    OPTIONAL INPUTS:
        dtype: The data type of output.  Default is 'f8'. See
        numpy.typeDict for a list of possible types.

    OUTPUTS:
      ra: Equatorial latitude in degrees.
      dec: Equatorial longitude in degrees.

    REVISION HISTORY:
      Written: 11-March-2006  Converted from IDL program.
    """

    # Make a copy as an array. ndmin=1 to avoid messed up scalar arrays
    clambda = np.array(clambda_in, ndmin=1, copy=True, dtype=dtype)
    ceta = np.array(ceta_in, ndmin=1, copy=True, dtype=dtype)

    # range checking
    if (clambda.min() < -90.0) | (clambda.max() > 90.0):
        raise ValueError("CLAMBDA must we within [-90,90]")
    if (ceta.min() < -180.0) | (ceta.max() > 180.0):
        raise ValueError("CETA must we within [-180,180]")

    clambda *= D2R
    ceta *= D2R

    x = -sin(clambda)
    y = cos(ceta + _sdsspar["etapole"]) * cos(clambda)
    z = sin(ceta + _sdsspar["etapole"]) * cos(clambda)

    ra = arctan2(y, x) + _sdsspar["node"]
    dec = arcsin(z)

    ra *= R2D
    dec *= R2D
    atbound2(dec, ra)

    return (ra, dec)


def dec_parse(decstring):
    """
    parse a colon separated string representing declination into
    degrees.

    parameters
    ----------
    decstring: string
        DD:MM:SS.sss the value is specified in degrees, minutes, seconds

        Only the degrees are required. Additional
        precision (minutes, seconds) are optional in the string (i.e. "12" or
        "12:34" or "12:34:56" are all valid input strings)

    Corrections by Paul Ray and Dave Smith, NRL, 2013-03-19
    """
    dec = 0.0
    sign = 1.0

    # Grab sign here
    if decstring.find("-") >= 0:
        sign = -1.0
    ds = decstring.split(":")
    lds = len(ds)
    if lds >= 1:
        # Take sign away
        deg = abs(float(ds[0]))
        dec += deg
    if lds >= 2:
        minutes = float(ds[1])
        dec += minutes / 60.0
    if lds >= 3:
        sec = float(ds[2])
        dec += sec / 3600.0

    dec *= sign
    return dec


def ra_parse(rastring, hours=True):
    """
    parse a colon separated string representing right ascension into
    decimal degrees.

    parameters
    ----------
    rastring: string
        "HH:MM:SS.sss" if hours is True and
        "DD:MM:SS.sss" if hours is False (indicating that
            the value is specified in degrees, minutes, seconds)

        In all cases,  only the hours (or degrees) are required. Additional
        precision (minutes, seconds) are optional in the string (i.e. "12" or
        "12:34" or "12:34:56" are all valid input strings)

    Corrections by Paul Ray and Dave Smith, NRL, 2013-03-19
    """
    ra = 0.0

    rs = rastring.split(":")
    lrs = len(rs)
    if lrs >= 1:
        ra += float(rs[0])
    if lrs >= 2:
        minutes = float(rs[1])
        ra += minutes / 60.0
    if lrs >= 3:
        sec = float(rs[2])
        ra += sec / 3600.0
    if hours:
        ra *= 15
    return ra


def fitsheader2dict(hdr, ext=0):
    """
    Convert a fits header object into a dict.  A dict provides more expected
    interface to the data but cannot be written back to a fits file without
    transformation.
    """

    hdict = {}
    for key in hdr:
        hdict[key.lower()] = hdr[key]

    return hdict


def shiftlon(lon_input, shift=None, wrap=True):
    """
    Name:
        shiftlon
    Calling Sequence:
        newlon = shiftlon(longitude, wrap=True, shift=0.0)

    Purpose:

        Shift the value of a longitude.  By default, the value is "wrapped" to
        be [-180,180] instead of [0,360]

        If the shift keyword is sent, then the longitude is simply shifted by
        the input value and then constrained to be again on the [0,360) range.

    Input:
        A longitude or array of longitudes on the range [0,360)

    Keywords:
        shift:
            If shift is sent, then lon-shift is returned, constrained to still
            be on [0,360).

        wrap:
            If shift is not sent, and wrap is True, wrap the range to
            [-180,180]

    """
    lon = np.array(lon_input, ndmin=1, copy=True, dtype="f8")

    if shift is not None:
        negshift = False
        if shift < 0:
            negshift = True

        abs_shift = abs(shift)

        # make sure in range [0,360)
        abs_shift = abs_shift % 360.0

        if negshift:
            lon += abs_shift

            (w,) = np.where(lon >= 360.0)
            if w.size > 0:
                lon[w] -= 360.0
        else:
            lon -= abs_shift

            (w,) = np.where(lon < 0.0)
            if w.size > 0:
                lon[w] += 360.0

    elif wrap:
        (w,) = where(lon > 180)
        if w.size > 0:
            lon[w] -= 360

    return lon


def shiftra(ra, shift=None, wrap=True):
    """
    Name:
        shiftra
    Calling Sequence:
        newra = shiftra(ra, wrap=True, shift=0.0)

    Purpose:

        Shift the value of a longitude RA.  By default, the value is "wrapped"
        to be [-180,180] instead of [0,360]

        If the shift keyword is sent, then the longitude is simply shifted by
        the input value and then constrained to be again on the [0,360) range.

    Input:
        ra or any other longitude on the range [0,360)

    Keywords:
        shift:

            If shift is sent, then ra-shift is returned, constrained to still
            be on [0,360).

        wrap:
            If shift is not sent, and wrap is True, wrap the range to
            [-180,180]

    """
    return shiftlon(ra, shift=shift, wrap=wrap)


def radec2aitoff(ra, dec):
    """
    Take the ra/dec into aitoff coords
    """

    r2 = np.sqrt(2.0)
    f = 2.0 * r2 / PI

    sra = shiftra(ra)

    alpha2 = sra / 2.0 * D2R
    delta = dec * D2R

    cdec = cos(delta)

    denom = sqrt(1.0 + cdec * cos(alpha2))

    x = cdec * sin(alpha2) * 2.0 * r2 / denom
    y = sin(delta) * r2 / denom
    x = x * R2D / f
    y = y * R2D / f

    return x, y


def _check_range(rng, allowed):
    if rng is None:
        rng = allowed
    else:
        if not hasattr(rng, "__len__"):
            raise ValueError("range object does not have len() method")

        if rng[0] < allowed[0] or rng[1] > allowed[1]:
            raise ValueError("lon_range should be within [%s,%s]" % allowed)
    return rng


def randsphere(num, ra_range=None, dec_range=None, system="eq", rng=None):
    """
    Generate random points on the sphere

    You can limit the range in ra and dec.  To generate on a spherical cap, see
    randcap()

    Parameters
    ----------
    num: integer
        The number of randoms to generate
    ra_range: list, optional
        Should be within range [0,360].  Default [0,360]
    dec_range: list, optional
        Should be within range [-90,90].  Default [-90,90]
    system: string
        Default is 'eq' for the ra-dec system.  Can also be 'xyz'.

    Returns
    ------
        for system == 'eq' the return is a tuple
            ra,dec = randsphere(...)
        for system == 'xyz' the return is a tuple
            x,y,z = randsphere(...)

    Examples
    --------
        ra, dec = randsphere(2000, ra_range=[10,35], dec_range=[-25,15])
        x, y, z = randsphere(2000, system='xyz')
    """

    if rng is None:
        rng = np.random.RandomState()

    ra_range = _check_range(ra_range, [0.0, 360.0])
    dec_range = _check_range(dec_range, [-90.0, 90.0])

    ra = rng.uniform(low=ra_range[0], high=ra_range[1], size=num)

    # number [-1,1)
    cosdec_min = cos(deg2rad(90.0 + dec_range[1]))
    cosdec_max = cos(deg2rad(90.0 + dec_range[0]))

    v = rng.uniform(low=cosdec_min, high=cosdec_max, size=num)

    np.clip(v, -1.0, 1.0, v)

    # Now this generates on [0,pi)
    dec = np.arccos(v)

    # convert to degrees
    rad2deg(dec, dec)

    # now in range [-90,90.0)
    dec -= 90.0

    if system == "xyz":
        x, y, z = eq2xyz(ra, dec)
        return x, y, z
    else:
        return ra, dec


def randcap(nrand, ra, dec, rad, get_radius=False, dorot=False, rng=None):
    """
    Generate random points in a sherical cap

    Parameters
    ----------

    nrand:
        The number of random points
    ra,dec:
        The center of the cap in degrees.  The ra should be within [0,360) and
        dec from [-90,90]
    rad: float
        radius of the cap, same units as ra,dec
    get_radius: bool, optional
        if true, return radius of each point in radians
    dorot: bool
        If dorot is True, generate the points on the equator and rotate them to
        be centered at the desired location.  This is the default when the dec
        is within 0.1 degrees of the pole, to avoid calculation issues

    Returns
    --------
    ra, dec
    """

    if rng is None:
        rng = np.random.RandomState()

    # generate uniformly in r**2
    if dec >= 89.9 or dec <= -89.9:
        dorot = True

    if dorot:
        tra, tdec = 90.0, 0.0
        rand_ra, rand_dec, rand_r = randcap(
            nrand,
            90.0,
            0.0,
            rad,
            get_radius=True,
            rng=rng,
        )
        rand_ra, rand_dec = rotate(0.0, dec - tdec, 0.0, rand_ra, rand_dec)
        rand_ra, rand_dec = rotate(ra - tra, 0.0, 0.0, rand_ra, rand_dec)
    else:

        rand_r = rng.random(nrand)
        rand_r = sqrt(rand_r) * rad

        # put in degrees
        np.deg2rad(rand_r, rand_r)

        # generate position angle uniformly 0, 2*PI
        rand_posangle = rng.uniform(low=0, high=2 * PI, size=nrand)

        theta = np.array(dec, dtype="f8", ndmin=1, copy=True)
        phi = np.array(ra, dtype="f8", ndmin=1, copy=True)
        theta += 90

        np.deg2rad(theta, theta)
        np.deg2rad(phi, phi)

        sintheta = sin(theta)
        costheta = cos(theta)

        sinr = sin(rand_r)
        cosr = cos(rand_r)

        cospsi = cos(rand_posangle)
        costheta2 = costheta * cosr + sintheta * sinr * cospsi

        np.clip(costheta2, -1, 1, costheta2)

        # gives [0,pi)
        theta2 = arccos(costheta2)
        sintheta2 = sin(theta2)

        cosDphi = (cosr - costheta * costheta2) / (sintheta * sintheta2)

        np.clip(cosDphi, -1, 1, cosDphi)
        Dphi = arccos(cosDphi)

        # note fancy usage of where
        phi2 = np.where(rand_posangle > PI, phi + Dphi, phi - Dphi)

        np.rad2deg(phi2, phi2)
        np.rad2deg(theta2, theta2)
        rand_ra = phi2
        rand_dec = theta2 - 90.0

        atbound(rand_ra, 0.0, 360.0)

        # the radii were converted to radians above
        np.rad2deg(rand_r, rand_r)

    if get_radius:
        return rand_ra, rand_dec, rand_r
    else:
        return rand_ra, rand_dec


def randcap_brute(nrand, ra, dec, rad, get_radius=False):
    """
    Generate random points in a sherical cap using brute
    force rejection sampling. This is extremely
    slow and is used for testing purposes only.

    parameters
    ----------

    nrand: int
        The number of random points
    ra,dec: float
        The center of the cap in degrees.  The ra should be within [0,360) and
        dec from [-90,90]
    rad: float
        radius of the cap, same units as ra,dec
    get_radius: bool, optional
        if true, return radius of each point in radians
    """

    ora = zeros(nrand)
    odec = zeros(nrand)
    orad = zeros(nrand)

    ngood = 0
    nleft = nrand

    while ngood < nrand:
        tra, tdec = randsphere(nleft)
        d = sphdist(ra, dec, tra, tdec)
        (w,) = where(d <= rad)
        if w.size > 0:
            ora[ngood: ngood + w.size] = tra[w]
            odec[ngood: ngood + w.size] = tdec[w]
            orad[ngood: ngood + w.size] = d[w]

            ngood += w.size
            nleft -= w.size

    if get_radius:
        return ora, odec, orad
    else:
        return ora, odec


def rotate(phi, theta, psi, ra, dec):
    """
    rotation the given positions on the sphere

    The convention is the usual zxz

    Parameters
    ----------
    phi, theta, psi: numbers
        The euler angles in zxz convention
    ra, dec: numbers or arrays
        positions to be rotated
    """

    if hasattr(ra, "__len__"):
        is_scalar = False
    else:
        is_scalar = True

    ra = np.atleast_1d(ra)
    dec = np.atleast_1d(dec)
    if ra.size != dec.size:
        raise ValueError(
            "ra[%d] has different size than " "dec[%d]" % (ra.size, dec.size)
        )

    twopi = 2.0 * PI
    fourpi = 4.0 * PI

    # use negative; rotating the points is like rotating
    # the coord system in the opposite direction
    phi = deg2rad(-phi)
    theta = deg2rad(-theta)
    psi = deg2rad(-psi)

    sintheta = sin(theta)
    costheta = cos(theta)

    a = deg2rad(ra) - phi
    b = deg2rad(dec)

    sb = sin(b)
    cb = cos(b)
    cbsa = cb * sin(a)

    b = -sintheta * cbsa + costheta * sb

    np.clip(b, -1.0, 1.0, b)

    dec_out = arcsin(b)

    a = arctan2(costheta * cbsa + sintheta * sb, cb * cos(a))
    ra_out = (a + psi + fourpi) % twopi

    rad2deg(ra_out, out=ra_out)
    rad2deg(dec_out, out=dec_out)

    if is_scalar:
        ra_out = ra_out[0]
        dec_out = dec_out[0]

    return ra_out, dec_out


def rect_area(lon_min, lon_max, lat_min, lat_max):
    """
    Calculate the area of a rectangle on the sphere.

    parameters
    ----------
    lon_min, lon_max, lat_min, lat_max:
        Definition of the rectangle, in degrees
    """
    smax = sin(deg2rad(lat_max))
    smin = sin(deg2rad(lat_min))
    area = (smax - smin) * (lon_max - lon_min)
    return np.abs(area) * R2D
