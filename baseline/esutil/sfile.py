"""
Module:
    sfile

Purpose:

    Read and write numpy arrays to a simple file format.  The format is a
    simple ascii header followed by data, either in binary form or ascii.  For
    details of the ascii header, see the documentation for the read_header()
    function.

    The power of this code comes from two features of the `recfile`
    package:

        1) The recfile package understands the structure of recarrays and can
        efficientlly read subsets of rows and columns. Unlike the memmap class
        distributed with numpy, individual fields from these types of arrays
        can be read without reading the whole file into memory.  This is
        accomplished using a C++ class linked to python.

        2) Structured arrays can be written to and read from delimited ascii
        files.  This is done efficiently using the same C++ class linked to
        python.

    Another nice feature not supported by the format module of numpy is the
    ability to append data to the file.


Convenience functions:
    read_header():  A convenience function to read the header from the simple
        file format.  Uses an SFile instance internally.
    read():  A convenience function to read data and optionally the header
        from the simple file format. Uses an SFile instance internally.
    write(): A convenience function to write data to the simple file format,
        including an ascii header. Uses an SFile instance internally.

    For more docs, check the docs for the individual functions.


Classes

    SFile.  See docs for sfile.SFile for details.
"""
# vim: set filetype=python :
import sys
import os
import pprint
import copy

import numpy as np

# importing array will allow array types in the header to be properly
# eval()uated.  Not sure if this works for all dtypes.
from numpy import array  # noqa

from . import recfile

SFILE_VERSION = "1.0"


class SFile(object):
    """
    Class SFile

    This class implements a simple file format for holding numerical python
    arrays.  The format is a simple ascii header followed by data, either in
    binary form or ascii.  For details of the ascii header, see the
    documentation for the read_header() function.


    Examples with record arrays
        from esutil.sfile import SFile

        # Open and read from a .rec file
        with SFile(filename) as sf:

            # see what's in the file
            print(sf)
            filename: 'test.rec'
            mode: 'r'
            size: 64526192
            dtype:
              [('x', '<f4'),
               ('y', '<f4'),
               ('flux', '<f8'),
               ('name', '|S20')]
            hdr:
              {'dataset': 'dc4',
               'pyvers':'v2.6.2'}


            # get the header
            hdr = sf.read_header()

            #
            # A few ways to read all the data
            #
            data = sf[:]
            data = sf.read()

            # reading subsets of the data

            # read an entire column name 'x' from the file.  Only data for that
            # column are read
            data = sf['x'][:]
            data = sf.read(columns='x')

            # read a list of columns.  Any list, tuple or numpy array of
            # strings can be sent.
            data = sf[ ['x','y'] ][:]
            data = sf.read(columns=column_list)

            # read a subset of rows.  Can use slices, single numbers for rows,
            # or list/array of row numbers.

            data = sf[35]
            data = sf[35:100]
            data = sf[ [35,66,22,23432] ]
            data = sf[ row_list ]
            data =sf.read(rows=row_list)

            # read a subset of rows and columns.  Only those rows/columns are
            # read from the file.

            data = sf[columns][rows]
            data = sf[ 35:5012 ][ ['x','y'] ]
            data = sf.read(colums=columns, rows=rows)


        # writing data to a CSV file
        data[0:5]
            array([(0, 0.13933435082435608),
                   (1, 0.78211665153503418),
                   (2, 0.13652685284614563),
                   (3, 0.54205995798110962),
                   (4, 0.2745462954044342)],
                      dtype=[('ind', '<i4'), ('rnd', '<f4')])

        sf = Open('test.rec', 'w+', delim=',')
        with SFile('test.rec','w+',delim=',') as sf:
            sf.write(data)
            sf.write(more_data)

            # check the first row of the data we have written
            sf[0]
                array([(0, 0.13933435082435608)],
                         dtype=[('ind', '<i4'), ('rnd', '<f4')])

            sf.write(more_data)

    """

    def __init__(
        self,
        filename=None,
        mode="r",
        delim=None,
        padnull=False,
        ignorenull=False,
        **keys
    ):

        self.open(
            filename,
            mode=mode,
            delim=delim,
            padnull=padnull,
            ignorenull=ignorenull,
            **keys
        )

    def open(
        self, filename, mode="r", delim=None, padnull=False,
        ignorenull=False, **keys
    ):
        """
        Open the file.  If the file already exists and the mode is 'r*' then
        a read of the header is attempted.  If this succeeds, delim is gotten
        from the header and the delim= keyword is ignored.
        """

        self.close()

        self._padnull = padnull
        self._ignorenull = ignorenull
        self._mode = mode

        self._filename = filename

        if filename is None:
            return

        # expand shortcut variables
        fpath = os.path.expanduser(filename)
        fpath = os.path.expandvars(fpath)
        self._filename = fpath

        if mode == "r+" and not os.path.exists(self._filename):
            # path doesn't exist but we want to append.  Change the
            # mode to write
            mode = "w"
            self._mode = mode

        if self._mode[0] == "r":
            # if reading:
            # For 'r' and 'r+' try to read the header
            self._hdr = self.read_header()

            self._delim = _match_key(self._hdr, "_delim")
            self._size = _match_key(self._hdr, "_size", require=True)
            self._descr = _match_key(self._hdr, "_dtype", require=True)
            self._dtype = np.dtype(self._descr)

            self._robj = recfile.Recfile(
                self._filename,
                mode=self._mode,
                delim=self._delim,
                dtype=self._dtype,
                nrows=self.get_nrows(),
                offset=self._data_start,
                padnull=self._padnull,  # these get sent in case mode is r+
                ignorenull=self._ignorenull,
            )

        else:
            # we are starting from scratch, so we can't read a header
            #
            # get delim from the keyword.  This will be used for writing later
            self._delim = delim

            self._robj = recfile.Recfile(
                self._filename,
                mode=self._mode,
                delim=self._delim,
                padnull=self._padnull,
                ignorenull=self._ignorenull,
            )

    def close(self):
        """
        Close any open file object.  Make sure fobj, _hdr, and delim are None
        """

        if hasattr(self, "_robj"):
            if self._robj is not None:
                self._robj.close()

        self._filename = None
        self._mode = None
        self._robj = None
        self._hdr = None
        self._data_start = None
        self._delim = None
        self._size = 0
        self._descr = None
        self._dtype = None

        self._padnull = False
        self._ignorenull = False

    def get_nrows(self):
        """
        get the number of rows in the file
        """
        if self._hdr is None:
            raise RuntimeError("no file has been opened for reading")

        return self._hdr["_SIZE"]

    @property
    def nrows(self):
        """
        get the number of rows in the file
        """
        return self.get_nrows()

    @property
    def dtype(self):
        """
        get the number of rows in the file
        """
        return self._dtype

    def get_header(self):
        """
        get a copy of the header
        """
        return self._hdr

    def get_mode(self):
        """
        get the file open mode
        """
        return self._mode

    def get_filename(self):
        """
        get the file name
        """
        return self._filename

    def _ensure_open(self):
        """
        check if a file is open, if not raise a RuntimeError
        """
        if self._robj is None:
            raise RuntimeError("no file is open")

    def _ensure_open_for_writing(self):
        """
        check if a file is open for writing, if not raise a RuntimeError
        """
        self._ensure_open()
        if self._robj.mode[0] != "w" and "+" not in self._mode:
            raise ValueError("You must open with 'w*' or 'r+' to write")

    def _ensure_open_for_reading(self):
        """
        check if a file is open for reading, if not raise a RuntimeError
        """
        self._ensure_open()

        if self._robj.mode[0] != "r" and "+" not in self._mode:
            raise ValueError("You must open with 'w+' or 'r*' to read")

    def _ensure_structured(self, data):
        """
        check if the data has fields, if not raise a ValueError
        """
        if data.dtype.names is None:
            raise ValueError("data must be a structured array with fields")

    def _ensure_compatible_dtype(self, data):
        """
        if we are writing binary we demand exact match.

        For text we just make sure everything matches if the
        byte order is ignored
        """
        self._ensure_structured(data)

        # if self._dtype is not None, there was data in the file
        if self._dtype is not None:

            bad = False
            if self._delim is None:
                if self._dtype != data.dtype:
                    mess = "got %s instead of %s" % (
                        data.dtype.descr, self._dtype.descr,
                    )
                    bad = True
            else:
                names = self._dtype.names
                nnames = len(names)
                input_names = data.dtype.names
                ninput = len(input_names)

                if ninput != nnames:
                    mess = "got %d fields instead of %d" % (ninput, nnames)
                    bad = True
                else:
                    descr = self._dtype.descr
                    idescr = data.dtype.descr
                    for d1, d2 in zip(descr, idescr):
                        l1 = len(d1)
                        l2 = len(d2)
                        if l1 != l2:
                            mess = "field dim mismatch: %s vs %s" % (d1, d2)
                            bad = True
                            break

                        if d1[0] != d2[0]:
                            mess = "field name mismatch: %s vs %s" % (d1[0], d2[0])  # noqa
                            bad = True
                            break

                        # skip byte order
                        if d1[1][1:] != d2[1][1:]:
                            mess = "field type mismatch: %s vs %s" % (
                                d1[1][1:],
                                d2[1][1:],
                            )
                            bad = True
                            break

                        if l1 == 3:
                            if d1[2] != d2[2]:
                                mess = "field shape mismatch: %s vs %s" % (d1[2], d2[2])  # noqa
                                bad = True
                                break

            if bad:
                raise ValueError(
                    "attempt to write an incompatible "
                    "data type: " + mess
                )

    def write(self, data, header=None):
        """
        write data to the file, appending if the file is not empty

        paramters
        ---------
        data: array
            A structured numerical python array.  If data already
            exists in the file, this data must have compatible
            data type.  For binary files this includes the byte
            order.
        header: dict, optional
            Optional dictionary to write into the header.  This
            can only be written the first time.
        """

        self._ensure_open_for_writing()

        # check compatible, in case there is already data in the file
        self._ensure_compatible_dtype(data)

        # this will make self._dtype if it is the first write
        self._write_header(data, header=header)

        self._robj.write(data)

    def read(
        self,
        rows=None,
        fields=None,
        columns=None,
        header=False,
        view=None,  # ignored
        split=False,
        reduce=False,
    ):
        """
        Read data from the file.

        parameters
        -----------
        rows: sequence or scalar, optional
            A scalar, array, list or tuple of row numbers to read.
            Default is None, meaning read all rows.

        columns: sequence or scalar
            A scalar, list or tuple of strings naming columns to read
            from the file.  Default is None or read all columns.
        fields:  Same as sending columns=.

        header: bool, optional
            If True, return both the array and the header dict in
            a tuple.
        split: bool, optional
            If True, return a list of arrays for each column rather
            than a structured array.
        reduce: bool, optional
            If True, and there is only one field requested, reduce
            it to a plain array. This is equivalent to sending
            columns=(scalar column name)

        returns
        -------

        A structured array with fields.

        If the columns= is a scalar column name (rather than list of names or
        None), then the data is a plain array holding the column data
        """

        self._ensure_open_for_reading()

        result = self._do_read(rows=rows, fields=fields, columns=columns)

        if split:
            result = split_fields(result)
        elif reduce:
            result = reduce_array(result)

        if header:
            return result, copy.deepcopy(self._hdr)
        else:
            return result

    def __getitem__(self, arg):
        """

        # read subsets of columns and/or rows from the file.  This only works
        # for record types
        sf = SFile(....)


        # read subsets of rows
        data = sf[ 35 ]
        data = sf[ 35:88 ]
        data = sf[ [3,234,5551,.. ] ]

        # read subsets of columns
        data = sf['fieldname'][:]
        data = sf[ ['field1','field2',...] ][:]

        # read subset of rows *and* columns.
        data = sf['fieldname'][3:58]
        data = sf[fieldlist][rowlist]
        """

        return self._robj[arg]

    def _do_read(self, rows=None, fields=None, columns=None):
        """
        use the recfile object to read the data
        """

        if columns is None:
            columns = fields

        return self._robj.read(rows=rows, columns=columns)

    """
    def get_subset(self, rows=None, fields=None, columns=None):
        robj = recfile.Open(self.fobj, nrows=self._size, mode='r',
                            offset=self.fobj.tell(),
                            dtype=self._dtype, delim=self._delim)
        return robj.get_subset(rows=rows, fields=fields, columns=columns)
    """

    def _make_header(self, data, header=None):
        if header is None:
            head = {}
        else:
            head = copy.deepcopy(header)

        for key in ["_size", "_nrows", "_delim", "_shape", "_has_fields"]:
            if key in head:
                del head[key]
            if key.upper() in head:
                del head[key.upper()]

        descr = data.dtype.descr

        if self._delim is not None:
            head["_DELIM"] = self._delim

            # Text file. Remove the byte order specification.
            descr = self._remove_byteorder(descr)

        head["_DTYPE"] = descr
        head["_VERSION"] = SFILE_VERSION

        return head

    def _write_header(self, data, header=None):

        if self._hdr is not None:
            # we are appending data.
            # Just update the nrows and move to the end

            self._update_size(data.size)
        else:

            # this is a dict of variable size
            self._hdr = self._make_header(data, header=header)

            # store some of the info
            self._descr = self._hdr["_DTYPE"]
            self._dtype = np.dtype(self._descr)

            size_string = self._get_size_string(data.size)
            self._size = data.size

            # As long as the dict contains types that can be represented as
            # constants, this pretty printing can be eval()d.

            hdr_dict_string = pprint.pformat(self._hdr)

            lines = [
                size_string,
                hdr_dict_string,
                "END",
                "",  # to add a new line
                "",  # to add a blank line
            ]

            total_str = "\n".join(lines)

            self._robj.robj.write_header_and_update_offset(total_str)

    def _remove_byteorder(self, descr):
        if isstring(descr):
            return descr[1:]

        new_descr = []
        for d in descr:
            # d is a tuple, make it a list
            newd = list(copy.copy(d))

            tdef = newd[1]
            tdef = tdef[1:]
            newd[1] = tdef
            newd = tuple(newd)
            new_descr.append(newd)

        return new_descr

    def _update_size(self, size_add):
        """
        update the size in the file

        TODO: update for new recfile where file object
        is maintained within the C++ code
        """
        size_current = self._size
        if size_current is None:
            raise RuntimeError(
                "Attempting to update size but not found in header"
            )

        size_new = size_current + size_add

        self._robj.robj.update_row_count(size_new)
        self._size = size_new
        self._hdr["_SIZE"] = size_new

    def _get_size_string(self, size):
        # Specially formatted fixed-length for updating later
        s = "SIZE = %20d" % size
        return s

    def _extract_size_from_string(self, line):
        lsplit = line.split("=")
        if len(lsplit) != 2:
            raise ValueError("First line of header must be SIZE = %20d")
        fname = lsplit[0].strip()

        # also allow old NROWS word for compatibility
        if fname.upper() != "SIZE" and fname.upper() != "NROWS":
            raise ValueError("First line of header must be SIZE = %20d")

        if fname.upper() == "NROWS":
            self.cannot_append_oldheader = True
        else:
            self.cannot_append_oldheader = False

        size = eval(lsplit[1])

        return size

    def read_header(self):
        """
        Name:
            read_header()

        Calling Sequence:
            sf = sfile.Open(file)
            hdr = sf.read_header()

        Read the header from a simple self-describing file format with an
        ascii header.  See the write() function for information about reading
        this file format, and read() for reading.


        The file format:
          First line:
              SIZE = --------------number

        where if possible the number should be formatted as %20d.  This is
        large enough to hold a 64-bit number.  This exact formatting is
        required so SIZE can be updated *in place* when appending rows to a
        file.  Note the file can always be read as long as the first line reads
        'SIZE = some_number' but appending requires the exact format.

        Last two lines of the header region must be:
                END
                blank line
        case does not matter.


        In between the SIZE and END lines is the header data.  This is a
        string that must eval() to a dictionary.  It must contain the
        following entry:

              _DTYPE = array data type description in list of tuples or
                string form (case does not matter, can also be called _dtype).

                    [('field1', 'f8'), ('f2','2i4')]


        There should also be a _VERSION tag.

              '_VERSION': '1.0'

        If '_VERSION' is not present, it is assumed that the version is 1.0,
        but you should always set this.  If you use this module to write data,
        it will always be set.


        If the file holds a simple array, and the dtype field is a simple
        string, then the following keyword, if present, will be used to
        reshape the array:

              '_SHAPE'

        If the total elements in the _shape field matches the size then it
        will be used to reshape the array before returning or when using
        memory maps.

        If the data are ascii then delimiter must be given in the keyword

              _DELIM

        This can be for example ',', ' ', or a tab character.  Again, case does
        not matter.

        The rest of the keywords can by any variable can be used as long as it
        can be eval()d.

        An example header:
            SIZE =                   10
            {'_VERSION': '1.0',
             '_DELIM': ',',
             '_DTYPE': [('x', 'f4'),
                        ('y', 'f4'),
                        ('ra', 'f8'),
                        ('dec', 'f8'),
                        ('exposurename', 'S20'),
                        ('ccd', 'i1'),
                        ('size_flags', 'i4'),
                        ('magi', 'f4'),
                        ('sigma0', 'f4'),
                        ('star_flag', 'i4'),
                        ('shear_flags', 'i4'),
                        ('shapelet_sigma', 'f4'),
                        ('shear1', 'f4'),
                        ('shear2', 'f4'),
                        ('shear_cov00', 'f4'),
                        ('shear_cov01', 'f4'),
                        ('shear_cov11', 'f4')],
             'listvar': [1, 2, 3],
             'subd': {'subd1': 'subfield', 'sublist': [8.5, 6.6]},
             'svar': 'hello',
             'test1': 35}
            END

            -- data begins --
        """

        if self._filename is None:
            raise ValueError("you opened with filename None")

        # read first line, which should be
        # SIZE = .....
        # or
        # NROWS = ...

        dummy_dtype = [("ra", "f8")]
        with recfile.Recfile(self._filename, dtype=dummy_dtype) as robj:
            hdrstring, offset = robj.robj.read_sfile_header()

        self._data_start = offset
        lines = hdrstring.split("\n")
        size = self._extract_size_from_string(lines[0])

        hdrdict_string_lines = lines[1: len(lines) - 3]
        hdrdict_string = " ".join(hdrdict_string_lines)
        hdr = eval(hdrdict_string)

        hdr["_SIZE"] = size

        # this will leave open the possibility of changing the header or other
        # details later
        if "_version" in hdr or "_VERSION" in hdr:
            pass
        else:
            hdr["_VERSION"] = "1.0"

        return hdr

    def _h2string(self, strip=True):
        if self._hdr is None:
            return ""
        newd = {}

        skipkeys = [
            "_VERSION",
            "_DTYPE",
            "_SIZE",
            "_NROWS",
            "_HAS_FIELDS",
            "_DELIM",
            "_SHAPE",
        ]
        for key in self._hdr:
            if strip:
                if key not in skipkeys:
                    newd[key] = self._hdr[key]
            else:
                newd[key] = self._hdr[key]

        if len(newd) == 0:
            return ""
        return pprint.pformat(newd)

    def __repr__(self):

        top = ["filename: '%s'" % self._filename]

        s = ["mode: '%s'" % self._mode]
        if self._delim is not None:
            s += ["delim: '%s'" % self._delim]

        s += ["size: %s" % self._size]

        if self._descr is not None:
            drepr = pprint.pformat(self._descr).split("\n")
            drepr = ["  " + d for d in drepr]
            # drepr = '  '+drepr.replace('\n','\n  ')
            s += ["dtype:"]
            s += drepr

        if self._hdr is not None:
            hs = self._h2string()
            if hs != "":
                hs = "  " + hs.replace("\n", "\n  ")
                if hs != "":
                    s += ["hdr: \n" + hs]

        slist = []
        for tmp in s:
            slist.append("    " + tmp)

        slist = top + slist
        rep = "\n".join(slist)
        return rep

    def __enter__(self):
        return self

    def __exit__(self, exception_type, exception_value, traceback):
        self.close()


def write(outfile, data, **keys):
    """
    Name:
        sfile.write()

    Calling Sequence:
        sfile.write(data, outfile, header=None, delim=None,
                    padnull=False, ignorenull=False, append=False)

    Write a numpy array into a simple self-describing file format with an ascii
    header.  See the read() function for information about reading this file
    format.  See the docs for the SFile class for an idea of the full
    functionality wrapped by this covenience function.


    Inputs:
        outfile: string
            The filename to write
        data: array
            Numerical python array, a structured array with fields

    Optional Inputs:
        header=: A dictionary containing keyword-value pairs to be added to
            the header.

        delim=None: Delimiter between fields.  Default is None for binary.  For
            ascii can be any string, e.g. ',', ' ', or a tab character.

        padnull=False:
            When writing ascii, replace Null characters with spaces.  This is
            useful when writing files to be read in by programs that do not
            recognize null characters, e.g. sqlite databases.  But note, if
            read back in these fields will not compare equal with the original
            data!

        ignorenull=False:
            When writing ascii, ignore Null characters.  This is useful when
            writing files to be read in by programs that do not recognize null
            characters, e.g. sqlite databases.  But note you will not be
            able to read the data back in with sfile.read() becuase the fields
            are no longer the correct length!

        append=False: Append to the file. Default is False. If set to True,
            then what happens is situation dependent:
                1) if the input is a file object then it is assumed there is
                    an existing header.  The header is updated to reflect the
                    new appended rows after writing.
                2) if the input is a string and the file exists, then the file
                    is opened with mode "r+", it is assumed the header
                    exists, and the header is updated to reflext the new
                    appended rows after writing.
                3) if the input is a string and the file does *not* exist,
                    then the file is opened with mode "w" and the request
                    to append is ignored.

    Examples:
        import sfile
        hdr={'date': '2007-05-12','age': 33}
        sfile.write(data1, 'test.rec', header=hdr)

        sfile.write(data2, 'test.rec', append=True)

        If this is part of the esutil package, use
            import esutil
            esutil.sfile.write(...)

    File Format:
        The file format is an ascii header followed by data in binary or rows
        of ascii.  The data columns must be fixed length in order to map onto
        numpy arrays.  See the documentation for read_header() for details
        about the header format.

    Modification History:
        Created: 2007-05-25, Erin Sheldon, NYU
        Ignore append=True when file does not yet exist.
        Allow continuation characters "\\" to continue header keywords
        onto the next line.  2009-05-05

        Moved to object-oriented approach using the SFile class.
            2009-11-16, ESS, BNL

    """

    if isinstance(outfile, np.ndarray):
        outfile, data = data, outfile

    header = keys.get("header", None)
    delim = keys.get("delim", None)
    padnull = keys.get("padnull", False)
    ignorenull = keys.get("ignorenull", False)
    append = keys.get("append", False)

    if append:
        # if file doesn't yet exist, this will be changed to 'w+' internally.
        mode = "r+"
    else:
        mode = "w"

    with SFile(
        outfile, mode=mode, delim=delim, padnull=padnull, ignorenull=ignorenull
    ) as sf:
        sf.write(data, header=header)


def read(filename, **keys):
    """
    sfile.read()

    Read a numpy array from a simple self-describing file format with an ascii
    header.  See the write() function for information about this file format.

    parameters
    -----------
    filename: string
        Filename from which to read

    rows: sequence or scalar, optional
        A scalar, array, list or tuple of row numbers to read.
        Default is None, meaning read all rows.

    columns: sequence or scalar
        A scalar, list or tuple of strings naming columns to read
        from the file.  Default is None or read all columns.
    fields:  Same as sending columns=.

    header: bool
        If True, return both the array and the header dict in
        a tuple.

    split: bool, optional
        If True, return a list of arrays for each column rather
        than a structured array.
    reduce: bool, optional
        If True, and there is only one field requested, reduce
        it to a plain array. This is equivalent to sending
        columns=(scalar column name)

    returns
    -------

    A structured array with fields.

    If the columns= is a scalar column name (rather than list of names or
    None), then the data is a plain array holding the column data
    """

    with SFile(filename) as sf:
        data = sf.read(**keys)

    return data


def read_header(filename):
    """
    read the header from the indicated sfile

    parameters
    -----------
    filename: string
        Filename from which to read

    returns
    -------
    The header as a dictionary
    """

    with SFile(filename) as sf:
        hdr = sf.get_header()

    return hdr


def split_fields(data, fields=None, getnames=False):
    """
    Name:
        split_fields

    Calling Sequence:
        The standard calling sequence is:
            field_tuple = split_fields(data, fields=)
            f1,f2,f3,.. = split_fields(data, fields=)

        You can also return a list of the extracted names
            field_tuple, names = split_fields(data, fields=, getnames=True)

    Purpose:
        Get a tuple of references to the individual fields in a structured
        array (aka recarray).  If fields= is sent, just return those
        fields.  If getnames=True, return a tuple of the names extracted
        also.

        If you want to extract a set of fields into a new structured array
        by copying the data, see esutil.numpy_util.extract_fields

    Inputs:
        data: An array with fields.  Can be a normal numpy array with fields
            or the recarray or another subclass.
    Optional Inputs:
        fields: A list of fields to extract. Default is to extract all.
        getnames:  If True, return a tuple of (field_tuple, names)

    """

    outlist = []
    allfields = data.dtype.fields

    if allfields is None:
        if fields is not None:
            raise ValueError("Could not extract fields: data has " "no fields")
        return (data,)

    if fields is None:
        fields = allfields
    else:
        if isinstance(fields, str):
            fields = [fields]

    for field in fields:
        if field not in allfields:
            raise ValueError("Field not found: '%s'" % field)
        outlist.append(data[field])

    output = tuple(outlist)
    if getnames:
        return output, fields
    else:
        return output


def reduce_array(data):
    # if this is a structured array with fields, and only has a single
    # field, return a simple array view of that field, e.g. data[fieldname]
    if hasattr(data, "dtype"):
        if data.dtype.names is not None:
            if len(data.dtype.names) == 1:
                # get a simpler view
                return data[data.dtype.names[0]]

    return data


def _match_key(d, key, require=False):
    """
    Match the key in a case-insensitive way and return the value. Return None
    if not found or raise an error if require=True
    """
    if not isinstance(d, dict):
        raise RuntimeError("Input object must be a dict, got %s" % d)

    keys = list(d.keys())

    keyslow = [k.lower() for k in keys]
    keylow = key.lower()

    if keylow in keyslow:
        ind = keyslow.index(keylow)
        return d[keys[ind]]
    else:
        if not require:
            return None
        else:
            raise RuntimeError("Could not find required key: '%s'" % key)


_major_pyvers = int(sys.version_info[0])


if np.lib.NumpyVersion(np.__version__) < "1.28.0":
    np_vers = 1
else:
    np_vers = 2


def isstring(obj):
    if _major_pyvers >= 3:
        if np_vers == 2:
            string_types = (str, np.str_, np.bytes_)
        else:
            string_types = (str, np.str_, np.string_)
    else:
        string_types = (str, np.string_)

    if isinstance(obj, string_types):
        return True
    else:
        return False


def _fix_range(i, maxval):
    if i < 0:
        i = maxval - i
    if i > maxval:
        i = maxval
    return i


# deprecated
def Open(filename, mode="r", **keys):
    sf = SFile(filename, mode=mode, **keys)
    return sf
